#!/usr/bin/env python3
"""Translator (A) for C18: clang-14 JSON AST of daemon.c, connection.c, response.c,
digestauth.c  ->  lean/Mhd/Gen/Locks.lean  (lock / shared-field / role table).

For every function of the four files that takes or releases a mutex, touches a field
of the shared set, joins a thread, blocks in select/poll/epoll_wait, invokes an
application callback, signals the inter-thread channel, or (transitively) calls such a function, the table holds the
ordered events of its body.  Each event carries the locks *syntactically* held at
that point, relative to the function entry:

  may   locks possibly held  (union over the structured paths reaching the point)
  must  locks certainly held (intersection over those paths)
  rel   locks of the *caller* that may already have been released by this function
        (the `try_ready_normal_body` pattern: callee unlocks before an error return)
  relm  locks of the caller that have certainly been released on every path to the point
  g     thread-per-connection guard of the point (any | tpcOnly | nonTpcOnly)

The walk is structured and flow-sensitive in the small (guarded `if (c) lock` / `if (c) unlock` pairs are matched by the text of `c`; a guarded
unlock of a lock of the caller is taken to release it whenever it is held): if/else, loops, switch/case,
break/continue/return/goto-forward, `__builtin_unreachable()` (MHD_PANIC) are followed;
a branch that ends in return/break/continue/goto does not contribute to the state after
the statement ("unlock-before-return").  Calls to functions of the table apply the
callee's summary (net locks acquired / released), so the MHD_ip_count_lock/unlock
wrappers and the response-mutex hand-over are handled without naming them.

Per function the table also carries the thread role (from the `@remark` doc comment and
the `mhd_assert (... MHD_thread_handle_ID_is_current_thread_ ...)` lines in the source
text of the function), whether it is a root (public API / address taken / referenced from
another library file), and two certificates computed here and *checked* by Lean:
  entryMust / entryMay   locks held at entry over all call sites (fixpoints)
plus `lockRank`, a topological numbering of the lock-order graph (if the graph has a
cycle no numbering exists and the Lean `decide` of `rank_respected` fails).

Nothing in here decides the property: it only reports what the source says.
"""
import bisect, json, os, re, subprocess, sys
from concurrent.futures import ProcessPoolExecutor

sys.path.insert(0, os.path.dirname(os.path.abspath(__file__)))
import vlib

FILES = ["daemon.c", "connection.c", "response.c", "digestauth.c"]

LOCKS = ["cleanup_connection_mutex", "new_connections_mutex", "per_ip_connection_mutex",
         "nnc_lock", "response_mutex", "global_init_mutex", "other"]

# shared set: (struct tag, member) -> Field
FIELD_MAP = {
    ("MHD_Daemon", "connections_head"): "conn_list", ("MHD_Daemon", "connections_tail"): "conn_list",
    ("MHD_Daemon", "suspended_connections_head"): "susp_list", ("MHD_Daemon", "suspended_connections_tail"): "susp_list",
    ("MHD_Daemon", "cleanup_head"): "cleanup_list", ("MHD_Daemon", "cleanup_tail"): "cleanup_list",
    ("MHD_Daemon", "new_connections_head"): "new_list", ("MHD_Daemon", "new_connections_tail"): "new_list",
    ("MHD_Daemon", "normal_timeout_head"): "tmo_list", ("MHD_Daemon", "normal_timeout_tail"): "tmo_list",
    ("MHD_Daemon", "manual_timeout_head"): "tmo_list", ("MHD_Daemon", "manual_timeout_tail"): "tmo_list",
    ("MHD_Daemon", "eready_head"): "eready_list", ("MHD_Daemon", "eready_tail"): "eready_list",
    ("MHD_Daemon", "connections"): "conn_count",
    ("MHD_Daemon", "per_ip_connection_count"): "per_ip_count",
    ("MHD_IPCount", "count"): "per_ip_count",
    ("MHD_NonceNc", "nc"): "nnc", ("MHD_NonceNc", "nmask"): "nnc", ("MHD_NonceNc", "nonce"): "nnc",
    ("MHD_Response", "reference_count"): "reference_count",
    ("MHD_Daemon", "resuming"): "d_resuming", ("MHD_Connection", "resuming"): "c_resuming",
    ("MHD_Daemon", "have_new"): "have_new", ("MHD_Daemon", "shutdown"): "shutdown",
    ("MHD_Daemon", "was_quiesced"): "was_quiesced",
    ("MHD_Daemon", "data_already_pending"): "data_already_pending",
    ("MHD_UpgradeResponseHandle", "was_closed"): "urh_was_closed",
    ("MHD_UpgradeResponseHandle", "clean_ready"): "urh_clean_ready",
    ("MHD_Connection", "next"): "conn_links", ("MHD_Connection", "prev"): "conn_links",
    ("MHD_Connection", "nextX"): "tmo_links", ("MHD_Connection", "prevX"): "tmo_links",
    ("MHD_Connection", "nextE"): "eready_links", ("MHD_Connection", "prevE"): "eready_links",
    ("MHD_Connection", "suspended"): "c_suspended",
    ("MHD_Connection", "thread_joined"): "c_thread_joined",
    # the window of a callback response's shared data block (refilled by the content reader)
    ("MHD_Response", "data_start"): "resp_block", ("MHD_Response", "data_size"): "resp_block",
}
EXTRA_FIELDS = ["resp_block_nocrc"]     # resp_block accessed under a `NULL == response->crc` guard (immutable buffer)
FIELDS = []
for _v in list(FIELD_MAP.values()) + EXTRA_FIELDS:
    if _v not in FIELDS:
        FIELDS.append(_v)

ROLES = ["daemonThread", "connThread", "daemonOrTpcAny", "anyThread", "appThread", "startup", "unknown"]
ROLE_SRC = ["doc", "assert", "threadmain", "extapi", "api", "callers", "none"]
# external-event-loop API: only usable without internal threads (they return MHD_NO / do nothing when
# MHD_USE_INTERNAL_POLLING_THREAD is set) and, by the API contract, from the one thread that drives the loop.
EXTERNAL_LOOP_API = {"MHD_get_fdset", "MHD_get_fdset2", "MHD_run", "MHD_run_wait", "MHD_run_from_select",
                     "MHD_run_from_select2", "MHD_get_timeout", "MHD_get_timeout64", "MHD_get_timeout64s",
                     "MHD_get_timeout_i"}
GUARDS = ["any", "tpcOnly", "nonTpcOnly"]

WAIT_FUNCS = {"select", "poll", "epoll_wait", "pselect", "ppoll"}
JOIN_FUNCS = {"pthread_join"}
NORETURN = {"__builtin_unreachable", "abort", "exit", "_exit"}
IGNORED_FNPTR = {"mhd_panic"}     # panic handler: not a normal callback, never returns


# --------------------------------------------------------------------- AST load

def ast_json(cfile):
    cmd = ["clang-14", "-Xclang", "-ast-dump=json", "-fsyntax-only", "-w"] + vlib.CFLAGS_COMMON + [cfile]
    r = subprocess.run(cmd, stdout=subprocess.PIPE, stderr=subprocess.PIPE)
    if r.returncode != 0 or not r.stdout:
        raise RuntimeError("clang AST dump failed for %s: %s" % (cfile, r.stderr.decode(errors="replace")[-1500:]))
    return json.loads(r.stdout)


def strip(n):
    """peel parentheses and casts"""
    while n.get("kind") in ("ParenExpr", "ImplicitCastExpr", "CStyleCastExpr", "ConstantExpr") and n.get("inner"):
        n = n["inner"][-1]
    return n


def exp_offset(loc):
    if not loc:
        return None
    if "expansionLoc" in loc:
        return loc["expansionLoc"].get("offset")
    return loc.get("offset")


def struct_tag(qual):
    m = re.search(r"struct (\w+)", qual or "")
    return m.group(1) if m else None


def find_all(n, pred, out=None):
    out = [] if out is None else out
    if pred(n):
        out.append(n)
    for c in n.get("inner", []) or []:
        if isinstance(c, dict):
            find_all(c, pred, out)
    return out


# ------------------------------------------------------------------- flow state

class St:
    __slots__ = ("may", "must", "relMay", "relMust", "g", "dead", "guarded", "nocrc")

    def __init__(self, may=(), must=(), relMay=(), relMust=(), g="any", dead=False, guarded=None, nocrc=False):
        self.nocrc = nocrc
        self.may, self.must = frozenset(may), frozenset(must)
        self.relMay, self.relMust = frozenset(relMay), frozenset(relMust)
        self.g, self.dead = g, dead
        self.guarded = dict(guarded or {})     # lock -> text of the condition it was taken under

    def copy(self):
        return St(self.may, self.must, self.relMay, self.relMust, self.g, self.dead, self.guarded, self.nocrc)

    def with_guard(self, g):
        s = self.copy()
        if g != "any":
            s.g = g
        return s


def join(states):
    live = [s for s in states if s is not None and not s.dead]
    if not live:
        return St(dead=True)
    may, must = set(), None
    rmay, rmust = set(), None
    gs = set()
    gd = {}
    for s in live:
        for k_, v_ in s.guarded.items():
            gd.setdefault(k_, v_)
        may |= s.may
        must = set(s.must) if must is None else must & s.must
        rmay |= s.relMay
        rmust = set(s.relMust) if rmust is None else rmust & s.relMust
        gs.add(s.g)
    return St(may, must, rmay, rmust, gs.pop() if len(gs) == 1 else "any",
              guarded={k_: v_ for k_, v_ in gd.items() if k_ in may and k_ not in must},
              nocrc=all(s.nocrc for s in live))


class Summary:
    def __init__(self):
        self.exitMay, self.exitMust = frozenset(), frozenset()
        self.relMay, self.relMust = frozenset(), frozenset()
        self.noreturn = False
        self.by = {}              # "NO" / "nonNO" -> Summary (only when the function returns enum MHD_Result)


class FnInfo:
    def __init__(self, name, file, node, static):
        self.name, self.file, self.node, self.static = name, file, node, static
        self.events = []          # dicts
        self.calls = set()
        self.summary = None
        self.line = 0
        self.role, self.role_src = "unknown", "none"
        self.root = False
        self.addr_taken = False


class Walker:
    """one function body"""

    def __init__(self, fn, world, line_of, lo, hi):
        self.fn, self.world, self.line_of, self.lo, self.hi = fn, world, line_of, lo, hi
        self.events = []
        self.returns = []
        self.return_lines = []
        self.loop_stack = []      # list of dict(breaks=[], continues=[], is_switch=bool)
        self.gotos = {}           # label decl id -> [states]
        self.tpc_vars = {}        # var decl id -> +1 / -1
        self.last_line = 0

    # -- helpers
    def line(self, n):
        off = exp_offset(n.get("range", {}).get("begin")) if n.get("range") else None
        if off is None:
            off = exp_offset(n.get("loc"))
        if off is not None and self.lo <= off <= self.hi:
            self.last_line = self.line_of(off)
        return self.last_line

    def emit(self, st, n, **kw):
        if st.dead:
            return
        ev = dict(kw)
        ev.update(line=self.line(n), may=sorted(st.may, key=LOCKS.index), must=sorted(st.must, key=LOCKS.index),
                  rel=sorted(st.relMay, key=LOCKS.index), relm=sorted(st.relMust, key=LOCKS.index), g=st.g)
        self.events.append(ev)

    def lock_of(self, arg):
        a = strip(arg)
        if a.get("kind") == "UnaryOperator" and a.get("opcode") == "&":
            a = strip(a["inner"][0])
        if a.get("kind") == "MemberExpr":
            nm = a.get("name")
            if nm in ("cleanup_connection_mutex", "new_connections_mutex", "per_ip_connection_mutex", "nnc_lock"):
                return nm
            if nm == "mutex" and struct_tag(strip(a["inner"][0]).get("type", {}).get("qualType")) == "MHD_Response":
                return "response_mutex"
            if nm == "mutex":
                bt = a["inner"][0].get("type", {}).get("qualType", "")
                if "MHD_Response" in bt:
                    return "response_mutex"
        if a.get("kind") == "DeclRefExpr" and a.get("referencedDecl", {}).get("name") == "global_init_mutex_":
            return "global_init_mutex"
        return "other"

    def tpc_sign(self, e):
        """+1: expression true  => thread-per-connection mode; -1: true => not tpc; 0 unknown"""
        e = strip(e)
        k = e.get("kind")
        if k == "UnaryOperator" and e.get("opcode") == "!":
            return -self.tpc_sign(e["inner"][0])
        if k == "DeclRefExpr":
            return self.tpc_vars.get(e.get("referencedDecl", {}).get("id"), 0)
        if k == "BinaryOperator" and e.get("opcode") in ("!=", "=="):
            a, b = strip(e["inner"][0]), strip(e["inner"][1])
            for x, y in ((a, b), (b, a)):
                if x.get("kind") == "IntegerLiteral" and x.get("value") == "0" and y.get("kind") == "BinaryOperator" \
                        and y.get("opcode") == "&":
                    names = [d.get("referencedDecl", {}).get("name") for d in
                             find_all(y, lambda n: n.get("kind") == "DeclRefExpr")]
                    mem = [m.get("name") for m in find_all(y, lambda n: n.get("kind") == "MemberExpr")]
                    if names.count("MHD_USE_THREAD_PER_CONNECTION") == 1 and \
                            all(nm == "MHD_USE_THREAD_PER_CONNECTION" or not (nm or "").startswith("MHD_") for nm in names) \
                            and "options" in mem:
                        return 1 if e["opcode"] == "!=" else -1
        return 0

    def nocrc_cond(self, cond):
        """the condition has a conjunct `NULL == <response>->crc`: the then-branch handles a response
        without content reader (its data block is immutable)"""
        c = strip(cond)
        if c.get("kind") == "BinaryOperator" and c.get("opcode") == "&&":
            return any(self.nocrc_cond(x) for x in c["inner"])
        if c.get("kind") == "BinaryOperator" and c.get("opcode") == "==":
            a, b = strip(c["inner"][0]), strip(c["inner"][1])
            for x, y in ((a, b), (b, a)):
                if y.get("kind") == "MemberExpr" and y.get("name") == "crc" and \
                        x.get("kind") in ("IntegerLiteral", "GNUNullExpr", "CXXNullPtrLiteralExpr"):
                    return True
        return False

    def branch_guards(self, cond):
        """(guard for then-branch, guard for else-branch)"""
        c = strip(cond)
        s = self.tpc_sign(c)
        if s:
            return ("tpcOnly", "nonTpcOnly") if s > 0 else ("nonTpcOnly", "tpcOnly")
        if c.get("kind") == "BinaryOperator" and c.get("opcode") == "&&":
            t = "any"
            for sub in c["inner"]:
                g = self.branch_guards(sub)[0]
                if g != "any":
                    t = g
            return (t, "any")
        if c.get("kind") == "BinaryOperator" and c.get("opcode") == "||":
            f = "any"
            for sub in c["inner"]:
                g = self.branch_guards(sub)[1]
                if g != "any":
                    f = g
            return ("any", f)
        return ("any", "any")

    # -- expressions
    def expr(self, n, st, write=False):
        """walk an expression in (approximate) evaluation order; returns new state"""
        if not isinstance(n, dict) or not n.get("kind"):
            return st
        k = n["kind"]
        inner = [c for c in (n.get("inner") or []) if isinstance(c, dict)]
        if k == "CallExpr":
            return self.call(n, inner, st)
        if k == "MemberExpr":
            base = inner[0] if inner else None
            if base is not None:
                st = self.expr(base, st)
            tag = struct_tag(base.get("type", {}).get("qualType")) if base is not None else None
            fld = FIELD_MAP.get((tag, n.get("name")))
            if fld and not (tag == "MHD_IPCount" and not n.get("isArrow")):
                if fld == "resp_block" and st.nocrc:
                    fld = "resp_block_nocrc"
                self.emit(st, n, kind="acc", field=fld, write=bool(write), member=n.get("name"))
            return st
        if k in ("BinaryOperator", "CompoundAssignOperator") and len(inner) == 2:
            op = n.get("opcode", "")
            if k == "CompoundAssignOperator" or op == "=":
                st = self.expr(inner[1], st)
                if k == "CompoundAssignOperator":
                    st = self.expr(inner[0], st)           # read
                return self.expr(inner[0], st, write=True)
            if op in ("&&", "||"):
                st = self.expr(inner[0], st)
                s2 = self.expr(inner[1], st.copy())
                return join([st, s2])
            st = self.expr(inner[0], st)
            return self.expr(inner[1], st)
        if k == "UnaryOperator" and inner:
            op = n.get("opcode", "")
            if op in ("++", "--"):
                st = self.expr(inner[0], st)
                return self.expr(inner[0], st, write=True)
            if op == "&":
                # address of a shared member escapes: count as read+write of that member
                tgt = strip(inner[0])
                if tgt.get("kind") == "MemberExpr" and FIELD_MAP.get(
                        (struct_tag((tgt.get("inner") or [{}])[0].get("type", {}).get("qualType")), tgt.get("name"))):
                    st = self.expr(inner[0], st)
                    return self.expr(inner[0], st, write=True)
            return self.expr(inner[0], st, write=(write and op == "*" and False))
        if k == "ConditionalOperator" and len(inner) == 3:
            st = self.expr(inner[0], st)
            gt, gf = self.branch_guards(inner[0])
            a = self.expr(inner[1], st.with_guard(gt), write)
            b = self.expr(inner[2], st.with_guard(gf), write)
            r = join([a, b])
            r.g = st.g
            return r
        if k in ("ParenExpr", "ImplicitCastExpr", "CStyleCastExpr", "ConstantExpr") and inner:
            w = write and not (k == "ImplicitCastExpr" and n.get("castKind") == "LValueToRValue")
            return self.expr(inner[-1], st, w)
        if k == "ArraySubscriptExpr" and len(inner) == 2:
            st = self.expr(inner[0], st)
            return self.expr(inner[1], st)
        if k == "StmtExpr" and inner:
            return self.stmt(inner[0], st)
        if k == "DeclRefExpr":
            rd = n.get("referencedDecl", {})
            if rd.get("kind") == "FunctionDecl":
                self.world.addr_taken.add(rd.get("name"))
            return st
        for c in inner:
            st = self.expr(c, st)
        return st

    def call(self, n, inner, st):
        callee = strip(inner[0]) if inner else {}
        args = inner[1:]
        name = None
        if callee.get("kind") == "DeclRefExpr" and callee.get("referencedDecl", {}).get("kind") == "FunctionDecl":
            name = callee["referencedDecl"]["name"]
        for a in args:
            st = self.expr(a, st)
        if name is None:
            # call through a pointer
            st = self.expr(inner[0], st) if inner else st
            ptr = callee.get("name") or callee.get("referencedDecl", {}).get("name") or "?"
            if ptr not in IGNORED_FNPTR:
                self.emit(st, n, kind="callback", via=ptr)
            return st
        if name == "pthread_mutex_lock" and args:
            L = self.lock_of(args[0])
            self.emit(st, n, kind="lock", lock=L)
            st = st.copy()
            st.may, st.must = st.may | {L}, st.must | {L}
            return st
        if name == "pthread_mutex_unlock" and args:
            L = self.lock_of(args[0])
            self.emit(st, n, kind="unlock", lock=L)
            st = st.copy()
            if L in st.may:
                st.may, st.must = st.may - {L}, st.must - {L}
            else:
                st.relMay, st.relMust = st.relMay | {L}, st.relMust | {L}
            return st
        if name in JOIN_FUNCS:
            self.emit(st, n, kind="join")
            return st
        if name in ("write", "send") and args:
            # MHD_itc_activate_ (itc, ...): write()/send() on a member of struct MHD_itc_
            mems = find_all(args[0], lambda x: x.get("kind") == "MemberExpr" and "MHD_itc_" in
                            ((x.get("inner") or [{}])[0].get("type", {}).get("qualType", "")))
            if mems:
                self.emit(st, n, kind="signal")
            return st
        if name in WAIT_FUNCS:
            self.emit(st, n, kind="wait")
            return st
        if name in NORETURN:
            return St(dead=True)
        if name in self.world.defs:
            self.fn.calls.add(name)
            self.emit(st, n, kind="call", callee=name)
            sm = self.world.summary(name)
            if sm is not None:
                return self.apply_summary(st, sm)
            return st
        return st

    @staticmethod
    def apply_summary(st, sm):
        if sm.noreturn:
            return St(dead=True)
        st = st.copy()
        out_rel_may = sm.relMay - st.may
        out_rel_must = sm.relMust - st.may
        st.must = (st.must - sm.relMay) | sm.exitMust
        st.may = (st.may - sm.relMust) | sm.exitMay
        st.relMay, st.relMust = st.relMay | out_rel_may, st.relMust | out_rel_must
        return st

    def cond_text(self, cond):
        r = cond.get("range") or {}
        b, e = r.get("begin") or {}, r.get("end") or {}
        b2, e2 = exp_offset(b), exp_offset(e)
        if b2 is None or e2 is None or e2 < b2:
            return None
        el = e.get("expansionLoc", e)
        txt = self.world.src[self.fn.file][b2:e2 + el.get("tokLen", 1)]
        return re.sub(r"\s+", "", txt)

    def result_test(self, cond):
        """cond tests the enum MHD_Result of a call to a table function:
        returns (callee, kind of the then-branch, kind of the else-branch) or None"""
        c = strip(cond)
        neg = False
        while c.get("kind") == "UnaryOperator" and c.get("opcode") == "!":
            neg = not neg
            c = strip(c["inner"][0])

        def callee_of(x):
            x = strip(x)
            if x.get("kind") == "CallExpr":
                f = strip(x["inner"][0])
                nm = f.get("referencedDecl", {}).get("name") if f.get("kind") == "DeclRefExpr" else None
                if nm in self.world.defs:
                    return nm
            return None

        def const_of(x):
            x = strip(x)
            if x.get("kind") == "DeclRefExpr" and x.get("referencedDecl", {}).get("name") in ("MHD_NO", "MHD_YES"):
                return x["referencedDecl"]["name"]
            return None
        if c.get("kind") == "CallExpr":
            nm = callee_of(c)
            if nm:
                return (nm, "NO", "nonNO") if neg else (nm, "nonNO", "NO")
        if c.get("kind") == "BinaryOperator" and c.get("opcode") in ("==", "!="):
            a, b = c["inner"]
            for x, y in ((a, b), (b, a)):
                nm, k = callee_of(x), const_of(y)
                if nm and k == "MHD_NO":
                    eq = (c["opcode"] == "==") != neg
                    return (nm, "NO", "nonNO") if eq else (nm, "nonNO", "NO")
        return None

    # -- statements
    def stmt(self, n, st):
        if not isinstance(n, dict) or not n.get("kind"):
            return st
        k = n["kind"]
        inner = n.get("inner") or []
        if k == "CompoundStmt":
            for c in inner:
                st = self.stmt(c, st)
            return st
        if k == "DeclStmt":
            for d in inner:
                if d.get("kind") == "VarDecl":
                    for init in d.get("inner") or []:
                        if isinstance(init, dict) and init.get("kind"):
                            s = self.tpc_sign(init)
                            if s and "const" in d.get("type", {}).get("qualType", ""):
                                self.tpc_vars[d.get("id")] = s
                            st = self.expr(init, st)
            return st
        if k == "IfStmt":
            parts = [c for c in inner]
            # clang: [init?] [condvar?] cond then [else]; MHD uses plain C: cond, then, else?
            cond, then = parts[0], parts[1]
            els = parts[2] if len(parts) > 2 else None
            st0 = st
            st = self.expr(cond, st)
            if st.dead:
                return st
            gt, gf = self.branch_guards(cond)
            st_t, st_f = st.with_guard(gt), st.with_guard(gf)
            if self.nocrc_cond(cond):
                st_t.nocrc = True
            rt = self.result_test(cond)
            if rt is not None:
                sm = self.world.summary(rt[0])
                if sm is not None and sm.by:
                    if rt[1] in sm.by:
                        st_t = self.apply_summary(st0, sm.by[rt[1]]).with_guard(gt)
                    if rt[2] in sm.by:
                        st_f = self.apply_summary(st0, sm.by[rt[2]]).with_guard(gf)
            cc = strip(cond)
            if cc.get("kind") == "IntegerLiteral":           # `if (1)` pseudo-branch
                if cc.get("value") == "0":
                    st_t = St(dead=True)
                else:
                    st_f = St(dead=True)
            a = self.stmt(then, st_t)
            b = self.stmt(els, st_f) if els is not None else st_f
            live = [x for x in (a, b) if not x.dead]
            r = join([a, b])
            if els is None and not a.dead and not r.dead:
                # guarded lock / guarded unlock with the same condition text
                ct = self.cond_text(cond)
                for L in a.may - st.may:
                    if ct:
                        r.guarded[L] = ct
                for L in st.may - a.may:
                    if ct and st.guarded.get(L) == ct:
                        r.may = r.may - {L}
                        r.guarded.pop(L, None)
                # guarded release of a lock of the *caller* (`if (NULL != response->crc) unlock`): the
                # callers take that lock under the same guard, so on the other branch it is not held
                # either.  Counted as released for the may-side (lock-order edges); the must-side
                # already drops it (rel).  Assumption stated in the trusted base; TSan would report
                # an unlock of an unlocked mutex if the guards did not coincide.
                for L in a.relMust - st.relMust:
                    if L not in st.may:
                        r.relMust = r.relMust | {L}
            r.nocrc = st.nocrc if not r.dead else r.nocrc
            if len(live) == 2:
                r.g = st.g              # both continue: the guard of the enclosing code
            elif len(live) == 1 and live[0].g == "any":
                r.g = st.g
            return r
        if k in ("WhileStmt", "DoStmt", "ForStmt"):
            fr = dict(breaks=[], continues=[], is_switch=False)
            self.loop_stack.append(fr)
            if k == "WhileStmt":
                cond, body = inner[0], inner[1]
                st = self.expr(cond, st)
                gt, gf = self.branch_guards(cond)
                b = self.stmt(body, st.with_guard(gt))
                b2 = join([b] + fr["continues"])
                b2 = self.expr(cond, b2) if not b2.dead else b2
                out = join([st, b2] + fr["breaks"])
            elif k == "DoStmt":
                body, cond = inner[0], inner[1]
                b = self.stmt(body, st)
                b2 = join([b] + fr["continues"])
                b2 = self.expr(cond, b2) if not b2.dead else b2
                out = join([b2] + fr["breaks"])
            else:
                init, _cv, cond, inc, body = (inner + [{}] * 5)[:5]
                st = self.stmt(init, st) if init.get("kind", "").endswith("Stmt") else self.expr(init, st)
                st = self.expr(cond, st)
                b = self.stmt(body, st.copy())
                b2 = join([b] + fr["continues"])
                if not b2.dead:
                    b2 = self.expr(inc, b2)
                    b2 = self.expr(cond, b2)
                out = join([st, b2] + fr["breaks"])
            self.loop_stack.pop()
            out.g = st.g if not out.dead else out.g
            return out
        if k == "SwitchStmt":
            cond, body = inner[0], inner[-1]
            st = self.expr(cond, st)
            fr = dict(breaks=[], continues=None, is_switch=True, entry=st, has_default=False)
            self.loop_stack.append(fr)
            cur = St(dead=True)
            for c in (body.get("inner") or []):
                cur = self.switch_item(c, cur, fr)
            self.loop_stack.pop()
            outs = [cur] + fr["breaks"]
            if not fr["has_default"]:
                outs.append(st)
            return join(outs)
        if k in ("CaseStmt", "DefaultStmt"):
            # label outside of a switch body walk (nested): treat as fall-through join with switch entry
            fr = next((f for f in reversed(self.loop_stack) if f["is_switch"]), None)
            return self.switch_item(n, st, fr) if fr else st
        if k == "BreakStmt":
            if self.loop_stack:
                self.loop_stack[-1]["breaks"].append(st)
            return St(dead=True)
        if k == "ContinueStmt":
            for f in reversed(self.loop_stack):
                if not f["is_switch"]:
                    f["continues"].append(st)
                    break
            return St(dead=True)
        if k == "ReturnStmt":
            for c in inner:
                st = self.expr(c, st)
            if not st.dead:
                rk = "?"
                if inner:
                    rv = strip(inner[0])
                    if rv.get("kind") == "DeclRefExpr":
                        rk = {"MHD_NO": "NO", "MHD_YES": "YES"}.get(rv.get("referencedDecl", {}).get("name"), "?")
                self.returns.append((st, rk))
                self.return_lines.append(self.line(n))
            return St(dead=True)
        if k == "GotoStmt":
            self.gotos.setdefault(n.get("targetLabelDeclId"), []).append(st)
            return St(dead=True)
        if k == "LabelStmt":
            st = join([st] + self.gotos.get(n.get("declId"), []))
            for c in inner:
                st = self.stmt(c, st)
            return st
        if k == "NullStmt":
            return st
        if k == "AttributedStmt":
            for c in inner:
                st = self.stmt(c, st)
            return st
        return self.expr(n, st)

    def switch_item(self, c, cur, fr):
        k = c.get("kind")
        if k in ("CaseStmt", "DefaultStmt"):
            if k == "DefaultStmt":
                fr["has_default"] = True
            cur = join([cur, fr["entry"]])
            sub = (c.get("inner") or [])
            body = sub[-1] if sub else None
            if body is not None:
                if body.get("kind") in ("CaseStmt", "DefaultStmt"):
                    return self.switch_item(body, cur, fr)
                return self.stmt(body, cur)
            return cur
        return self.stmt(c, cur)


class World:
    def __init__(self):
        self.defs = {}           # name -> FnInfo
        self.addr_taken = set()
        self.in_progress = set()
        self.src = {}            # file -> text
        self.nl = {}             # file -> newline offsets

    def line_of(self, file):
        nl = self.nl[file]
        return lambda off: bisect.bisect_right(nl, off) + 1

    def summary(self, name):
        fi = self.defs[name]
        if fi.summary is not None:
            return fi.summary
        if name in self.in_progress:
            return None                 # recursion: neutral
        self.analyse(name)
        return fi.summary

    def analyse(self, name):
        fi = self.defs[name]
        self.in_progress.add(name)
        body = next(c for c in fi.node["inner"] if c.get("kind") == "CompoundStmt")
        lo = exp_offset(fi.node["range"]["begin"]) or 0
        hi = exp_offset(fi.node["range"]["end"]) or 10 ** 12
        w = Walker(fi, self, self.line_of(fi.file), lo, hi)
        fi.line = self.line_of(fi.file)(exp_offset(fi.node.get("loc")) or lo)
        end = w.stmt(body, St())
        rets = w.returns + ([(end, "?")] if not end.dead else [])
        outs = [x for x, _ in rets]

        def mk(states):
            m = Summary()
            j = join(states)
            m.exitMay, m.exitMust = j.may, j.must
            m.relMay, m.relMust = j.relMay, j.relMust
            return m
        sm = Summary()
        if not outs:
            sm.noreturn = True
        else:
            sm = mk(outs)
            if "MHD_Result" in fi.node.get("type", {}).get("qualType", ""):
                no = [x for x, k_ in rets if k_ in ("NO", "?")]
                non = [x for x, k_ in rets if k_ in ("YES", "?")]
                if no and non:
                    sm.by = {"NO": mk(no), "nonNO": mk(non)}
        # exits (return statements / end of the body) reached with a mutex taken by this function possibly still held
        end_line = self.line_of(fi.file)(hi)
        fi.exits_holding = []
        for (x, _k), ln in zip(rets, w.return_lines + [end_line]):
            for L in sorted(x.may, key=LOCKS.index):
                fi.exits_holding.append((L, ln, L in x.must))
        fi.summary = sm
        fi.events = w.events
        fi.lo, fi.hi = lo, hi
        self.in_progress.discard(name)


# ------------------------------------------------------------------------ roles

def doc_comment_before(text, off):
    """the /** ... */ block that ends right before offset `off` (skipping storage/return type lines)"""
    head = text[:off]
    e = head.rfind("*/")
    if e < 0:
        return ""
    between = head[e + 2:]
    if re.search(r"[;{}]", re.sub(r"#[^\n]*", "", between)):
        return ""
    b = head.rfind("/*", 0, e)
    return head[b:e + 2] if b >= 0 else ""


def role_of(doc, body_text, is_api, name):
    rem = " ".join(m.group(1) for m in re.finditer(r"@remark\s+((?:(?!\n\s*\*\s*(?:@|\n|/)).|\n)*)", doc))
    rem = re.sub(r"[\s*]+", " ", rem).lower()
    asserts = re.findall(r"mhd_assert\s*\(((?:[^;]|\n)*?is_current_thread_(?:[^;]|\n)*?)\)\s*;", body_text)
    a = " ".join(asserts)
    a_daemon = "daemon->tid" in a
    a_conn = bool(re.search(r"(?:con|connection|c)->tid", a))
    a_tpc_any = "THREAD_PER_CONN" in a
    if rem:
        if "thread-per-connection mode" in rem and "any thread" in rem:
            return "daemonOrTpcAny", "doc"
        if "any thread" in rem:
            return "anyThread", "doc"
        if "mhd_start_daemon" in rem:
            return "startup", "doc"
        if "daemon" in rem and ("select" in rem or "poll" in rem):
            return "daemonThread", "doc"
        if "connection" in rem and ("recv" in rem or "send" in rem or "thread that process" in rem):
            return "connThread", "doc"
    m = re.search(r"set_current_thread_ID_\s*\(\s*&\s*\(?\s*(\w+)->tid", body_text)
    if m:
        return ("daemonThread" if m.group(1) == "daemon" else "connThread"), "threadmain"
    if name in EXTERNAL_LOOP_API:
        return "daemonThread", "extapi"
    if a:
        if a_tpc_any and a_daemon:
            return "daemonOrTpcAny", "assert"
        if a_daemon:
            return "daemonThread", "assert"
        if a_conn:
            return "connThread", "assert"
    if is_api:
        return "appThread", "api"
    return "unknown", "none"


# ----------------------------------------------------------------------- driver

def load_one(cfile):
    d = ast_json(cfile)
    text = open(cfile, errors="replace").read()
    fns = []
    for x in d.get("inner", []):
        if x.get("kind") != "FunctionDecl" or not any(
                isinstance(i, dict) and i.get("kind") == "CompoundStmt" for i in x.get("inner", [])):
            continue
        loc = x.get("loc", {})
        cand = [loc.get("offset")]
        if "spellingLoc" in loc:
            cand = [loc["spellingLoc"].get("offset"), loc["expansionLoc"].get("offset")]
        nm = x.get("name", "")
        if not any(o is not None and text[o:o + len(nm)] == nm for o in cand):
            continue                     # defined in a header
        fns.append(x)
    return cfile, text, fns


def build(repo=None):
    repo = repo or vlib.REPO
    world = World()
    paths = [os.path.join(repo, "src/microhttpd", f) for f in FILES]
    with ProcessPoolExecutor(max_workers=4) as ex:
        loaded = list(ex.map(load_one, paths))
    for cfile, text, fns in loaded:
        base = os.path.basename(cfile)
        world.src[base] = text
        world.nl[base] = [i for i, ch in enumerate(text) if ch == "\n"]
        for x in fns:
            fi = FnInfo(x["name"], base, x, x.get("storageClass") == "static")
            world.defs[x["name"]] = fi
    for name in sorted(world.defs):
        if world.defs[name].summary is None:
            world.analyse(name)
    # roots: public API, address taken, referenced from other library files
    api_h = open(os.path.join(repo, "src/include/microhttpd.h"), errors="replace").read()
    other_txt = ""
    d = os.path.join(repo, "src/microhttpd")
    for f in sorted(os.listdir(d)):
        if f.endswith(".c") and f not in FILES and not f.startswith("test_"):
            other_txt += open(os.path.join(d, f), errors="replace").read()
    for name, fi in world.defs.items():
        text = world.src[fi.file]
        is_api = (not fi.static) and re.search(r"\b%s\s*\(" % re.escape(name), api_h) is not None
        ext_ref = (not fi.static) and re.search(r"\b%s\b" % re.escape(name), other_txt) is not None
        fi.addr_taken = name in world.addr_taken
        fi.root = bool(is_api or ext_ref or fi.addr_taken)
        doc = doc_comment_before(text, fi.lo)
        fi.role, fi.role_src = role_of(doc, text[fi.lo:fi.hi], is_api, name)
        fi.is_api = is_api
    return world


def relevant(world):
    """functions with own events of interest, closed under callers"""
    keep = {n for n, fi in world.defs.items() if any(e["kind"] not in ("call", "callback") for e in fi.events)}
    changed = True
    while changed:
        changed = False
        for n, fi in world.defs.items():
            if n not in keep and fi.calls & keep:
                keep.add(n)
                changed = True
    return keep


def dedup_events(evs, keep):
    out, last = [], None
    for e in evs:
        if e["kind"] == "call" and e["callee"] not in keep:
            continue
        key = (e["kind"], e["line"], e.get("field"), e.get("write"), e.get("lock"), e.get("callee"), e.get("via"),
               tuple(e["may"]), tuple(e["must"]), tuple(e["rel"]), tuple(e["relm"]), e["g"])
        if e["kind"] in ("acc", "call", "callback") and key == last:
            continue
        out.append(e)
        last = key
    return out


def certificates(world, keep):
    names = sorted(keep, key=lambda n: (FILES.index(world.defs[n].file), world.defs[n].line))
    ev = {n: dedup_events(world.defs[n].events, keep) for n in names}
    ALL = frozenset(LOCKS)
    callers = {n: [] for n in names}
    for n in names:
        for e in ev[n]:
            if e["kind"] == "call":
                callers[e["callee"]].append((n, e))
    # role inheritance from callers (one certificate, checked in Lean)
    for _ in range(len(names)):
        ch = False
        for n in names:
            fi = world.defs[n]
            if fi.role == "unknown" and not fi.root and callers[n]:
                rs = {world.defs[c].role for c, _ in callers[n]}
                if len(rs) == 1 and "unknown" not in rs:
                    fi.role, fi.role_src = rs.pop(), "callers"
                    ch = True
        if not ch:
            break
    eMust = {n: (frozenset() if (world.defs[n].root or not callers[n]) else ALL) for n in names}
    eMay = {n: frozenset() for n in names}
    for _ in range(4 * len(names) + 4):
        ch = False
        for n in names:
            for c, e in callers[n]:
                effMust = (eMust[c] - frozenset(e["rel"])) | frozenset(e["must"])
                effMay = (eMay[c] - frozenset(e["relm"])) | frozenset(e["may"])
                if not world.defs[n].root and callers[n]:
                    nm = eMust[n] & effMust
                    if nm != eMust[n]:
                        eMust[n] = nm; ch = True
                ny = eMay[n] | effMay
                if ny != eMay[n]:
                    eMay[n] = ny; ch = True
        if not ch:
            break
    # entry guard: the thread-per-connection guard common to all call sites (roots: any)
    TOP = "top"                       # not yet constrained
    eG = {n: ("any" if (world.defs[n].root or not callers[n]) else TOP) for n in names}
    for _ in range(4 * len(names) + 4):
        ch = False
        for n in names:
            if world.defs[n].root or not callers[n]:
                continue
            for c, e in callers[n]:
                g = e["g"] if e["g"] != "any" else eG[c]
                if g == TOP:
                    continue
                ng = g if eG[n] == TOP else (eG[n] if eG[n] == g else "any")
                if ng != eG[n]:
                    eG[n] = ng; ch = True
        if not ch:
            break
    for n in names:
        if eG[n] == TOP:
            eG[n] = "any"
    world.entry_guard = eG
    # lock-order edges (as Lean recomputes them) -> rank certificate
    edges = set()
    for n in names:
        for e in ev[n]:
            if e["kind"] == "lock":
                for h in (eMay[n] - frozenset(e["relm"])) | frozenset(e["may"]):
                    edges.add((h, e["lock"]))
    acq = None
    rank = {}
    remaining = set(LOCKS)
    lvl = 0
    while remaining:
        free = [l for l in LOCKS if l in remaining and not any(a in remaining and b == l and a != b for a, b in edges)]
        if not free:                     # cycle: no valid numbering exists; emit something, Lean will reject
            for l in sorted(remaining, key=LOCKS.index):
                rank[l] = lvl
            break
        for l in free:
            rank[l] = lvl
            remaining.discard(l)
        lvl += 1
    return names, ev, eMust, eMay, acq, edges, rank


RESUME_FN = "resume_suspended_connections"


def _mentions(n, ids):
    return bool(find_all(n, lambda x: x.get("kind") == "DeclRefExpr" and x.get("referencedDecl", {}).get("id") in ids))


def _assigned_vars(n):
    out = set()
    for b in find_all(n, lambda x: x.get("kind") in ("BinaryOperator", "CompoundAssignOperator") and
                      (x.get("kind") == "CompoundAssignOperator" or x.get("opcode") == "=")):
        lhs = strip(b["inner"][0])
        while lhs.get("kind") in ("MemberExpr", "ArraySubscriptExpr", "UnaryOperator") and lhs.get("inner"):
            lhs = strip(lhs["inner"][0])
        if lhs.get("kind") == "DeclRefExpr":
            out.add(lhs.get("referencedDecl", {}).get("id"))
    for v in find_all(n, lambda x: x.get("kind") == "VarDecl" and x.get("inner")):
        out.add(v.get("id"))
    return out


def resume_wait_sites(world, keep):
    """For every call of resume_suspended_connections() in a function that afterwards blocks in
    select/poll/epoll_wait: does the *result* of the call force the timeout of that wait to zero?
    Data flow, kept cheap: the call sits in an `if` condition whose then-branch assigns 0 to a
    variable; taint flows through assignments whose right side mentions a tainted variable and
    through control dependence (variables assigned inside an `if` whose condition mentions a
    tainted variable); the site `feeds` if a tainted variable reaches an argument of the wait."""
    sites = []
    for name in sorted(keep, key=lambda n: (FILES.index(world.defs[n].file), world.defs[n].line)):
        fi = world.defs[name]
        if not any(e["kind"] == "wait" for e in fi.events):
            continue
        body = next(c for c in fi.node["inner"] if c.get("kind") == "CompoundStmt")
        is_call = lambda x: x.get("kind") == "CallExpr" and strip(x["inner"][0]).get("referencedDecl", {}).get("name") == RESUME_FN
        calls = find_all(body, is_call)
        if not calls:
            continue
        line_of = world.line_of(fi.file)
        ifs = find_all(body, lambda x: x.get("kind") == "IfStmt")
        for c in calls:
            off = exp_offset(c.get("range", {}).get("begin")) or 0
            host = [i for i in ifs if find_all(i["inner"][0], lambda x: x is c)]
            feeds = False
            if host:
                h = host[-1]                      # innermost if whose condition contains the call
                zero = set()
                for b in find_all(h["inner"][1], lambda x: x.get("kind") == "BinaryOperator" and x.get("opcode") == "="):
                    lhs, rhs = strip(b["inner"][0]), strip(b["inner"][1])
                    if lhs.get("kind") == "DeclRefExpr" and rhs.get("kind") == "IntegerLiteral" and rhs.get("value") == "0":
                        zero.add(lhs["referencedDecl"]["id"])
                taint = set(zero)
                hend = exp_offset(h.get("range", {}).get("end")) or 0

                def walk(n):
                    nonlocal feeds
                    if not isinstance(n, dict):
                        return
                    k = n.get("kind")
                    o = exp_offset((n.get("range") or {}).get("begin"))
                    if k == "IfStmt" and n is not h and o is not None and o > hend and _mentions(n["inner"][0], taint):
                        taint.update(_assigned_vars(n))
                    if k in ("BinaryOperator", "CompoundAssignOperator") and (k == "CompoundAssignOperator" or n.get("opcode") == "=") \
                            and o is not None and o > hend and _mentions(n["inner"][1], taint):
                        taint.update(_assigned_vars(n))
                    if k == "VarDecl" and o is not None and o > hend and any(isinstance(i, dict) and _mentions(i, taint) for i in n.get("inner") or []):
                        taint.add(n.get("id"))
                    if k == "CallExpr" and o is not None and o > hend:
                        f = strip(n["inner"][0])
                        if f.get("referencedDecl", {}).get("name") in WAIT_FUNCS and any(_mentions(a, taint) for a in n["inner"][1:]):
                            feeds = True
                    for ch in n.get("inner") or []:
                        walk(ch)
                if zero:
                    walk(body)
            sites.append((name, line_of(off), world.entry_guard.get(name, "any") == "tpcOnly", feeds))
    return sites


# ------------------------------------------------------------------ list cursors across unlock windows

LIST_FIELDS = ("conn_list", "susp_list", "cleanup_list", "new_list", "tmo_list", "eready_list")
LINK_FIELDS = ("conn_links", "tmo_links", "eready_links")
CURSOR_KINDS = ["rereadHead", "freshLinkOfCarriedNode", "carriedValue"]
_RANK = {"fresh": 0, "node": 1, "stale": 2}


def _callee_name(n):
    if n.get("kind") != "CallExpr" or not n.get("inner"):
        return None
    f = strip(n["inner"][0])
    return f.get("referencedDecl", {}).get("name") if f.get("kind") == "DeclRefExpr" else None


def _member_field(n):
    """(Field, base expression) of a MemberExpr on a struct of the shared set, else (None, None)"""
    if n.get("kind") != "MemberExpr" or not n.get("inner"):
        return None, None
    base = n["inner"][0]
    return FIELD_MAP.get((struct_tag(base.get("type", {}).get("qualType")), n.get("name"))), base


class CursorWalk:
    """One iteration of a loop whose body releases and re-takes mutex `L` (an *unlock window*).
    Pointer locals are tracked by where their value was read:
      fresh  from a list head/tail (or from a link of a fresh node) while L is held, no window since;
      stale  before the window (or inside it): the very value is carried across unlock ... lock;
      node   after the re-lock, through a link (`->prev`/`->next`) of a pointer that is itself stale.
    The statuses are joined over the structured paths of the body that pass through the window."""

    def __init__(self, L):
        self.L = L
        self.continues = []

    @staticmethod
    def merge(states):
        states = [s for s in states if s is not None]
        if not states:
            return None
        out = {"vars": {}, "locked": all(s["locked"] for s in states), "crossed": any(s["crossed"] for s in states)}
        for s in states:
            for k_, v_ in s["vars"].items():
                if k_ not in out["vars"] or _RANK[v_] > _RANK[out["vars"][k_]]:
                    out["vars"][k_] = v_
        return out

    @staticmethod
    def cp(s):
        return {"vars": dict(s["vars"]), "locked": s["locked"], "crossed": s["crossed"]}

    def value(self, e, s):
        """status of the pointer value of expression `e` (None: not list-derived)"""
        e = strip(e)
        k = e.get("kind")
        if k == "DeclRefExpr":
            return s["vars"].get(e.get("referencedDecl", {}).get("id"))
        if k == "MemberExpr":
            fld, base = _member_field(e)
            if fld in LIST_FIELDS:
                return "fresh" if s["locked"] else "stale"
            if fld in LINK_FIELDS:
                if not s["locked"]:
                    return "stale"
                b = self.value(base, s)
                return "fresh" if b in (None, "fresh") else "node"
            return None
        if k == "BinaryOperator" and e.get("opcode") == "=":
            return self.value(e["inner"][1], s)
        if k == "ConditionalOperator" and len(e.get("inner", [])) == 3:
            a, b = self.value(e["inner"][1], s), self.value(e["inner"][2], s)
            cand = [x for x in (a, b) if x is not None]
            return max(cand, key=_RANK.get) if cand else None
        return None

    def expr(self, n, s):
        if not isinstance(n, dict) or not n.get("kind") or s is None:
            return s
        k = n["kind"]
        inner = [c for c in (n.get("inner") or []) if isinstance(c, dict)]
        if k == "CallExpr":
            nm = _callee_name(n)
            for a in inner[1:]:
                s = self.expr(a, s)
            if nm in ("pthread_mutex_lock", "pthread_mutex_unlock") and len(inner) > 1 and \
                    Walker.lock_of(None, inner[1]) == self.L:
                s = self.cp(s)
                if nm == "pthread_mutex_unlock":
                    s["locked"], s["crossed"] = False, True
                    s["vars"] = {k_: "stale" for k_ in s["vars"]}
                else:
                    s["locked"] = True
            if nm in NORETURN:
                return None
            return s
        if k == "BinaryOperator" and n.get("opcode") == "=" and len(inner) == 2:
            s = self.expr(inner[1], s)
            lhs = strip(inner[0])
            if s is not None and lhs.get("kind") == "DeclRefExpr" and "*" in lhs.get("type", {}).get("qualType", ""):
                v = self.value(inner[1], s)
                s = self.cp(s)
                vid = lhs.get("referencedDecl", {}).get("id")
                if v is None:
                    s["vars"].pop(vid, None)
                else:
                    s["vars"][vid] = v
                return s
            return self.expr(inner[0], s)
        if k == "StmtExpr" and inner:
            return self.stmt(inner[0], s)
        for c in inner:
            s = self.expr(c, s)
        return s

    def stmt(self, n, s):
        if not isinstance(n, dict) or not n.get("kind") or s is None:
            return s
        k = n["kind"]
        inner = [c for c in (n.get("inner") or []) if isinstance(c, dict)]
        if k == "CompoundStmt":
            for c in inner:
                s = self.stmt(c, s)
            return s
        if k == "DeclStmt":
            for d in inner:
                if d.get("kind") == "VarDecl":
                    for init in d.get("inner") or []:
                        if isinstance(init, dict) and init.get("kind") and s is not None:
                            s = self.expr(init, s)
                            v = self.value(init, s) if "*" in d.get("type", {}).get("qualType", "") else None
                            if v is not None:
                                s = self.cp(s)
                                s["vars"][d.get("id")] = v
            return s
        if k == "IfStmt":
            s = self.expr(inner[0], s)
            if s is None:
                return None
            c = strip(inner[0])
            a = self.stmt(inner[1], self.cp(s)) if not (c.get("kind") == "IntegerLiteral" and c.get("value") == "0") else None
            b = self.stmt(inner[2], self.cp(s)) if len(inner) > 2 else self.cp(s)
            if c.get("kind") == "IntegerLiteral" and c.get("value") != "0":
                b = None
            return self.merge([a, b])
        if k == "DoStmt":
            s = self.stmt(inner[0], s)                   # `do { ... } while (0)` macro bodies; inner loops: one pass
            return self.expr(inner[1], s)
        if k == "WhileStmt":
            s = self.expr(inner[0], s)
            return self.merge([s, self.stmt(inner[1], self.cp(s)) if s is not None else None])
        if k == "ForStmt":
            return self.merge([s, self.stmt(inner[-1], self.cp(s))])
        if k == "ContinueStmt":
            self.continues.append(s)
            return None
        if k in ("BreakStmt", "ReturnStmt", "GotoStmt"):
            return None
        if k in ("LabelStmt", "AttributedStmt", "CaseStmt", "DefaultStmt", "SwitchStmt"):
            for c in inner:
                s = self.stmt(c, s) if c.get("kind", "").endswith("Stmt") else self.expr(c, s)
            return s
        return self.expr(n, s)


def loop_cursors(world):
    """Every loop (of any function of the four files) whose body contains an unlock ... lock window of a
    mutex and whose condition tests a pointer that walks one of the daemon's lists:
      (function, line, mutex, list, cursor kind).
    rereadHead: after the window the cursor is read again from the list head/tail under the mutex;
    freshLinkOfCarriedNode: the cursor is read under the mutex from a link of a node pointer carried across;
    carriedValue: the cursor is a value that was read before the unlock."""
    out = []
    is_loop = lambda n: n.get("kind") in ("WhileStmt", "ForStmt", "DoStmt")
    for name in sorted(world.defs, key=lambda n: (FILES.index(world.defs[n].file), world.defs[n].line)):
        fi = world.defs[name]
        body = next(c for c in fi.node["inner"] if c.get("kind") == "CompoundStmt")
        line_of = world.line_of(fi.file)
        assigns = find_all(body, lambda x: x.get("kind") == "BinaryOperator" and x.get("opcode") == "=")
        for lp in find_all(body, is_loop):
            inner = [c if isinstance(c, dict) else {} for c in (lp.get("inner") or [])]
            if lp["kind"] == "DoStmt":
                lbody, cond, init, inc = inner[0], inner[1], None, None
                if strip(cond).get("kind") == "IntegerLiteral":
                    continue                                     # do { } while (0) macro
            elif lp["kind"] == "WhileStmt":
                cond, lbody, init, inc = inner[0], inner[1], None, None
            else:
                init, _cv, cond, inc, lbody = (inner + [{}] * 5)[:5]
            calls = find_all(lbody, lambda x: _callee_name(x) in ("pthread_mutex_lock", "pthread_mutex_unlock"))
            locks = {}
            for c in calls:
                locks.setdefault(Walker.lock_of(None, c["inner"][1]), set()).add(_callee_name(c))
            for L in LOCKS:
                if locks.get(L) != {"pthread_mutex_lock", "pthread_mutex_unlock"}:
                    continue
                cw = CursorWalk(L)
                s = {"vars": {}, "locked": True, "crossed": False}
                if init and init.get("kind"):
                    s = cw.stmt(init, s) if init["kind"].endswith("Stmt") else cw.expr(init, s)
                if lp["kind"] != "DoStmt":
                    s = cw.expr(cond, s)
                # cursor candidates: pointer locals tested by the condition
                cvars = {d.get("referencedDecl", {}).get("id"): d.get("referencedDecl", {}).get("name")
                         for d in find_all(cond, lambda x: x.get("kind") == "DeclRefExpr" and
                                           x.get("referencedDecl", {}).get("kind") == "VarDecl" and
                                           "*" in x.get("type", {}).get("qualType", ""))}
                for vid in cvars:                                 # entering the loop: the cursor is a list position
                    s["vars"].setdefault(vid, "fresh")
                end = cw.stmt(lbody, s)
                paths = [x for x in [end] + cw.continues if x is not None and x["crossed"]]
                if not paths:
                    continue
                m = cw.merge(paths)
                if inc and inc.get("kind"):
                    m = cw.expr(inc, m)
                m = cw.expr(cond, m)
                st = [m["vars"][v] for v in cvars if v in m["vars"]]
                if not st:
                    continue
                worst = max(st, key=_RANK.get)
                kind = {"fresh": "rereadHead", "node": "freshLinkOfCarriedNode", "stale": "carriedValue"}[worst]
                # which list: head/tail members assigned to a cursor variable in the loop, else the last such
                # assignment before the loop
                lo = exp_offset(lp["range"]["begin"]) or 0
                hi = exp_offset(lp["range"]["end"]) or 0
                lists_in, lists_before = [], []
                for a in assigns:
                    lhs = strip(a["inner"][0])
                    if lhs.get("kind") != "DeclRefExpr" or lhs.get("referencedDecl", {}).get("id") not in cvars:
                        continue
                    fld, _b = _member_field(strip(a["inner"][1]))
                    if fld in LIST_FIELDS:
                        off = exp_offset(a["range"]["begin"]) or 0
                        (lists_in if lo <= off <= hi else lists_before).append((off, fld))
                lists_before = [x for x in lists_before if x[0] < lo]
                lst = (sorted(lists_in)[0][1] if lists_in else (sorted(lists_before)[-1][1] if lists_before else None))
                if lst is None:
                    continue
                out.append((name, line_of(lo), L, lst, kind))
    return out


def lean_list(xs, f=str):
    return "[" + ", ".join(f(x) for x in xs) + "]"


def lk(l):
    return "." + l


def render(world):
    keep = relevant(world)
    names, ev, eMust, eMay, acq, edges, rank = certificates(world, keep)
    idx = {n: i for i, n in enumerate(names)}
    o = []
    o.append("-- GENERATED by tools/locktable.py from src/microhttpd/{%s} — do not edit" % ",".join(FILES))
    o.append("namespace Mhd.Gen.Locks")
    o.append("")
    o.append("inductive Lock where\n  | " + " | ".join(LOCKS) + "\n  deriving DecidableEq, Repr")
    o.append("inductive Field where\n  | " + " | ".join(FIELDS) + "\n  deriving DecidableEq, Repr")
    o.append("inductive Role where\n  | " + " | ".join(ROLES) + "\n  deriving DecidableEq, Repr")
    o.append("inductive RoleSrc where\n  | " + " | ".join("s_" + r for r in ROLE_SRC) + "\n  deriving DecidableEq, Repr")
    o.append("inductive Guard where\n  | " + " | ".join(GUARDS) + "\n  deriving DecidableEq, Repr")
    o.append("""inductive Kind where
  | lock (l : Lock) | unlock (l : Lock) | acc (f : Field) (write : Bool)
  | call (callee : Nat) | callback | join | wait | signal
  deriving DecidableEq, Repr
/-- one event of a function body; `may`/`must`/`rel`/`relm` are relative to the function entry -/
structure Ev where
  kind : Kind
  line : Nat
  may : List Lock
  must : List Lock
  rel : List Lock
  relm : List Lock
  g : Guard
  deriving DecidableEq, Repr
structure Entry where
  id : Nat
  name : String
  file : String
  line : Nat
  role : Role
  roleSrc : RoleSrc
  root : Bool
  entryMust : List Lock
  entryMay : List Lock
  entryG : Guard
  events : List Ev
  deriving DecidableEq, Repr
""")
    o.append("open Lock Field Role RoleSrc Guard Kind in")
    o.append("def table : List Entry := [")
    ents = []
    for n in names:
        fi = world.defs[n]
        es = []
        for e in ev[n]:
            k = e["kind"]
            if k in ("lock", "unlock"):
                ks = "(.%s .%s)" % (k, e["lock"])
            elif k == "acc":
                ks = "(.acc .%s %s)" % (e["field"], "true" if e["write"] else "false")
            elif k == "call":
                ks = "(.call %d)" % idx[e["callee"]]
            else:
                ks = "." + k
            es.append("    ⟨%s, %d, %s, %s, %s, %s, .%s⟩" % (ks, e["line"], lean_list(e["may"], lk), lean_list(e["must"], lk),
                                                            lean_list(e["rel"], lk), lean_list(e["relm"], lk), e["g"]))
        srt = lambda s: sorted(s, key=LOCKS.index)
        ents.append("  ⟨%d, \"%s\", \"%s\", %d, .%s, .s_%s, %s, %s, %s, .%s, [\n%s]⟩" % (
            idx[n], n, fi.file, fi.line, fi.role, fi.role_src, "true" if fi.root else "false",
            lean_list(srt(eMust[n]), lk), lean_list(srt(eMay[n]), lk), world.entry_guard[n], ",\n".join(es)))
    o.append(",\n".join(ents))
    o.append("]")
    o.append("")
    sites = resume_wait_sites(world, keep)
    o.append("/-- calls of resume_suspended_connections() from functions that afterwards block in select / poll /")
    o.append("    epoll_wait: (function, line, function runs only in thread-per-connection mode, the result of the")
    o.append("    call forces the timeout of that wait to zero — by data/control flow in the AST) -/")
    o.append("def resumeWaitSites : List (String × Nat × Bool × Bool) := [")
    o.append(",\n".join('  ("%s", %d, %s, %s)' % (a, b, "true" if c else "false", "true" if d else "false") for a, b, c, d in sites))
    o.append("]")
    o.append("")
    order = sorted(world.defs, key=lambda n: (FILES.index(world.defs[n].file), world.defs[n].line))
    exits = [(n, L, ln, must) for n in order for (L, ln, must) in world.defs[n].exits_holding]
    # lock wrapper: the whole body is the lock call (no other event), every exit holds the lock
    wrappers = []
    for n in order:
        fi = world.defs[n]
        evs = fi.events
        if evs and all(e["kind"] == "lock" for e in evs) and len({e["lock"] for e in evs}) == 1 and fi.exits_holding \
                and all(must and L == evs[0]["lock"] for (L, _ln, must) in fi.exits_holding):
            wrappers.append((n, evs[0]["lock"]))
    o.append("/-- exits (return statement, or the end of the body) of a function of the four files that are reached with a")
    o.append("    mutex *taken by this function or one of its callees* possibly still held — structured control flow of the")
    o.append("    clang AST (early returns, break/continue/goto out of the locked region, callee summaries):")
    o.append("    (function, mutex, line of the exit, held on every path to that exit) -/")
    o.append("def exitsHoldingLock : List (String × Lock × Nat × Bool) := [")
    o.append(",\n".join('  ("%s", .%s, %d, %s)' % (n, L, ln, "true" if m else "false") for n, L, ln, m in exits))
    o.append("]")
    o.append("/-- lock wrappers: functions whose whole body is the one lock call (contract: return with the mutex held) -/")
    o.append("def lockWrappers : List (String × Lock) := [")
    o.append(",\n".join('  ("%s", .%s)' % x for x in wrappers))
    o.append("]")
    o.append("")
    world.exits_holding = exits
    world.lock_wrappers = wrappers
    loops = loop_cursors(world)
    o.append("/-- how a loop finds its next list position after it has released and re-taken a mutex in its body -/")
    o.append("inductive CursorKind where\n  | " + " | ".join(CURSOR_KINDS) + "\n  deriving DecidableEq, Repr")
    o.append("/-- every loop whose body contains an unlock … lock window of a mutex and whose condition tests a pointer that")
    o.append("    walks one of the daemon's lists: (function, line, mutex, list walked, cursor after the window — by data flow")
    o.append("    over the structured paths of the loop body in the AST).  `rereadHead`: read again from the list head/tail")
    o.append("    under the mutex; `freshLinkOfCarriedNode`: read under the mutex from a link of a node pointer that was")
    o.append("    carried across the window; `carriedValue`: a value read before the unlock -/")
    o.append("def unlockLoops : List (String × Nat × Lock × Field × CursorKind) := [")
    o.append(",\n".join('  ("%s", %d, .%s, .%s, .%s)' % x for x in loops))
    o.append("]")
    o.append("")
    o.append("/-- certificate: a numbering of the locks that every lock-order edge of `table` must respect -/")
    o.append("def lockRank : Lock → Nat")
    for l in LOCKS:
        o.append("  | .%s => %d" % (l, rank[l]))
    o.append("")
    o.append("end Mhd.Gen.Locks")
    world.resume_sites = sites
    world.unlock_loops = loops
    info = dict(exits_holding_lock=["%s %s line %d must=%s" % x for x in exits], lock_wrappers=["%s %s" % x for x in wrappers], unlock_loops=["%s:%d %s %s %s" % x for x in loops], resume_wait_sites=["%s:%d tpcOnly=%s feeds=%s" % x for x in sites], functions=len(names), events=sum(len(ev[n]) for n in names),
                edges=sorted("%s->%s" % e for e in edges), rank=rank)
    return "\n".join(o) + "\n", info, (names, ev, eMust, eMay, acq)


def generate(repo=None, out=None):
    world = build(repo)
    text, info, data = render(world)
    out = out or os.path.join(vlib.LEAN, "Mhd", "Gen", "Locks.lean")
    changed = vlib.write_if_changed(out, text)
    info["changed"] = changed
    return world, info, data


if __name__ == "__main__":
    out = sys.argv[1] if len(sys.argv) > 1 else None
    w, info, data = generate(out=out)
    print(json.dumps(info, indent=1))
