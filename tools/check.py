#!/usr/bin/env python3
"""Entry point of every MANIFEST command:  check.py <Cxx> [--tier quick|thorough] [--replay FILE]"""
import argparse, importlib, os, sys

sys.path.insert(0, os.path.dirname(os.path.abspath(__file__)))
import vlib


def main():
    ap = argparse.ArgumentParser()
    ap.add_argument("pid")
    ap.add_argument("--tier", default=os.environ.get("VERIF_TIER", "quick"))
    ap.add_argument("--replay")
    a = ap.parse_args()
    tier = a.tier if a.tier in ("quick", "thorough") else "quick"
    seed = int(os.environ.get("VERIF_SEED", "1") or "1")
    mod = importlib.import_module("props." + a.pid)
    ctx = vlib.Ctx(a.pid, tier, seed)
    vlib.sync_alt_lean()  # scratch-worktree runs work on a private copy of the Lean project
    if a.replay:
        sys.exit(mod.replay(ctx, a.replay))
    sys.exit(vlib.standard_flow(ctx, mod.Spec()))


if __name__ == "__main__":
    main()
