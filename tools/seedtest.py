#!/usr/bin/env python3
"""Run the registered checks against the seeded breaking changes in /verif/seeded/<id>/.

For each seed: scratch worktree of /repo HEAD (outside /repo and /verif), apply patch.diff,
run the quick check of the property it breaks (and of any property listed under "also") with
VERIF_REPO pointing at the worktree, record whether a VIOLATION line was printed, remove
the worktree.  /repo itself is never modified.  Results: seeded/results.json

usage: seedtest.py [seed-id ...] [--tier=thorough] [--jobs N]
"""
import json, os, re, subprocess, sys, time

VERIF = os.path.dirname(os.path.dirname(os.path.abspath(__file__)))
SEEDED = os.path.join(VERIF, "seeded")


def sh(cmd, **kw):
    return subprocess.run(cmd, stdout=subprocess.PIPE, stderr=subprocess.STDOUT, text=True, **kw)


def run_seed(sid, tier):
    import hashlib, shutil
    d = os.path.join(SEEDED, sid)
    meta = json.load(open(os.path.join(d, "meta.json")))
    props = [meta["property"]] + list(meta.get("also", []))
    wt = "/tmp/seedrun_%s_%d" % (sid, os.getpid())
    r = sh(["git", "-C", "/repo", "worktree", "add", "-q", "--detach", wt, "HEAD"])
    if r.returncode != 0:
        print(sid, "worktree failed", r.stdout)
        return None
    try:
        r = sh(["git", "-C", wt, "apply", os.path.join(d, "patch.diff")])
        if r.returncode != 0:
            print(sid, "PATCH DOES NOT APPLY")
            return {"error": "patch does not apply to current /repo HEAD: " + r.stdout[-300:]}
        res = {}
        for p in props:
            t = time.time()
            env = dict(os.environ, VERIF_REPO=wt, VERIF_TIER=tier)
            r = sh(["python3", os.path.join(VERIF, "tools/check.py"), p, "--tier", tier], cwd=VERIF, env=env)
            viol = [l for l in r.stdout.splitlines() if l.startswith("VIOLATION")]
            res[p] = {"rc": r.returncode, "violations": viol[:3], "wall_s": round(time.time() - t, 1),
                      "concrete": any("no-failing-input-found" not in v for v in viol)}
            if r.returncode != 0 and not viol:
                res[p]["tail"] = r.stdout[-600:]
            print("%-12s %s rc=%d %s" % (sid, p, r.returncode, "CAUGHT" if viol else "missed"), flush=True)
        return {"what": meta.get("what"), "needs": meta.get("needs"), "checks": res, "tier": tier,
                "repo_head": sh(["git", "-C", "/repo", "rev-parse", "--short", "HEAD"]).stdout.strip()}
    finally:
        sh(["git", "-C", "/repo", "worktree", "remove", "--force", wt])
        # the private Lean copy and the harness binaries of this scratch tree are no longer needed (replays stay)
        alt = os.path.join(VERIF, "build", "alt_" + hashlib.sha1(wt.encode()).hexdigest()[:8])
        for sub in os.listdir(alt) if os.path.isdir(alt) else []:
            if sub != "replay":
                pth = os.path.join(alt, sub)
                shutil.rmtree(pth, ignore_errors=True) if os.path.isdir(pth) else os.remove(pth)


def main():
    from concurrent.futures import ThreadPoolExecutor
    import threading
    argv = sys.argv[1:]
    jobs = 1
    if "--jobs" in argv:
        i = argv.index("--jobs"); jobs = int(argv[i + 1]); del argv[i:i + 2]
    args = [a for a in argv if not a.startswith("--") and a != "thorough"]
    tier = "thorough" if "--tier=thorough" in argv or "thorough" in argv else "quick"
    ids = args or sorted(d for d in os.listdir(SEEDED) if os.path.isdir(os.path.join(SEEDED, d)) and d != "harmless")
    lock = threading.Lock()

    def one(sid):
        r = run_seed(sid, tier)
        if r is None:
            return
        with lock:  # results.json is rewritten after every seed, so an interrupted run loses nothing
            try:
                results = json.load(open(os.path.join(SEEDED, "results.json")))
            except OSError:
                results = {}
            results[sid] = r
            json.dump(results, open(os.path.join(SEEDED, "results.json"), "w"), indent=1, sort_keys=True)
    with ThreadPoolExecutor(jobs) as ex:
        list(ex.map(one, ids))
    # (scratch-tree runs work on a private copy of the Lean project: the real tree's Gen files are untouched)


if __name__ == "__main__":
    main()
