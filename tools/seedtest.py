#!/usr/bin/env python3
"""Run the registered checks against the seeded breaking changes in /verif/seeded/<id>/.

For each seed: scratch worktree of /repo HEAD (outside /repo and /verif), apply patch.diff,
run the quick check of the property it breaks (and of any property listed under "also") with
VERIF_REPO pointing at the worktree, record whether a VIOLATION line was printed, remove
the worktree.  /repo itself is never modified.  Results: seeded/results.json

usage: seedtest.py [seed-id ...] [--tier quick|thorough]
"""
import json, os, re, subprocess, sys, time

VERIF = os.path.dirname(os.path.dirname(os.path.abspath(__file__)))
SEEDED = os.path.join(VERIF, "seeded")


def sh(cmd, **kw):
    return subprocess.run(cmd, stdout=subprocess.PIPE, stderr=subprocess.STDOUT, text=True, **kw)


def main():
    args = [a for a in sys.argv[1:] if not a.startswith("--")]
    tier = "thorough" if "--tier=thorough" in sys.argv or "thorough" in sys.argv[1:] else "quick"
    ids = args or sorted(d for d in os.listdir(SEEDED) if os.path.isdir(os.path.join(SEEDED, d)))
    try:
        results = json.load(open(os.path.join(SEEDED, "results.json")))
    except OSError:
        results = {}
    for sid in ids:
        d = os.path.join(SEEDED, sid)
        meta = json.load(open(os.path.join(d, "meta.json")))
        props = [meta["property"]] + list(meta.get("also", []))
        wt = "/tmp/seedrun_%s_%d" % (sid, os.getpid())
        r = sh(["git", "-C", "/repo", "worktree", "add", "-q", "--detach", wt, "HEAD"])
        if r.returncode != 0:
            print(sid, "worktree failed", r.stdout); continue
        try:
            r = sh(["git", "-C", wt, "apply", os.path.join(d, "patch.diff")])
            if r.returncode != 0:
                results[sid] = {"error": "patch does not apply to current /repo HEAD: " + r.stdout[-300:]}
                print(sid, "PATCH DOES NOT APPLY"); continue
            res = {}
            for p in props:
                t = time.time()
                env = dict(os.environ, VERIF_REPO=wt, VERIF_TIER=tier)
                r = sh(["python3", os.path.join(VERIF, "tools/check.py"), p, "--tier", tier], cwd=VERIF, env=env)
                viol = [l for l in r.stdout.splitlines() if l.startswith("VIOLATION")]
                res[p] = {"rc": r.returncode, "violations": viol[:3], "wall_s": round(time.time() - t, 1),
                          "concrete": any("no-failing-input-found" not in v for v in viol)}
                print("%-12s %s rc=%d %s" % (sid, p, r.returncode, "CAUGHT" if viol else "missed"), flush=True)
            results[sid] = {"what": meta.get("what"), "needs": meta.get("needs"), "checks": res, "tier": tier,
                            "repo_head": sh(["git", "-C", "/repo", "rev-parse", "--short", "HEAD"]).stdout.strip()}
        finally:
            sh(["git", "-C", "/repo", "worktree", "remove", "--force", wt])
    json.dump(results, open(os.path.join(SEEDED, "results.json"), "w"), indent=1, sort_keys=True)
    # restore Gen files for the real tree (a seed may have changed a constant)
    sh(["python3", os.path.join(VERIF, "tools/setup.py")], cwd=VERIF)


if __name__ == "__main__":
    main()
