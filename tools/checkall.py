#!/usr/bin/env python3
"""Run the quick (or thorough) command of every claimed check, N at a time; print a summary.
usage: checkall.py [--tier thorough] [--jobs N] [--seed S] [Cxx ...]"""
import json, os, subprocess, sys, time
from concurrent.futures import ThreadPoolExecutor
VERIF = os.path.dirname(os.path.dirname(os.path.abspath(__file__)))

def main():
    a = sys.argv[1:]
    tier = "thorough" if "--tier" in a and a[a.index("--tier") + 1] == "thorough" else "quick"
    jobs = int(a[a.index("--jobs") + 1]) if "--jobs" in a else 4
    seed = a[a.index("--seed") + 1] if "--seed" in a else os.environ.get("VERIF_SEED", "1")
    only = [x for x in a if x.startswith("C") and x[1:].isdigit()]
    man = json.load(open(os.path.join(VERIF, "MANIFEST.json")))
    checks = [c for c in man["checks"] if not only or c["property_id"] in only]
    def run(c):
        t = time.time()
        cmd = c["thorough_cmd"] if tier == "thorough" else c["quick_cmd"]
        r = subprocess.run(cmd, shell=True, cwd=VERIF, env=dict(os.environ, VERIF_SEED=seed, VERIF_TIER=tier),
                           stdout=subprocess.PIPE, stderr=subprocess.STDOUT, text=True)
        lines = [l for l in r.stdout.splitlines() if l.startswith(("VIOLATION", "KNOWN-FINDING"))]
        return c["property_id"], r.returncode, round(time.time() - t, 1), lines, r.stdout[-1500:]
    bad = 0
    with ThreadPoolExecutor(jobs) as ex:
        for pid, rc, dt, lines, tail in ex.map(run, checks):
            print("%s rc=%d %6.1fs %s" % (pid, rc, dt, " | ".join(lines)[:300]), flush=True)
            if rc != 0:
                bad += 1
                print("   " + tail.replace("\n", "\n   ")[-1200:])
    sys.exit(1 if bad else 0)

if __name__ == "__main__":
    main()
