"""C05 — handler call protocol and exactly-once completion notification.
Engine `sm`: harness/h_sm.c (real daemon, scripted) vs lean/Driver/SM.lean (connection state-machine model)."""
import json, os, re
import vlib, extract

# --------------------------------------------------------------------------
# (A) translator: enum MHD_CONNECTION_STATE order, MHD_RequestTerminationCode values and the
#     presence of the four repairs the theorems depend on  ->  Mhd/Gen/ConnState.lean


def _camel(name, prefix):
    parts = name[len(prefix):].lower().split("_")
    return parts[0] + "".join(p.capitalize() for p in parts[1:])


def _func_body(text, name):
    """source text of the body of function `name` (brace matched), or None"""
    m = re.search(r"^%s\s*\(" % re.escape(name), text, re.M)
    if not m:
        return None
    i = text.find("{", m.end())
    if i < 0:
        return None
    depth, j = 0, i
    while j < len(text):
        if text[j] == "{":
            depth += 1
        elif text[j] == "}":
            depth -= 1
            if depth == 0:
                return text[i:j + 1]
        j += 1
    return None


def _strip_c_comments(s):
    return re.sub(r"/\*.*?\*/", " ", s, flags=re.S)


def detect_fixes(notes=None):
    """syntactic probes of connection.c for the repairs (each falls back to the last generated
    value when the function cannot be located; the correspondence run then decides)"""
    conn = extract.src("src/microhttpd/connection.c")
    out = {}

    def prev(name):
        return extract.prev_value("ConnState.lean", name, "false") == "true"

    # F9: `return` after the first error response in handle_req_chunk_size_line_no_space
    b = _func_body(conn, "handle_req_chunk_size_line_no_space")
    if b is None:
        out["f9Fixed"] = prev("f9Fixed")
        if notes is not None:
            notes.append("handle_req_chunk_size_line_no_space not found; f9Fixed kept")
    else:
        b = _strip_c_comments(b)
        m = re.search(r"ERR_MSG_REQUEST_CHUNK_LINE_EXT_TOO_BIG\s*\)\s*;(.*?)\}", b, re.S)
        calls = len(re.findall(r"transmit_error_response_static\s*\(", b))
        out["f9Fixed"] = bool((m and re.search(r"\breturn\b", m.group(1))) or calls < 2
                              or re.search(r"\belse\b", b[m.end():] if m else ""))
    # transmit_error_response_len: allocation-failure exit and the "release everything" branch
    b = _func_body(conn, "transmit_error_response_len")
    if b is None:
        out["allocBypassFixed"] = prev("allocBypassFixed")
        out["f14Fixed"] = prev("f14Fixed")
        out["f14ClearsAware"] = prev("f14ClearsAware")
    else:
        b = _strip_c_comments(b)
        m = re.search(r"if\s*\(\s*NULL\s*==\s*response\s*\)\s*\{(.*?)\n  \}", b, re.S)
        blk = m.group(1) if m else ""
        out["allocBypassFixed"] = bool(m) and ("state = MHD_CONNECTION_CLOSED" not in re.sub(r"\s+", " ", blk)
                                               or "MHD_connection_close_" in blk or "CONNECTION_CLOSE_ERROR" in blk
                                               or "connection_close_error" in blk)
        m = re.search(r"if\s*\(\s*MHD_NO\s*==\s*build_header_response\s*\(\s*connection\s*\)\s*\)\s*\{(.*?)MHD_pool_reset", b, re.S)
        blk = m.group(1) if m else ""
        out["f14Fixed"] = bool(m) and ("notify_completed" in blk or "MHD_connection_close_" in blk)
        out["f14ClearsAware"] = bool(m) and ("MHD_connection_close_" in blk or
                                             bool(re.search(r"client_aware\s*=\s*false", blk)))
    b = _func_body(conn, "MHD_connection_epoll_update_")
    if b is None:
        out["epollBypassFixed"] = prev("epollBypassFixed")
    else:
        b = _strip_c_comments(b)
        m = re.search(r"epoll_ctl\s*\(.*?EPOLL_CTL_ADD.*?\)\s*\)\s*\{(.*?)return\s+MHD_NO", b, re.S)
        blk = m.group(1) if m else ""
        out["epollBypassFixed"] = bool(m) and ("MHD_connection_close_" in blk or "connection_close_error" in blk
                                               or "CONNECTION_CLOSE_ERROR" in blk)
    return out


def gen_connstate(notes=None):
    hdr = extract.src("src/microhttpd/internal.h")
    m = re.search(r"enum\s+MHD_CONNECTION_STATE\s*\{(.*?)\}\s*_MHD_FIXED_ENUM", hdr, re.S)
    if not m:
        raise RuntimeError("enum MHD_CONNECTION_STATE not found")
    names = []
    for n in re.findall(r"\b(MHD_CONNECTION_[A-Z0-9_]+)\s*=", _strip_c_comments(m.group(1))):
        if n not in names:
            names.append(n)
    pub = extract.src("src/include/microhttpd.h")
    m2 = re.search(r"enum\s+MHD_RequestTerminationCode\s*\{(.*?)\}\s*_MHD_FIXED_ENUM", pub, re.S)
    if not m2:
        raise RuntimeError("enum MHD_RequestTerminationCode not found")
    tnames = []
    for n in re.findall(r"\b(MHD_REQUEST_TERMINATED_[A-Z0-9_]+)\s*=", _strip_c_comments(m2.group(1))):
        if n not in tnames:
            tnames.append(n)
    v = extract.c_eval('#include "MHD_config.h"\n#include "internal.h"\n',
                       [(n, "%d", "(int) " + n) for n in names + tnames])
    vals = sorted(((int(v[n]), n) for n in names))
    if [x for x, _ in vals] != list(range(len(vals))):
        raise RuntimeError("MHD_CONNECTION_STATE values are not 0..n-1: %r" % (vals,))
    fx = detect_fixes(notes)
    L = [extract.HEADER % "src/microhttpd/internal.h, src/include/microhttpd.h, src/microhttpd/connection.c",
         "namespace Mhd.Gen.ConnState", "",
         "/-- `enum MHD_CONNECTION_STATE`, constructors in the numeric order of the C enum -/",
         "inductive CState where"]
    for _, n in vals:
        L.append("  | %s" % _camel(n, "MHD_CONNECTION_"))
    L += ["  deriving DecidableEq, Repr, Inhabited", "", "/-- numeric value of the C enumerator -/",
          "def CState.toNat : CState → Nat"]
    for x, n in vals:
        L.append("  | .%s => %d" % (_camel(n, "MHD_CONNECTION_"), x))
    L += [""]
    for x, n in vals:
        L.append("@[simp] theorem CState.toNat_%s : CState.%s.toNat = %d := rfl" % (_camel(n, "MHD_CONNECTION_"), _camel(n, "MHD_CONNECTION_"), x))
    L += ["", "def CState.all : List CState := [%s]" % ", ".join("." + _camel(n, "MHD_CONNECTION_") for _, n in vals), "",
          "/-- `enum MHD_RequestTerminationCode` -/"]
    for n in tnames:
        L.append("def %s : Nat := %s" % (_camel(n, "MHD_REQUEST_"), v[n]))
    L += ["", "/-- repairs present in connection.c (syntactic probes, see tools/props/C05.py) -/"]
    for k in ("f9Fixed", "allocBypassFixed", "epollBypassFixed", "f14Fixed", "f14ClearsAware"):
        L.append("def %s : Bool := %s" % (k, "true" if fx[k] else "false"))
    L += ["", "end Mhd.Gen.ConnState", ""]
    return vlib.write_if_changed(os.path.join(extract.GEN, "ConnState.lean"), "\n".join(L))


# --------------------------------------------------------------------------
# request shapes: rendering + abstract annotation (what the byte positions complete)

def _hx(b):
    return b.hex() if b else "-"


class Shape:
    """bytes of one request, cut into elements; every element ends at a byte position and carries
    the abstract token the model is given when that position has been sent"""

    def __init__(self, name, elems, body=b"", small=False, settle=6, expect="ok"):
        self.name, self.elems, self.body, self.small, self.settle, self.expect = name, elems, body, small, settle, expect
        self.data = b"".join(e[0] for e in elems)

    def bounds(self):
        out, p = [], 0
        for b, _ in self.elems:
            p += len(b)
            out.append(p)
        return out

    def tokens_for(self, lo, hi):
        """tokens for sending bytes [lo,hi)"""
        toks, p = [], 0
        for b, t in self.elems:
            s, e = p, p + len(b)
            p = e
            if e <= lo or s >= hi or not b:
                continue
            a, z = max(s, lo), min(e, hi)
            if t.startswith("D") and t[1:].isdigit():
                toks.append("D%d" % (z - a))
            elif z == e:
                toks.append(t)
            else:
                toks.append("P")
        # env markers (zero-length elements) are attached to the end of the request
        if hi == len(self.data):
            toks += [t for b, t in self.elems if not b]
        out = []
        for t in toks:
            if t == "P" and out and out[-1] == "P":
                continue
            out.append(t)
        return out


def shape_get(ka=True, method=b"GET", http10=False):
    ver = b"HTTP/1.0" if http10 else b"HTTP/1.1"
    hdr = b"Host: h\r\n" + (b"" if ka else b"Connection: close\r\n") + b"\r\n"
    keep = ka and not http10
    return Shape(method.decode().lower() + ("" if keep else "-close"),
                 [(method + b" /a?x=1 " + ver + b"\r\n", "L"), (hdr, "H:n:%d:0" % (1 if keep else 0))])


def shape_post_cl(n=5, ka=True):
    body = bytes(97 + (i * 7) % 26 for i in range(n))
    return Shape("post-cl%d" % n,
                 [(b"POST /p HTTP/1.1\r\n", "L"),
                  (b"Host: h\r\nContent-Length: %d\r\n\r\n" % n, "H:l%d:1:0" % n), (body, "D%d" % n)], body=body)


def shape_post_chunked(chunks=(5, 3), trailers=True):
    elems = [(b"POST /c HTTP/1.1\r\n", "L"), (b"Host: h\r\nTransfer-Encoding: chunked\r\n\r\n", "H:c:1:0")]
    body = b""
    for j, k in enumerate(chunks):
        d = bytes(65 + (i * 3 + j) % 26 for i in range(k))
        body += d
        elems += [(b"%x\r\n" % k, "C%d" % k), (d, "D%d" % k), (b"\r\n", "E")]
    elems += [(b"0\r\n", "C0"), ((b"X-T: 1\r\n" if trailers else b"") + b"\r\n", "F")]
    return Shape("post-chunked%s" % ("-tr" if trailers else ""), elems, body=body)


def shape_badline():
    return Shape("badline", [(b"GET /a HTTP/9.9\r\n", "Lbad"), (b"Host: h\r\n\r\n", "P")], expect="err")


def shape_badcl():
    return Shape("bad-cl", [(b"POST /a HTTP/1.1\r\n", "L"), (b"Host: h\r\nContent-Length: x\r\n\r\n", "H:bad:1:0")], expect="err")


def shape_badchunk():
    return Shape("bad-chunk", [(b"POST /c HTTP/1.1\r\n", "L"), (b"Host: h\r\nTransfer-Encoding: chunked\r\n\r\n", "H:c:1:0"),
                               (b"3\r\n", "C3"), (b"abc", "D3"), (b"XY", "Cbad")], body=b"abc", expect="err")


def shape_bighdr():
    return Shape("bighdr-small-arena", [(b"GET /a HTTP/1.1\r\n", "L"), (b"Host: h\r\nX: " + b"a" * 600, "P"), (b"", "NS")],
                 small=True, settle=60, expect="err")


def shape_chunkext():
    return Shape("chunkext-small-arena", [(b"POST /u HTTP/1.1\r\n", "L"), (b"Host: h\r\nTransfer-Encoding: chunked\r\n\r\n", "H:c:1:0"),
                                          (b"5;" + b"x" * 600, "P"), (b"", "NSX")], small=True, settle=60, expect="err")


def shape_f14():
    # small arena: the error reply header does not fit until everything is released
    return Shape("errhdr-small-arena",
                 [(b"POST /u HTTP/1.1\r\n", "L"), (b"Host: h\r\nTransfer-Encoding: chunked\r\n\r\n", "H:c:1:0"),
                  (b"7\r\n", "C7"), (b"ABCDEFG", "D7"), (b"\r\n", "E"), (b"21\r\n", "C33"),
                  (b"HIJKLMNOPQRSTHTTP/1.1UVWXYZA%4CDE", "D33"), (b"FGHIJKLMN\r\n0\r\n\r\n", "Cbad"), (b"", "HF")],
                 body=b"ABCDEFGHIJKLMNOPQRSTHTTP/1.1UVWXYZA%4CDE", small=True, settle=12, expect="err")


NORMAL_SHAPES = [lambda: shape_get(), lambda: shape_get(method=b"HEAD"), lambda: shape_get(ka=False),
                 lambda: shape_post_cl(5), lambda: shape_post_cl(12), lambda: shape_post_chunked((5, 3), True),
                 lambda: shape_post_chunked((4,), False), shape_badline, shape_badcl, shape_badchunk]
SMALL_SHAPES = [shape_bighdr, shape_chunkext]

BEHS = ["", "f=r0", "f=r3", "f=no", "f=s1", "f=s1 l=no", "u=2", "u=0", "u=1,all", "ur=0:r0", "us=0:1", "us=1:2 u=3",
        "l=r3", "l=no", "l=s2", "l=r9", "f=r9", "l=c",
        # interim (102 Processing) replies: r5 / r6 (with free callback); `l` lists the actions of the successive calls
        # without upload data after the first one.  Upgrade: r7 (101); r8 = upgrade object with a wrong status code (refused)
        "f=r5 l=c,r0", "f=r6 l=r3", "l=r5,c,r0", "l=r6,r5,r0", "l=r5,no", "l=r5,s1,r0", "f=r7", "l=r7", "f=r5 l=r7", "f=r8"]
NEW_BEHS_FROM = 18
# random histories: interim replies only for the last request of a connection (no pipelined bytes behind it), see F30 note in explore()
INTERIM_ONLY_LAST = True


SMALL_BEHS = ["", "u=2", "l=no", "f=no", "u=0"]


class Case:
    oracle_only = False

    def __init__(self, name):
        self.name, self.lines, self.bodies, self.tags = name, [], {}, []

    def add(self, *ls):
        self.lines += ls


def case_header(cs, mode, mem, suspend=True, timeout=5, extra="", urilog=True, upgrade=True):
    cs.add("case " + cs.name, "cfg mode=%s mem=%d timeout=%d suspend=%d urilog=%d upgrade=%d%s" % (
        mode, mem, timeout, 1 if suspend else 0, 1 if urilog else 0, 1 if upgrade else 0, extra), "start",
           "resp 3 kind=freecb size=7", "resp 9 kind=copy size=4 code=99",
           "resp 5 kind=copy size=4 code=102", "resp 6 kind=freecb size=3 code=102", "resp 7 kind=upgrade code=101",
           "resp 8 kind=upgrade code=200")


def send_line(c, shape, lo, hi):
    return "send %d %s %s" % (c, _hx(shape.data[lo:hi]), " ".join(shape.tokens_for(lo, hi)))


def gen_placement(shape_f, mode, beh, phase_idx, action, after, mid, urilog=True, upclose=True):
    """one request shape; the client sends up to a phase boundary (or into the middle of the next
    element), everything settles, then ONE action; then (unless the action ended the exchange)
    the rest is sent and everything settles again; finally stop"""
    sh = shape_f()
    bounds = [0] + sh.bounds()
    bounds = sorted(set(b for b in bounds if b <= len(sh.data)))
    if phase_idx >= len(bounds):
        return None
    cut = bounds[phase_idx]
    if mid:
        nxt = [b for b in bounds if b > cut]
        if not nxt or nxt[0] - cut < 2:
            return None
        if sh.small and nxt[0] - cut > 100:
            return None      # where inside the over-long element the arena is exhausted is not modelled
        cut = cut + (nxt[0] - cut) // 2
    if sh.small and beh not in SMALL_BEHS:
        return None          # replies of the application in a 300-byte arena fail for lack of pool space (not modelled)
    cs = Case("pl-%s-%s-p%d%s-%s-%s-%s%s%s" % (sh.name, mode, phase_idx, "m" if mid else "", beh.replace(" ", "_").replace("=", "").replace(",", ".") or "dflt",
                                              action, after, "" if urilog else "-nouri", "-upc" if ("r7" in beh and upclose) else ""))
    mem = 300 if sh.small else 8192
    if sh.name == "errhdr-small-arena":
        mem = 256
    case_header(cs, mode, mem, extra=(" lvl=2 incr=64" if sh.name == "errhdr-small-arena" else ""), urilog=urilog)
    if beh:
        cs.add("beh 0 0 " + beh)
    cs.add("arrive 0 1")
    cs.bodies[(0, 0)] = sh.body
    st = sh.settle + (8 if "s" in beh else 0) + 4 * (beh.count("r5") + beh.count("r6"))
    if cut > 0:
        cs.add(send_line(0, sh, 0, cut), "settle %d" % st)
    else:
        cs.add("settle 2")
    ended = False
    if action.endswith("1stop"):
        # the action, ONE event-loop round, then the daemon is stopped (nothing has settled)
        cs.add({"tick1stop": "tick 6000", "shutwr1stop": "shutwr 0", "cclose1stop": "cclose 0"}[action], "settle 1", "stop")
        ended = True
    elif action == "shutwr":
        cs.add("shutwr 0"); ended = True
    elif action == "cclose":
        cs.add("cclose 0"); ended = True
    elif action == "tick":
        cs.add("tick 6000")
    elif action == "stop":
        cs.add("stop"); ended = True
    if action != "stop" and not action.endswith("1stop"):
        cs.add("settle %d" % st)
        if not ended and cut < len(sh.data):
            cs.add(send_line(0, sh, cut, len(sh.data)), "settle %d" % st)
        if after == "pipeline" and not ended:
            g = shape_get()
            cs.bodies[(0, 1)] = b""
            cs.add(send_line(0, g, 0, len(g.data)), "settle 8")
        if "r7" in beh and upclose:
            # the application closes the upgraded connection (when there is none the op is refused on both sides)
            cs.add("up-close 0", "settle 3")
        cs.add("stop")
    cs.tags = [sh.name, mode, action, "beh:" + (beh or "dflt")]
    return cs


def gen_random(rng, idx):
    mode = rng.choice(["select", "epoll"])
    nconn = rng.choice([1, 1, 2])
    cs = Case("rnd-%d-%s" % (idx, mode))
    case_header(cs, mode, 8192, urilog=(rng.random() < 0.75))
    plans = []
    for c in range(nconn):
        nreq = rng.choice([1, 2, 2, 3])
        reqs = []
        for r in range(nreq):
            sh = rng.choice(NORMAL_SHAPES)()
            reqs.append(sh)
            cs.bodies[(c, r)] = sh.body
            b = rng.choice(BEHS)
            while INTERIM_ONLY_LAST and r < nreq - 1 and ("r5" in b or "r6" in b):
                b = rng.choice(BEHS)
            if b:
                cs.add("beh %d %d %s" % (c, r, b))
        plans.append(reqs)
    for c in range(nconn):
        cs.add("arrive %d %d" % (c, c + 1))
    # the byte stream of every connection, with a cursor
    streams = []
    for c, reqs in enumerate(plans):
        segs = []
        for sh in reqs:
            n = len(sh.data)
            cuts = sorted(set([0, n] + [rng.randint(1, n - 1) for _ in range(rng.choice([0, 0, 1, 2, 3]))] +
                              ([rng.choice(sh.bounds())] if rng.random() < 0.5 else [])))
            for a, z in zip(cuts, cuts[1:]):
                segs.append((sh, a, z))
        streams.append(segs)
    alive = [True] * nconn
    act_budget = rng.choice([0, 1, 1, 2])
    stopped = False
    while any(streams[c] for c in range(nconn) if alive[c]):
        c = rng.choice([c for c in range(nconn) if alive[c] and streams[c]])
        burst = rng.choice([1, 1, 2, 5])
        for _ in range(burst):
            if not streams[c]:
                break
            sh, a, z = streams[c].pop(0)
            cs.add(send_line(c, sh, a, z))
        cs.add("settle %d" % rng.choice([24, 30]))
        if act_budget and rng.random() < 0.3:
            act_budget -= 1
            a = rng.choice(["shutwr", "cclose", "tick", "stop", "tick"])
            if a == "stop":
                cs.add("stop"); stopped = True
                break
            if a == "tick":
                cs.add("tick 6000", "settle 24")
                alive = [False] * nconn   # everything idle has timed out (suspended ones come back later)
                break
            k = rng.choice([c2 for c2 in range(nconn) if alive[c2]])
            cs.add("%s %d" % (a, k), "settle 24")
            alive[k] = False
    if not stopped:
        cs.add("settle 24")
        for c in range(nconn):
            if rng.random() < 0.5:
                cs.add("up-close %d" % c, "settle 3")
        cs.add("stop")
    cs.tags = ["random", mode, "conns:%d" % nconn]
    return cs


def gen_outq_cases():
    """MHD_queue_response called by the application outside the access handler: while the connection is
    suspended (at the first / the final call), after a final call that did not reply, too early, twice"""
    out = []
    for mode in ("select", "epoll"):
        for urilog in (True, False):
            for shf in (lambda: shape_get(), lambda: shape_post_cl(5), lambda: shape_post_chunked((4,), False)):
                for kind in ("susp-final", "susp-first", "noreply-final", "too-early", "twice", "after-close"):
                    for tail in ("end", "pipeline", "tick", "stop"):
                        sh = shf()
                        cs = Case("outq-%s-%s-%s-%s%s-%s" % (kind, sh.name, mode, tail, "" if urilog else "-nouri", len(out)))
                        case_header(cs, mode, 8192, urilog=urilog)
                        cs.bodies[(0, 0)] = sh.body
                        beh = {"susp-final": "l=s40", "susp-first": "f=s40", "noreply-final": "l=c", "too-early": "l=c",
                               "twice": "l=s40", "after-close": "l=c"}[kind]
                        cs.add("beh 0 0 " + beh, "arrive 0 1")
                        if kind == "too-early":
                            cs.add("settle 2", "reply-out 0 0", send_line(0, sh, 0, sh.bounds()[0]), "settle 4", "reply-out 0 0")
                            cs.add(send_line(0, sh, sh.bounds()[0], len(sh.data)), "settle 6", "reply-out 0 3", "settle 6")
                        else:
                            cs.add(send_line(0, sh, 0, len(sh.data)), "settle 6")
                            if kind == "after-close":
                                cs.add("cclose 0", "settle 4", "reply-out 0 0", "settle 4")
                            else:
                                cs.add("reply-out 0 3")
                                if kind == "twice":
                                    cs.add("reply-out 0 0")
                                if kind in ("susp-final", "susp-first", "twice"):
                                    cs.add("settle 2", "resume 0")
                                cs.add("settle 8")
                        if tail == "pipeline":
                            g = shape_get()
                            cs.bodies[(0, 1)] = b""
                            cs.add(send_line(0, g, 0, len(g.data)), "settle 8")
                        elif tail == "tick":
                            cs.add("tick 6000", "settle 6")
                        if tail != "stop":
                            cs.add("settle 2")
                        cs.add("stop")
                        cs.tags = ["outq-" + kind, mode]
                        out.append(cs)
    return out


def gen_poolfull_cases(thorough):
    """"pool nearly full + late error reply": an automatic error reply after the application has seen the
    request (handler call, or only the URI log), with the arena filled by a padding header so that the first
    build_header_response() of the error reply fails for some paddings ("No memory. Release everything").
    Where exactly the pool runs out is pool arithmetic (C08), so these histories are judged by the oracle
    only: completion exactly once, strings stable until completion, nothing left open."""
    out = []
    for mem, lo, hi in ((256, 0, 60), (512, 150, 420), (1024, 560, 900)):
        step = 1 if thorough else (2 if mem == 256 else 5)
        for pad in range(lo, hi, step):
            for kind in ("badchunk", "badhdr"):
                mode = ("select", "epoll")[(pad // step) % 2]
                cs = Case("poolfull-%s-m%d-p%d-%s" % (kind, mem, pad, mode))
                cs.oracle_only = True
                cs.add("case " + cs.name, "cfg mode=%s mem=%d timeout=0 suspend=1 urilog=1" % (mode, mem), "start", "arrive 0 1")
                padhdr = (b"X-Pad: " + b"p" * pad + b"\r\n") if pad else b""
                if kind == "badchunk":
                    req = b"POST /u HTTP/1.1\r\nHost: h\r\n" + padhdr + b"Transfer-Encoding: chunked\r\n\r\n3\r\nabc\r\nzz\r\n"
                    cs.bodies[(0, 0)] = b"abc"
                else:
                    req = b"GET /a HTTP/1.1\r\nHost: h\r\n" + padhdr + b"Content-Length: x\r\n\r\n"
                    cs.bodies[(0, 0)] = b""
                cs.add("send 0 " + _hx(req), "settle 90", "stop")
                cs.tags = ["poolfull-" + kind, mode]
                out.append(cs)
    return out


def gen_fault_cases():
    """the two other bypasses of MHD_connection_close_ and the F14 / F9 scenarios, fixed scripts"""
    out = []
    # F9: over-long chunk extension, small arena
    for mode in ("select", "epoll"):
        sh = shape_chunkext()
        cs = Case("f9-chunkext-" + mode)
        case_header(cs, mode, 300)
        cs.add("arrive 0 1", send_line(0, sh, 0, len(sh.data)), "settle 60", "stop")
        cs.bodies[(0, 0)] = b""
        cs.tags = ["f9", mode]
        out.append(cs)
    # F14: error reply header does not fit
    sh = shape_f14()
    cs = Case("f14-errhdr-epoll")
    cs.add("case " + cs.name, "cfg mode=epoll mem=256 lvl=2 incr=64 timeout=5 suspend=1", "start", "beh 0 0 l=no", "arrive 0 1",
           send_line(0, sh, 0, len(sh.data)), "settle 12", "stop")
    cs.bodies[(0, 0)] = sh.body
    cs.tags = ["f14", "epoll"]
    out.append(cs)
    # allocation failure of MHD's error response after the handler has seen the request
    for mode in ("select", "epoll"):
        sh = shape_badchunk()
        cs = Case("allocfail-errresp-" + mode)
        case_header(cs, mode, 8192)
        cs.add("arrive 0 1", send_line(0, sh, 0, sh.bounds()[3]), "settle 6", "fail-calloc 0",
               send_line(0, sh, sh.bounds()[3], len(sh.data)), "settle 6", "stop")
        cs.bodies[(0, 0)] = sh.body
        cs.tags = ["allocfail", mode]
        out.append(cs)
    # epoll_ctl(ADD) failure when a resumed connection goes back to waiting for input
    sh = shape_post_cl(12)
    cs = Case("epolladdfail-after-resume")
    case_header(cs, "epoll", 8192)
    half = sh.bounds()[1] + 6
    cs.add("beh 0 0 us=0:1", "arrive 0 1", send_line(0, sh, 0, half), "settle 2", "fail-epoll-add 0", "settle 8",
           send_line(0, sh, half, len(sh.data)), "settle 6", "stop")
    cs.bodies[(0, 0)] = sh.body
    cs.tags = ["epolladdfail", "epoll"]
    out.append(cs)
    return out


def gen_interim_upgrade_cases():
    """fixed scripts around interim (102) and upgrade (101) responses that the placement grid does not reach:
    responses queued from outside the handler while the connection is suspended, failure of
    MHD_response_execute_upgrade_ (allocation), events that must not touch an upgraded connection
    (time-out, resume, client close, pipelined bytes), daemon stop with / without MHD_UPGRADE_ACTION_CLOSE,
    several requests with interim replies on one keep-alive connection, upgrade on a daemon without MHD_ALLOW_UPGRADE"""
    out = []
    for mode in ("select", "epoll"):
        for urilog in (True, False):
            for shf in (lambda: shape_get(), lambda: shape_post_cl(5), lambda: shape_post_chunked((4,), False)):
                for kind in ("outq-interim", "outq-upgrade", "outq-interim-upgrade", "upgrade-allocfail", "upgrade-allocfail-handler",
                             "upgrade-idle-events", "upgrade-stop-open", "upgrade-close-then-events", "interim-keepalive-x2",
                             "interim-then-timeout", "interim-then-cclose", "upgrade-not-allowed", "interim-x3", "upgrade-pipelined"):
                    sh = shf()
                    cs = Case("iu-%s-%s-%s%s-%d" % (kind, sh.name, mode, "" if urilog else "-nouri", len(out)))
                    case_header(cs, mode, 8192, urilog=urilog, upgrade=(kind != "upgrade-not-allowed"))
                    cs.bodies[(0, 0)] = sh.body
                    full = send_line(0, sh, 0, len(sh.data))
                    if kind == "outq-interim":
                        cs.add("beh 0 0 l=s40,c,r3", "arrive 0 1", full, "settle 6", "reply-out 0 5", "settle 2", "resume 0", "settle 12")
                    elif kind == "outq-upgrade":
                        cs.add("beh 0 0 l=s40", "arrive 0 1", full, "settle 6", "reply-out 0 7", "settle 2", "resume 0", "settle 8",
                               "up-close 0", "settle 3")
                    elif kind == "outq-interim-upgrade":
                        cs.add("beh 0 0 f=s40 l=s40,c", "arrive 0 1", full, "settle 6", "reply-out 0 6", "settle 2", "resume 0", "settle 8",
                               "reply-out 0 7", "resume 0", "settle 8", "up-close 0", "settle 3")
                    elif kind == "upgrade-allocfail":
                        # response queued from outside while suspended; the next allocation of the library is the upgrade handle
                        cs.add("beh 0 0 l=s40", "arrive 0 1", full, "settle 6", "reply-out 0 7", "fail-calloc 0", "resume 0", "settle 8")
                    elif kind == "upgrade-allocfail-handler":
                        # (the response object and its "Connection" header are allocated by the library first: third allocation from now)
                        cs.add("beh 0 0 l=s3,r7", "arrive 0 1", full, "settle 2", "fail-calloc 2", "settle 10")
                    elif kind == "upgrade-idle-events":
                        cs.add("beh 0 0 l=r7", "arrive 0 1", full, "settle 8", "tick 6000", "settle 3", "resume 0", "settle 3",
                               "reply-out 0 0", "settle 2", "cclose 0", "settle 3")
                    elif kind == "upgrade-stop-open":
                        cs.add("beh 0 0 f=r7", "arrive 0 1", full, "settle 8")
                    elif kind == "upgrade-close-then-events":
                        cs.add("beh 0 0 l=r7", "arrive 0 1", full, "settle 8", "up-close 0", "up-close 0", "tick 6000", "settle 1", "resume 0", "settle 3")
                    elif kind == "interim-keepalive-x2":
                        g = shape_get()
                        cs.bodies[(0, 1)] = b""
                        cs.bodies[(0, 2)] = b""
                        cs.add("beh 0 0 l=r5,c,r0", "beh 0 1 l=r6,c,r5,c,r3", "beh 0 2 f=r5 l=c,r0", "arrive 0 1", full, "settle 12",
                               send_line(0, g, 0, len(g.data)), "settle 16", send_line(0, g, 0, len(g.data)), "settle 12")
                    elif kind == "interim-then-timeout":
                        cs.add("beh 0 0 l=r5,c,c", "arrive 0 1", full, "settle 10", "tick 6000", "settle 4")
                    elif kind == "interim-then-cclose":
                        cs.add("beh 0 0 f=r5 l=s2,c", "arrive 0 1", full, "settle 1", "cclose 0", "settle 10")
                    elif kind == "upgrade-not-allowed":
                        cs.add("beh 0 0 l=r7", "arrive 0 1", full, "settle 8")
                    elif kind == "interim-x3":
                        cs.add("beh 0 0 f=r5 l=r6,c,r5,r3", "arrive 0 1", full, "settle 24")
                    elif kind == "upgrade-pipelined":
                        g = shape_get()
                        cs.add("beh 0 0 l=r7", "arrive 0 1", "send 0 %s %s" % (_hx(sh.data + g.data), " ".join(sh.tokens_for(0, len(sh.data)) +
                                                                                                       g.tokens_for(0, len(g.data)))),
                               "settle 8", "up-close 0", "settle 3")
                    cs.add("stop")
                    cs.tags = ["iu-" + kind, mode]
                    out.append(cs)
    return out


def interim_buffer_fixed():
    """syntactic probe of connection_shrink_read_buffer(): does it leave alone a read buffer that has the needed size
    already?  Without that, the second START_REPLY of one request (after a 102 reply) loses the pipelined bytes that
    wait in the read buffer: the block is no longer the last one of the pool, MHD_pool_reallocate() tries to move it,
    fails (the write buffer holds all free space), read_buffer becomes NULL with read_buffer_offset != 0, and
    connection_reset() then parses stale bytes of the previous request as the next one (finding F30 of builder b-c05,
    patch build/fixes/F30_interim_pipelined.diff)."""
    b = _func_body(extract.src("src/microhttpd/connection.c"), "connection_shrink_read_buffer")
    if b is None:
        return False
    b = _strip_c_comments(b)
    return bool(re.search(r"read_buffer_size\s*!=\s*c->read_buffer_offset|read_buffer_offset\s*!=\s*c->read_buffer_size|"
                          r"read_buffer_size\s*==\s*c->read_buffer_offset|MHD_pool_is_resizable_inplace\s*\([^;]*\)\s*\)\s*\n?\s*\{",
                          re.sub(r"mhd_assert\s*\(.*?\)\s*;", "", b, flags=re.S)))


def gen_interim_pipelined_cases():
    """interim reply while the bytes of the next request wait in the read buffer (keep-alive connection): the next
    request must be served (or handed to the upgrade handler as extra data).  Run only on a tree with the F30 repair,
    or when C05_F30=1 (on an unrepaired tree they show the defect: model/code differ, upgrade handler gets NULL)."""
    out = []
    for mode in ("select", "epoll"):
        for shf in (lambda: shape_get(), lambda: shape_post_cl(5), lambda: shape_post_chunked((4,), False)):
            for beh in ("l=r5,c,r0", "l=r6,c,r5,c,r3", "l=r5,c,r7", "l=r5,s1,c,r0"):
                for cut in (None, 3, 12):
                    sh, g = shf(), shape_get()
                    cs = Case("f30-%s-%s-%s-%s-%d" % (sh.name, mode, beh.replace("=", "").replace(",", "."), cut, len(out)))
                    case_header(cs, mode, 8192)
                    cs.bodies[(0, 0)] = sh.body
                    cs.bodies[(0, 1)] = b""
                    n = len(g.data) if cut is None else cut
                    cs.add("beh 0 0 " + beh, "arrive 0 1",
                           "send 0 %s %s" % (_hx(sh.data + g.data[:n]), " ".join(sh.tokens_for(0, len(sh.data)) + g.tokens_for(0, n))),
                           "settle 24")
                    if n < len(g.data):
                        cs.add(send_line(0, g, n, len(g.data)), "settle 8")
                    cs.add("up-close 0", "settle 3", "stop")
                    cs.tags = ["f30-interim-pipelined", mode]
                    out.append(cs)
    return out


def gen_admission_cases():
    """admission of connections: bursts of MHD_add_connection() queued while the daemon is not run (the daemon is
    thread safe: externally added connections wait in the new-connections queue and are admitted, in FIFO order, by the
    next MHD_run) against connection limits 1..3 — the quick check at MHD_add_connection() time passes, the firm check
    under the lock refuses; quick-check refusals; per-IP limit; accept policy; epoll_ctl(ADD) failure in
    new_connection_process_ (STARTED and CLOSED at once); stop with connections still queued.  Every connection object
    must get both notifications or none."""
    out = []
    g = shape_get()
    full = lambda c: send_line(c, g, 0, len(g.data))
    for mode in ("select", "epoll"):
        for limit in (1, 2, 3):
            for extra in (0, 1, 2):
                k = limit + extra
                for kind in ("burst", "burst-busy", "burst-stop", "burst-stop-unrun", "trickle", "burst-post"):
                    cs = Case("adm-%s-l%d-k%d-%s-%d" % (kind, limit, k, mode, len(out)))
                    case_header(cs, mode, 8192, extra=" limit=%d" % limit)
                    if kind == "burst-busy":
                        cs.add("beh 0 0 f=s3")
                    for c in range(k):
                        cs.bodies[(c, 0)] = b""
                        cs.bodies[(c, 1)] = b""
                    if kind == "trickle":
                        for c in range(k):
                            cs.add("arrive %d %d" % (c, c + 1), full(c), "settle 4")
                    else:
                        if kind == "burst-busy":
                            cs.add("arrive 0 1", full(0), "settle 1")
                        for c in range(1 if kind == "burst-busy" else 0, k):
                            cs.add("arrive %d %d" % (c, c + 1))
                        if kind == "burst-stop-unrun":
                            cs.add("stop")
                        else:
                            if kind == "burst-post":
                                p = shape_post_cl(5)
                                for c in range(k):
                                    cs.bodies[(c, 0)] = p.body
                                    cs.add(send_line(c, p, 0, len(p.data)))
                            else:
                                for c in range(1 if kind == "burst-busy" else 0, k):
                                    cs.add(full(c))
                            cs.add("settle 1" if kind == "burst-stop" else "settle 8")
                    if kind in ("burst", "burst-busy", "trickle", "burst-post"):
                        # a slot becomes free: the next arrival is admitted again; one more than fits is refused
                        cs.add("cclose 0", "settle 4", "arrive %d %d" % (k, k + 1), "arrive %d %d" % (k + 1, k + 2),
                               full(k), full(k + 1), "settle 8")
                        cs.bodies[(k, 0)] = b""
                        cs.bodies[(k + 1, 0)] = b""
                    if kind != "burst-stop-unrun":
                        cs.add("stop")
                    cs.tags = ["admission-" + kind, mode]
                    out.append(cs)
        # per-IP limit and accept policy: refused before anything is allocated — no notification
        for perip in (1, 2):
            cs = Case("adm-perip%d-%s-%d" % (perip, mode, len(out)))
            case_header(cs, mode, 8192, extra=" perip=%d apc=7 limit=4" % perip)
            addrs = [1, 1, 1, 7, 2, 2, 3]
            for c, a in enumerate(addrs):
                cs.bodies[(c, 0)] = b""
                cs.add("arrive %d %d" % (c, a))
            for c in range(len(addrs)):
                cs.add(full(c))
            cs.add("settle 8", "cclose 0", "settle 4", "arrive 7 1", "arrive 8 1", "arrive 9 7", full(7), "settle 8", "stop")
            for c in (7, 8, 9):
                cs.bodies[(c, 0)] = b""
            cs.tags = ["admission-perip", mode]
            out.append(cs)
    # epoll_ctl(EPOLL_CTL_ADD) fails for the j-th connection of a burst (after a first round: the first round of an
    # epoll daemon with MHD_ALLOW_UPGRADE registers its upgrade epoll fd)
    for limit in (0, 2, 3):
        for j in range(3):
            cs = Case("adm-epolladdfail-l%d-j%d-%d" % (limit, j, len(out)))
            case_header(cs, "epoll", 8192, extra=(" limit=%d" % limit if limit else ""))
            cs.add("settle 1", "fail-epoll-add %d" % j)
            for c in range(3):
                cs.bodies[(c, 0)] = b""
                cs.add("arrive %d %d" % (c, c + 1))
            for c in range(3):
                cs.add(full(c))
            cs.add("settle 8", "arrive 3 4", full(3), "settle 8", "stop")
            cs.bodies[(3, 0)] = b""
            cs.tags = ["admission-epolladdfail", "epoll"]
            out.append(cs)
    return out


# --------------------------------------------------------------------------
# log handling

SITE_OF_STATE = {}     # filled from the generated enum: numeric state -> call site


def _load_sites():
    if SITE_OF_STATE:
        return
    txt = open(os.path.join(extract.GEN, "ConnState.lean")).read()
    vals = dict((n, int(v)) for n, v in re.findall(r"\| \.(\w+) => (\d+)", txt))
    SITE_OF_STATE[vals["headersProcessed"]] = "first"
    SITE_OF_STATE[vals["bodyReceiving"]] = "upload"
    SITE_OF_STATE[vals["fullReqReceived"]] = "final"


def _kv(line):
    d = {}
    for w in line.split()[1:]:
        if "=" in w:
            k, _, v = w.partition("=")
            d[k] = v
    return d


def split_cases(lines):
    cases, cur = {}, None
    for l in lines:
        if l.startswith("case "):
            cur = l.split()[1]
            cases[cur] = []
        elif cur is not None:
            cases[cur].append(l)
    return cases


def canon(lines, harness):
    """per-connection canonical token lists + strict handler list + multiset of free callbacks"""
    _load_sites()
    per, strict, frees = {}, {}, []
    pend_up = {}

    def flush(c):
        if c in pend_up:
            n = pend_up.pop(c)
            if n:    # calls in which nothing was taken repeat every round: how often is a matter of timing
                per.setdefault(c, []).append("up:%d" % n)

    def push(c, tok, collapse=False):
        flush(c)
        L = per.setdefault(c, [])
        if collapse and L and L[-1] == tok:
            return
        L.append(tok)

    last_handler = {}
    for l in lines:
        w = l.split()
        if not w:
            continue
        k = w[0]
        if k in ("conn-start", "conn-close", "uri-log", "completed", "sst", "handler", "took", "interim-done", "interim-sent", "upgrade"):
            d = _kv(l)
            try:
                c = int(d["c"])
            except (KeyError, ValueError):
                continue
        if k == "conn-start":
            push(c, "start")
        elif k == "conn-close":
            push(c, "close")
        elif k == "uri-log":
            push(c, "uri")
        elif k in ("interim-done", "interim-sent"):
            # code: the handler is entered again after an accepted 102 response; model: FULL_REPLY_SENT -> HEADERS_PROCESSED
            push(c, "interim")
        elif k == "upgrade":
            push(c, "upgrade")
        elif k == "completed":
            push(c, "done:" + d["code"])
        elif k == "sst":
            push(c, "sst:%s:%s:%s" % (d["state"], d["aware"], d["susp"]))
        elif k == "handler":
            if harness:
                site = SITE_OF_STATE.get(int(d["state"]), "state%s" % d["state"])
                ln = 0 if d["up"] == "-" else len(d["up"]) // 2
                last_handler[c] = [site, ln, 0]
                strict.setdefault(c, []).append(last_handler[c])
                if site == "upload":
                    flush_needed = False
                    pend_up.setdefault(c, 0)
                else:
                    push(c, site, collapse=True)
            else:
                site = d["site"]
                strict.setdefault(c, []).append([site, int(d["len"]), int(d["taken"])])
                if site == "upload":
                    if c not in pend_up:
                        flush(c)
                        pend_up[c] = 0
                    pend_up[c] += int(d["taken"])
                else:
                    push(c, site, collapse=True)
        elif k == "took" and harness:
            n = int(d["n"])
            if c in last_handler:
                last_handler[c][2] = n
            pend_up[c] = pend_up.get(c, 0) + n
        elif k == "free-cb":
            frees.append(l.split()[1])
    for c in list(pend_up):
        flush(c)
    return per, strict, sorted(frees)


class ProtocolOracle:
    """The call protocol of C05 re-stated over the log of the real library (independent of the Lean
    model): per connection start first / close last; per request first call without upload data and
    with a fresh context, call sites in the order first* upload* final*, upload data = the bytes the
    client sent, in order, re-presenting only what was declined; no call after a response was queued
    or after the handler failed; completion exactly once per presented request, after its last
    handler call, with the request's context; nothing left open when the daemon has stopped;
    strings stable until completion (the harness' `unstable` / `protocol-error` lines)."""

    def __init__(self, bodies, f30=True):
        self.f30 = f30       # flag the NULL extra-data pointer of finding F30 (see interim_buffer_fixed)
        self.f30_seen = 0
        self.bodies = bodies
        self.conn = {}       # c -> dict(state)
        self.errors = []
        self.refused = set() # connections MHD_add_connection() refused: they must never be announced
        self.wire = {}       # c -> bytes the client received
        self.interims = {}   # c -> number of times the handler was asked again after an interim response

    def err(self, msg):
        if len(self.errors) < 5:
            self.errors.append(msg)

    def feed(self, line):
        _load_sites()
        w = line.split()
        if not w:
            return
        k = w[0]
        if k in ("unstable", "protocol-error"):
            if "upgrade-handler-given-NULL" in line:
                self.f30_seen += 1
                if not self.f30:
                    return
            self.err("%s reported by the harness: %s" % (k, line[:160]))
            return
        if k == "arrive" and len(w) >= 4 and w[-2] == "->":
            if w[-1] == "0":
                self.refused.add(int(w[1].partition("=")[2]))
            return
        if k == "wire" and len(w) >= 3:
            c = int(w[1].partition("=")[2])
            self.wire[c] = self.wire.get(c, b"") + bytes.fromhex(w[2])
            return
        if k == "stopped":
            for c, n in self.interims.items():
                if self.wire.get(c, b"").count(b"HTTP/1.1 102 ") < n:
                    self.err("handler asked again after an interim response %d times on connection %d but only %d interim "
                             "status lines reached the client" % (n, c, self.wire.get(c, b"").count(b"HTTP/1.1 102 ")))
            for c, s in self.conn.items():
                if s["open"] is not None:
                    self.err("request presented on connection %d but never completed (daemon stopped)" % c)
                if not s["closed"]:
                    self.err("connection %d started but close notification missing after daemon stop" % c)
            return
        if k not in ("conn-start", "conn-close", "uri-log", "handler", "took", "ret", "queued", "completed", "upgrade"):
            return
        d = _kv(line)
        try:
            c = int(d["c"])
        except (KeyError, ValueError):
            self.err("callback without connection identity: " + line[:100])
            return
        s = self.conn.get(c)
        if k == "conn-start":
            if c in self.refused:
                self.err("start notification for connection %d although MHD_add_connection() refused it" % c)
            if s is not None:
                self.err("second start notification for connection %d" % c)
            self.conn[c] = {"closed": False, "open": None, "nreq": 0}
            return
        if s is None:
            self.err("%s before the start notification of connection %d" % (k, c))
            return
        if s["closed"]:
            self.err("%s after the close notification of connection %d" % (k, c))
            return
        rq = s["open"]
        if k == "conn-close":
            if rq is not None:
                self.err("request presented on connection %d but not completed before the close notification" % c)
            s["closed"] = True
        elif k == "uri-log":
            if rq is not None:
                self.err("URI of a new request logged before completion of the previous one")
            s["open"] = {"r": None, "site": 0, "taken": 0, "replied": False, "failed": False, "pending": None, "calls": 0,
                         "interim": False, "upgraded": False, "kind": None}
        elif k == "handler":
            if "state" not in d or "phase" not in d or "up" not in d or "r" not in d:
                self.err("malformed handler record: " + line[:100])
                return
            site = SITE_OF_STATE.get(int(d["state"]))
            if site is None:
                self.err("handler called in connection state %s" % d["state"])
                return
            rank = {"first": 0, "upload": 1, "final": 2}[site]
            if rq is None:      # (possible only without URI log callback)
                rq = s["open"] = {"r": None, "site": 0, "taken": 0, "replied": False, "failed": False, "pending": None, "calls": 0,
                                  "interim": False, "upgraded": False, "kind": None}
            if d.get("aware") != "1":
                self.err("handler called with client_aware unset")
            if rq["replied"] and rq["interim"] and not rq["upgraded"]:
                # after an interim (102) response another response may be queued: the handler is asked again, starting
                # over at the first call site, same context, no upload data
                rq["replied"] = rq["interim"] = False
                self.interims[c] = self.interims.get(c, 0) + 1
                if site != "first" or d["up"] != "-":
                    self.err("call after an interim response is not a call without data from the first call site")
                rq["site"] = 0
            if rq["replied"]:
                self.err("handler called after a response was queued")
            if rq["failed"]:
                self.err("handler called again after it returned MHD_NO")
            if rq["calls"] == 0:
                if d["phase"] != "first" or site != "first" or d["up"] != "-":
                    self.err("first call of a request is not (first site, no upload data, fresh context)")
                rq["r"] = d["r"]
                if int(d["r"]) != s["nreq"]:
                    self.err("request numbering skipped")
                s["nreq"] += 1
            else:
                if d["phase"] == "first":
                    self.err("context was not preserved between calls of one request")
                if d["r"] != rq["r"]:
                    self.err("handler called with the context of another request")
            if rank < rq["site"]:
                self.err("call sites out of order (%s after a later phase)" % site)
            rq["site"] = rank
            rq["calls"] += 1
            up = b"" if d["up"] == "-" else bytes.fromhex(d["up"])
            if site == "upload":
                if not up:
                    self.err("upload call without data")
                body = self.bodies.get((c, int(rq["r"])), None)
                if body is not None and body[rq["taken"]:rq["taken"] + len(up)] != up:
                    self.err("upload data is not the next bytes of the body (offset %d)" % rq["taken"])
                rq["pending"] = len(up)
            else:
                if up:
                    self.err("upload data at the %s call site" % site)
                if site == "final" and not rq["replied"] and not rq.get("early"):
                    body = self.bodies.get((c, int(rq["r"])), None)
                    if body is not None and rq["taken"] != len(body):
                        self.err("final call although only %d of %d body bytes were taken" % (rq["taken"], len(body)))
        elif k == "took":
            if rq is None or rq["pending"] is None:
                self.err("upload accounting without upload call")
                return
            n = int(d["n"])
            if n > rq["pending"]:
                self.err("application took more than presented")
            rq["taken"] += n
            rq["pending"] = None
        elif k == "ret":
            if rq is not None and d.get("v") == "0":
                rq["failed"] = True
        elif k == "queued":
            if rq is not None and line.rstrip().endswith("-> 1"):
                if rq["replied"]:
                    self.err("second response accepted for one request")
                rq["replied"] = True
                rq["interim"] = (d.get("code") == "102")
                rq["kind"] = d.get("code")
                if rq["site"] == 0:
                    # accepted in state HEADERS_PROCESSED ("queued early"): the library refuses the rest of the upload
                    rq["early"] = True
        elif k == "upgrade":
            if rq is None or not rq["replied"] or rq["kind"] != "101":
                self.err("upgrade handler called without an accepted upgrade response for an open request")
                return
            if rq["upgraded"]:
                self.err("upgrade handler called twice for one request")
            if d.get("r") != rq["r"]:
                self.err("upgrade handler called with the context of another request")
            if d.get("aware") != "1" or d.get("susp") != "1":
                self.err("upgrade handler called for a connection that is not (client aware, suspended)")
            rq["upgraded"] = True
        elif k == "completed":
            if rq is None:
                self.err("completion notification without a presented request (or a second one)")
                return
            if rq["calls"] == 0:
                if d.get("r") != "?":
                    self.err("completion with a context although the handler was never called")
            elif d.get("r") != rq["r"]:
                self.err("completion with the context of another request")
            if d.get("aware") not in (None, "1"):
                self.err("completion callback while client_aware is unset")
            s["open"] = None


def case_signature(cs, what):
    w = re.sub(r"\d+", "N", what)
    tag = cs.tags[0] if cs.tags else "?"
    return "sm: %s [%s]" % (w, tag)


class Spec:
    props_module = "Mhd.Props.C05"
    lean_targets = ["Mhd.Props.C05", "drv_sm"]
    required_theorems = ["Mhd.C05.protocol_accepts", "Mhd.C05.protocol_complete", "Mhd.C05.aware_iff_open_request",
                         "Mhd.C05.closed_only_unaware", "Mhd.C05.start_close_paired", "Mhd.C05.tpc_shutdown_is_shutdownClose", "Mhd.C05.chunked_body_accounting_partial", "Mhd.C05.refused_silent", "Mhd.C05.upgraded_holds_no_response", "Mhd.C05.idle_fuel_sufficient", "Mhd.C05.body_fuel_sufficient",
                         "Mhd.C05.upload_accounting", "Mhd.C05.upload_complete_length", "Mhd.C05.early_response_discards_upload",
                         "Mhd.C05.protocol_accepts_fixed", "Mhd.C05.tree_f9_fixed",
                         "Mhd.C05.tree_other_repairs", "Mhd.C05.protocol_accepts_tree", "Mhd.C05.witness_f9",
                         "Mhd.C05.witness_alloc_bypass", "Mhd.C05.witness_epoll_bypass", "Mhd.C05.witness_f14",
                         "Mhd.C05.witness_f14_double_completion"]
    trusted_base = ["Lean 4 kernel", "axioms: propext, Classical.choice, Quot.sound at most (audited per theorem)",
                    "hand-written model lean/Mhd/Model/ConnSM.lean tied to connection.c/daemon.c by this run's correspondence "
                    "(callback sequence per connection + connection->state / client_aware at every settled point)",
                    "hand-written specification lean/Mhd/Model/Protocol.lean (re-implemented in tools/props/C05.py ProtocolOracle)",
                    "tools/props/C05.py gen_connstate (enum order via the real headers; repair probes are syntactic)",
                    "scheduling glue lean/Driver/SM.lean (event loop, socketpair abstraction; its traces are re-run through the model)",
                    "harness/h_sm.c, gcc, ASan/UBSan/LSan"]
    assumptions = ["HTTP parsers abstracted to tokens (what each byte position completes is given by the generator)",
                   "application: handler consumes at most what it is shown; MHD_queue_response outside the handler only for a request "
                   "the application has been shown; interim responses: 102 only (other 1xx codes end the request like a final one, as in "
                   "the code); upgrade: non-TLS daemon, the upgraded socket itself is not used, MHD_UPGRADE_ACTION_CLOSE or daemon stop ends it",
                   "external polling modes (select, epoll); thread-per-connection shutdown path (mark_closed_ only) not modelled",
                   "the daemon applies the connection events of Mhd.ConnSM.Ev only (cleanup only after cleanup_connection / close_connection)",
                   "upload completeness: proved in Lean for Content-Length framing (upload_accounting / upload_complete_length: taken + still to "
                   "come = Content-Length, whole body before the final call and before COMPLETED_OK unless the upload was discarded by an early "
                   "response or an error); for chunked framing the total is only known from the stream: contiguity, order, re-presentation of the "
                   "declined suffix and 'nothing remains from BODY_RECEIVED on' are proved, equality with the bytes the client sent is checked by the "
                   "oracle on the real log",
                   "replies of the application in 300-byte arenas and the position inside an over-long element where the arena is "
                   "exhausted are not generated (pool arithmetic is C08's model, not this one)"]

    def gen(self, ctx):
        gen_connstate(ctx.notes if hasattr(ctx, "notes") else None)

    def build(self, ctx):
        self.harness = vlib.build_daemon_harness(name="h_sm", src="harness/h_sm.c", ldextra=["-Wl,--wrap=calloc", "-ldl"])
        self.driver = vlib.driver_path("drv_sm")

    # ------------------------------------------------------------------
    def run_batch(self, cases, failures, stats):
        lines = [l for cs in cases for l in cs.lines]
        hout, hrc, herr = vlib.run_lines(self.harness, lines, timeout=int(os.environ.get("C05_HARNESS_TIMEOUT", "300")))
        mout, mrc, merr = vlib.run_lines(self.driver, lines, timeout=900)
        hc, mc = split_cases(hout), split_cases(mout)
        flagged = 0
        for cs in cases:
            hl, ml = hc.get(cs.name), mc.get(cs.name)
            if hl is None or ml is None:
                continue
            stats["cases"] += 1
            orc = ProtocolOracle(cs.bodies, f30=getattr(self, "f30_run", True))
            for l in hl:
                try:
                    orc.feed(l)
                except (KeyError, ValueError, IndexError):
                    if not (hrc != 0 and l is hl[-1]):      # a truncated last line belongs to the crash below
                        orc.err("malformed log record: " + l[:100])
            complete = any(l == "stopped" for l in hl)
            stats["f30_null_extra"] = stats.get("f30_null_extra", 0) + orc.f30_seen
            if orc.errors:
                flagged += 1
                failures.append(vlib.Failure("oracle", case_signature(cs, orc.errors[0]), "; ".join(orc.errors), cs.lines, "sm"))
                stats["oracle_rejects"] += 1
                continue
            if not complete:
                continue
            if cs.oracle_only:
                stats["oracle_only"] += 1
                # the completion callback runs in state FULL_REQ_RECEIVED only in the "release everything" branch
                if any(l.startswith("completed ") and " state=%d " % [k for k, v in SITE_OF_STATE.items() if v == "final"][0] in l + " "
                       for l in hl):
                    stats["release_everything_hits"] += 1
                continue
            hp, hs, hf = canon(hl, True)
            mp, ms, mf = canon(ml, False)
            for l in ml:
                if l.startswith("model-check") and ("accepts=false" in l or "complete=false" in l or "fault=true" in l or "same=false" in l):
                    failures.append(vlib.Failure("model", case_signature(cs, "model-side monitor: " + l), l, cs.lines, "sm"))
            if hp != mp or hf != mf:
                det = "canonical callback sequence differs: code=%r model=%r" % (hp, mp) if hp != mp else \
                      "free callbacks differ: code=%r model=%r" % (hf, mf)
                failures.append(vlib.Failure("diff", case_signature(cs, "model/code differ"), det, cs.lines, "sm"))
                stats["diffs"] += 1
            elif hs != ms:
                stats["strict_drift"] += 1
            for c, toks in hp.items():
                for t in toks:
                    if t.startswith("done:"):
                        stats["codes"][t[5:]] = stats["codes"].get(t[5:], 0) + 1
                    elif t.startswith("sst:"):
                        stats["states"][t.split(":")[1]] = stats["states"].get(t.split(":")[1], 0) + 1
                stats["sigs"].add(tuple(t for t in toks if not t.startswith("sst")))
                stats["handler_calls"] += sum(1 for t in toks if t in ("first", "final") or t.startswith("up:"))
                stats["interim_continuations"] += sum(1 for t in toks if t == "interim")
                stats["upgrades"] += sum(1 for t in toks if t == "upgrade")
            arr_ok = set(int(l.split()[1].partition("=")[2]) for l in hl if l.startswith("arrive ") and l.endswith("-> 1"))
            started = set(c for c, toks in hp.items() if "start" in toks)
            stats["adm_refused_at_add"] = stats.get("adm_refused_at_add", 0) + sum(1 for l in hl if l.startswith("arrive ") and l.endswith("-> 0"))
            stats["adm_queued_never_announced"] = stats.get("adm_queued_never_announced", 0) + len(arr_ok - started)
            stats["adm_start_and_close_at_once"] = stats.get("adm_start_and_close_at_once", 0) + \
                sum(1 for c, toks in hp.items() if [t for t in toks if not t.startswith("sst")] == ["start", "close"])
            stats["adm_announced"] = stats.get("adm_announced", 0) + len(started)
            stats["upgrade_responses_accepted"] += sum(1 for l in hl if l.startswith("queued ") and " code=101 -> 1" in l)
            stats["upgrades_closed_by_application"] += sum(1 for l in hl if l.startswith("up-close ") and l.endswith("-> 1"))
            stats["interim_responses_accepted"] += sum(1 for l in hl if l.startswith("queued ") and " code=102 -> 1" in l)
        if hrc != 0:
            leak = "LeakSanitizer" in herr
            if not (leak and flagged):
                # crash / sanitizer report not explained by an oracle finding: attribute to the last case seen
                last = None
                for cs in cases:
                    if cs.name in hc:
                        last = cs
                failures.append(vlib.Failure("sanitizer", "sm: harness %s" % ("did not terminate (busy loop in the library?)" if hrc == -999 else
                                                                              "aborted (%s)" % ("leak" if leak else "rc=%d" % hrc)),
                                             herr[-2000:], (last.lines if last and not leak else lines[:400]), "sm"))
        if mrc != 0:
            failures.append(vlib.Failure("model", "sm: driver failed rc=%d" % mrc, merr[-1000:], lines[:200], "sm"))

    def explore(self, ctx, boost):
        failures = []
        stats = {"cases": 0, "oracle_rejects": 0, "diffs": 0, "strict_drift": 0, "codes": {}, "states": {}, "sigs": set(),
                 "handler_calls": 0, "oracle_only": 0, "release_everything_hits": 0, "interim_continuations": 0, "upgrades": 0,
                 "upgrade_responses_accepted": 0, "upgrades_closed_by_application": 0, "interim_responses_accepted": 0}
        thorough = ctx.tier == "thorough"
        cases = []
        cdir = os.path.join(vlib.VERIF, "corpus", "sm")
        ncorp = 0
        if os.path.isdir(cdir):
            for f in sorted(os.listdir(cdir)):
                j = json.load(open(os.path.join(cdir, f)))
                cs = Case(j["name"]); cs.lines = j["lines"]; cs.tags = j.get("tags", ["corpus"])
                cs.bodies = {tuple(int(x) for x in k.split(",")): bytes.fromhex(v) for k, v in j.get("bodies", {}).items()}
                cases.append(cs); ncorp += 1
        cases += gen_fault_cases()
        nfault = len(cases) - ncorp
        cases += gen_outq_cases()
        noutq = len(cases) - ncorp - nfault
        cases += gen_admission_cases()
        nadm = len(cases) - ncorp - nfault - noutq
        cases += gen_interim_upgrade_cases()
        # finding F31 (repaired in /repo by ab938c0): the scripts always run and the NULL-extra oracle flag is always on, so that
        # a return of the defect is reported; the syntactic probe only goes into the evidence
        f30_fixed = interim_buffer_fixed()
        f30_run = True
        global INTERIM_ONLY_LAST
        INTERIM_ONLY_LAST = not f30_run
        self.f30_run = f30_run
        if f30_run:
            cases += gen_interim_pipelined_cases()
        niu = len(cases) - ncorp - nfault - noutq - nadm
        nadm_only = nadm
        cases += gen_poolfull_cases(thorough)
        npool = len(cases) - ncorp - nfault - noutq - niu - nadm
        # bounded-exhaustive: one action at every placement x every handler behaviour, on every shape
        placements = []
        shapes = NORMAL_SHAPES + SMALL_SHAPES
        for si, sf in enumerate(shapes):
            nb = len(sf().bounds()) + 1
            for p in range(nb):
                for mid in (False, True):
                    for action in ("none", "shutwr", "cclose", "tick", "stop", "tick1stop", "shutwr1stop", "cclose1stop"):
                        for bi, beh in enumerate(BEHS):
                            placements.append((si, p, mid, action, bi))
        nplace_all = len(placements)
        # quick: the whole grid, polling mode and URI-log registration alternate from point to point (seed-dependent
        # phase); thorough: the whole grid in both modes, with and without the URI-log callback
        off = ctx.rng.randrange(4)
        npl = 0
        for j, (si, p, mid, action, bi) in enumerate(placements):
            if thorough:
                combos = [(m, u) for m in ("select", "epoll") for u in (True, False)]
            else:
                k = (j + off) % 4
                combos = [(("select", "epoll")[k % 2], k != 1)]
            for mode, uri in combos:
                cs = gen_placement(shapes[si], mode, BEHS[bi], p, action, "pipeline" if (j % 3 == 0) else "end", mid, urilog=uri,
                                   upclose=(((j // 3) + off) % 2 == 0))
                if cs is not None:
                    cases.append(cs); npl += 1
        nrand = (30000 if thorough else 3000) * (3 if boost else 1)
        for i in range(nrand):
            cases.append(gen_random(ctx.rng, i))
        B = 400
        for i in range(0, len(cases), B):
            self.run_batch(cases[i:i + B], failures, stats)
            if len(failures) > 30:
                break
        sigs = stats.pop("sigs")
        cov = {"evaluations": stats["cases"], "distinct_nontrivial": len(sigs),
               "rule": "histories run on the real daemon (h_sm) and on the model driver; distinct = different canonical per-connection "
                       "callback sequences observed on the real code; bounded-exhaustive grid = request shape x phase boundary (and "
                       "mid-element) x {none,half-close,abrupt close,timeout,stop, and the first three followed by one round + stop} x handler behaviour x mode "
                       "(%d grid points, all of them in both tiers; %s); random = 1..2 connections, pipelined requests, random "
                       "fragments and actions; plus fixed fault-injection scripts and scripts with MHD_queue_response outside the handler"
                       % (nplace_all, "each in both polling modes, with and without URI-log callback" if thorough else
                          "polling mode and URI-log registration alternate from point to point"),
               "samples": [cases[ncorp + nfault + noutq + nadm + niu + npool].lines if len(cases) > ncorp + nfault + noutq + nadm + niu + npool else [], cases[-1].lines],
               "placements": npl, "outside_handler_reply_scripts": noutq, "interim_upgrade_scripts": niu, "admission_scripts (limits 1..3, bursts, per-IP, accept policy, epoll_ctl failure)": nadm_only,
               "interim_reply_with_pipelined_bytes (F30)": ("run (connection_shrink_read_buffer keeps an exactly sized buffer)" if f30_fixed else
                                                            "run although the tree lacks the repair (C05_F30=1)" if f30_run else
                                                            "NOT run: the tree lacks the F30 repair (pipelined bytes behind a request answered with a "
                                                            "102 reply are lost; set C05_F30=1 to see it); random histories use interim replies only "
                                                            "for the last request of a connection"), "pool_nearly_full_error_reply_histories (oracle only)": npool, "placement_grid_per_mode": nplace_all, "random_histories": nrand, "fault_scripts": nfault,
               "corpus": ncorp, "exhaustive": True,
               "exhaustive_domain": "the placement grid (shape x phase x mid x action x handler behaviour); modes x URI-log fully only in the thorough tier",
               "outcomes": {"completion_codes": stats["codes"], "settled_states": stats["states"], "handler_call_tokens": stats["handler_calls"],
                            "oracle_rejects": stats["oracle_rejects"], "canonical_diffs": stats["diffs"],
                            "admission": {"connections announced (STARTED … CLOSED)": stats.get("adm_announced", 0),
                                          "refused by MHD_add_connection (limit quick check, per-IP, accept policy): no notification": stats.get("adm_refused_at_add", 0),
                                          "queued, never announced (firm limit check, or daemon stopped first): no notification": stats.get("adm_queued_never_announced", 0),
                                          "STARTED and CLOSED only (admission failed after STARTED, or closed unused)": stats.get("adm_start_and_close_at_once", 0)},
                            "interim_102": {"responses_accepted": stats["interim_responses_accepted"],
                                            "handler_asked_again_after_complete_interim_reply": stats["interim_continuations"]},
                            "upgrade_101": {"responses_accepted": stats["upgrade_responses_accepted"],
                                            "upgrade_handler_calls": stats["upgrades"],
                                            "closed_by_application (the others by daemon stop)": stats["upgrades_closed_by_application"]},
                            "upgrade handler given a NULL extra-data pointer with non-zero size (F30; %s)" %
                            ("flagged" if f30_run else "NOT flagged, see interim_reply_with_pipelined_bytes"): stats.get("f30_null_extra", 0),
                            "oracle_only_histories": stats["oracle_only"],
                            "of_these_reaching_the_release_everything_branch": stats["release_everything_hits"],
                            "strict_partition_drift (reported, not an alarm)": stats["strict_drift"]}}
        return failures, cov


def replay(ctx, path):
    r = json.load(open(path))
    sp = Spec(); sp.gen(ctx); vlib.lake_build(sp.lean_targets); sp.build(ctx)
    cs = Case("replay")
    lines = r["input"] if "input" in r else r.get("disagreements", [{}])[0].get("input", [])
    cs.lines = ["case replay"] + [l for l in lines if not l.startswith("case ")]
    fl = []
    st = {"cases": 0, "oracle_rejects": 0, "diffs": 0, "strict_drift": 0, "codes": {}, "states": {}, "sigs": set(), "handler_calls": 0,
          "oracle_only": 0, "release_everything_hits": 0, "interim_continuations": 0, "upgrades": 0,
          "upgrade_responses_accepted": 0, "upgrades_closed_by_application": 0, "interim_responses_accepted": 0}
    sp.run_batch([cs], fl, st)
    hout, _, _ = vlib.run_lines(sp.harness, cs.lines)
    mout, _, _ = vlib.run_lines(sp.driver, cs.lines)
    print("harness:"); print("\n".join(l[:200] for l in hout if l.split() and l.split()[0] not in ("wire", "hint", "conns", "st")))
    print("model:"); print("\n".join(mout))
    for f in fl:
        print(f.kind, f.signature, f.detail[:500])
    print("verdicts: oracle=%s diff=%s model=%s" % (any(f.kind == "oracle" for f in fl), any(f.kind == "diff" for f in fl),
                                                    any(f.kind == "model" for f in fl)))
    return 1 if fl else 0
