"""Buffer-layer (engine `mem`) correspondence for C01: real static functions of
connection.c vs Mhd.Model.ConnMem, plus an independent window oracle."""
import itertools, json, re
import vlib


def kv(line):
    d = {}
    for w in line.split():
        if "=" in w:
            k, _, v = w.partition("=")
            d[k] = v
    return d


def oracle(op, line, size):
    """independent statement: every window inside the arena, cursors ordered, windows disjoint"""
    if line == "bad-op":
        return None
    d = kv(line)
    try:
        pos, end = int(d["pos"]), int(d["end"])
        rbs, rbo = int(d["rbs"]), int(d["rbo"])
        wbs, wba, wbn = int(d["wbs"]), int(d["wba"]), int(d["wbn"])
    except (KeyError, ValueError):
        return "unparsable state line: " + line[:80]
    if not (pos <= end <= size):
        return "pool cursors out of order"
    if rbo > rbs:
        return "read fill beyond read buffer size"
    if not (wbn <= wba <= wbs):
        return "write offsets out of order"
    rb = None if d["rb"] == "null" else int(d["rb"])
    wb = None if d["wb"] == "null" else int(d["wb"])
    if rbs and (rb is None or rb + rbs > pos or rb + rbs > size):
        return "read window [%s,+%d) outside the allocated front region (pos=%d)" % (rb, rbs, pos)
    if wbs and (wb is None or wb + wbs > pos or wb + wbs > size):
        return "write window [%s,+%d) outside the allocated front region (pos=%d)" % (wb, wbs, pos)
    if rbs and wbs and not (rb + rbs <= wb or wb + wbs <= rb):
        return "read and write windows overlap"
    if op[0] == "alloc" and d.get("ptr", "null") != "null":
        p, n = int(d["ptr"]), int(op[1])
        if p % 16 or p + n > size or p < end:
            return "allocated block [%d,+%d) not inside the back region" % (p, n)
    return None


def gen_seq(rng):
    ps = rng.choice([64, 128, 256, 512, 1024, 1536, 2048, 4096, 32768])
    inc = rng.choice([0, 16, 64, 256, 1500, 4000])
    ops = [["init", str(ps), str(inc)]]
    for _ in range(rng.randint(4, 22)):
        r = rng.random()
        sm = rng.choice([0, 1, 2, 7, 16, 17, 40, ps // 8, ps // 4, ps // 2, ps])
        if r < 0.17:
            ops.append(["grow", str(rng.randint(0, 1))])
        elif r < 0.36:
            ops.append(["recv", str(rng.choice([sm, 1, 5, 100000]))])
        elif r < 0.52:
            ops.append(["consume", str(sm)])
        elif r < 0.55:
            ops.append(["shiftback", str(rng.choice([1, 2, sm]))])
        elif r < 0.58:
            ops.append(["bodydrop", str(rng.choice([1, 5, sm]))])
        elif r < 0.72:
            ops.append(["alloc", str(rng.choice([sm, 0, 24, (1 << 64) - 1, (1 << 64) - 20, 1 << 63]))])
        elif r < 0.78:
            ops.append(["shrinkread"])
        elif r < 0.84:
            ops.append(["maxwrite"])
        elif r < 0.90:
            ops.append(["wappend", str(sm)])
        elif r < 0.94:
            ops.append(["wsend", str(sm)])
        elif r < 0.97:
            ops.append(["reset"])
        elif r < 0.985:
            ops.append(["errrelease"])
        else:
            ops.append(["errreset"])
    return ops


def gen_exh(length):
    alpha = [["grow", "0"], ["grow", "1"], ["recv", "1"], ["recv", "31"], ["recv", "64"], ["consume", "1"], ["consume", "30"],
             ["shiftback", "1"], ["bodydrop", "3"], ["alloc", "8"], ["alloc", "40"], ["alloc", "18446744073709551615"], ["shrinkread"], ["maxwrite"],
             ["wappend", "5"], ["wsend", "5"], ["reset"], ["errrelease"], ["errreset"]]
    for ps, inc in ((128, 16), (256, 1500)):
        for combo in itertools.product(alpha, repeat=length):
            yield [["init", str(ps), str(inc)]] + [list(o) for o in combo]


def run_batch(harness, driver, seqs, failures, stats):
    lines = [" ".join(o) for s in seqs for o in s]
    hout, hrc, herr = vlib.run_lines(harness, lines)
    mout, mrc, merr = vlib.run_lines(driver, lines)
    if hrc != 0:
        pos, k = len(hout), 0
        for s in seqs:
            if k + len(s) > pos:
                failures.append(vlib.Failure("sanitizer", "mem: harness aborted (rc=%d)" % hrc, herr[-1500:],
                                             [" ".join(o) for o in s], "mem"))
                break
            k += len(s)
        return
    k = 0
    for s in seqs:
        size = None
        for j, o in enumerate(s):
            h = hout[k + j] if k + j < len(hout) else ""
            m = mout[k + j] if k + j < len(mout) else ""
            if o[0] == "init":
                mm = re.search(r"size=(\d+)", h)
                size = int(mm.group(1)) if mm else 0
            e = oracle(o, h, size or 0)
            if e:
                failures.append(vlib.Failure("oracle", "mem: " + re.sub(r"\d+", "N", e), e + " after " + " ".join(o),
                                             [" ".join(x) for x in s[:j + 1]], "mem"))
                break
            if h != m:
                failures.append(vlib.Failure("diff", "mem: model/code differ on " + o[0],
                                             "op %s: code '%s' model '%s'" % (" ".join(o), h, m),
                                             [" ".join(x) for x in s[:j + 1]], "mem"))
                break
            if h == "bad-op":
                stats["badop"] += 1
            else:
                stats[o[0]] = stats.get(o[0], 0) + 1
        k += len(s)


def explore(ctx, harness, driver, boost):
    failures, stats = [], {"badop": 0}
    n = (100000 if ctx.tier == "thorough" else 12000) * (3 if boost else 1)
    rnd = [gen_seq(ctx.rng) for _ in range(n)]
    exh = list(gen_exh(3 if ctx.tier == "thorough" else 2))
    allseqs = exh + rnd
    for i in range(0, len(allseqs), 3000):
        run_batch(harness, driver, allseqs[i:i + 3000], failures, stats)
        if len(failures) > 20:
            break
    cov = {"evaluations": len(allseqs), "distinct_nontrivial": len({json.dumps(s) for s in allseqs}),
           "exhaustive_sequences": len(exh), "random_sequences": len(rnd), "ops_executed": stats,
           "sample": [" ".join(o) for o in rnd[0]]}
    return failures, cov


def replay_one(harness, driver, lines):
    fl, st = [], {"badop": 0}
    run_batch(harness, driver, [[l.split() for l in lines]], fl, st)
    for f in fl:
        print(f.kind, f.signature, f.detail)
    return 1 if fl else 0
