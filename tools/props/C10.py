"""C10 — inactivity timeouts and the sleep hint are exact.  Engine `tmo`.

Correspondence: harness/h_tmo.c (real daemon, virtual clock, white-box dump of the timeout
lists) and lean/Driver/Tmo.lean (model) execute the same histories; every output line is
compared.  Independent oracle: per-connection bookkeeping, knows nothing about lists."""
import itertools, json, os, re
import vlib

ENGINE = "tmo"
CLOCK0 = 1000000
GENFILE = os.path.join(vlib.LEAN, "Mhd", "Gen", "Tmo.lean")

# ----------------------------------------------------------------------------- (A) Gen

PROBES = {
    # flag -> (script, line index whose output differs, predicate on the harness line => flag is True)
    "optSortedInsert": (["cfg mode=select timeout=10", "start", "arrive 0", "arrive 1", "round", "set-timeout 0 5",
                         "tick 3000", "send 1", "round", "tick 1000", "set-timeout 0 10"],
                        lambda l: " N=[1,0] " in l),
    "optWhileSuspended": (["cfg mode=select timeout=10", "start", "arrive 0", "round", "susp 0", "send 0", "round",
                           "set-timeout 0 3"],
                          lambda l: "get3" in l),
    "stampAtProcess": (["cfg mode=select timeout=10", "start", "arrive 0", "tick 2000", "round"],
                       lambda l: " 0:%d:" % (CLOCK0 + 2000) in l),
    "hintCmpSafe": (["cfg mode=select timeout=10", "start", "arrive 0", "arrive 1", "round", "set-timeout 0 1",
                     "set-timeout 1 7", "tick 2000", "send 1", "round"],
                    lambda l: " hint=0 " in l),
    "selectSavesPrev": (["cfg mode=select timeout=10", "start", "arrive 0", "arrive 1", "round", "cclose 0",
                         "tick 11000", "round"],
                        lambda l: " 1:%d:10000:x" % CLOCK0 in l),
    # call_handlers only raises data_already_pending: an idle connection handled after one with pending work
    # (slow handler left upload bytes in the buffer) does not clear it -- select loop, pending one is the older
    "pendingAccumulates": (["cfg mode=select timeout=10", "start", "arrive 0", "arrive 1", "round", "slow 0", "sendn 0 4",
                            "round"],
                           lambda l: " hint=0 " in l and " fl=d " in l),
    # F11e: a connection stamped after a small backward clock jump goes to its sorted place, not to the head
    "actSortedInsert": (["cfg mode=select timeout=10", "start", "arrive 0", "arrive 1", "round", "tick 1000", "send 0",
                         "round", "tickback 300", "send 1", "round"],
                        lambda l: " N=[0,1] " in l),
}
FLAGS = ("optSortedInsert", "optWhileSuspended", "stampAtProcess", "hintCmpSafe", "selectSavesPrev", "actSortedInsert",
         "pendingAccumulates")
HARNESS_EXCLUDE = ("mhd_mono_clock.c", "daemon.c")     # daemon.c is #included by the harness (white-box `conv`)


def build_harness():
    return vlib.build_daemon_harness(name="h_tmo", src="harness/h_tmo.c", exclude=HARNESS_EXCLUDE)


def _const(pattern, text, name, default):
    m = re.search(pattern, text, re.S)
    if m:
        return m.group(1)
    from extract import prev_value
    return prev_value("Tmo.lean", name, default)


SEND_STATES = ("MHD_CONNECTION_CONTINUE_SENDING", "MHD_CONNECTION_HEADERS_SENDING", "MHD_CONNECTION_NORMAL_BODY_READY",
               "MHD_CONNECTION_CHUNKED_BODY_READY", "MHD_CONNECTION_FOOTERS_SENDING")


def activity_sites():
    """every call of MHD_update_last_activity_ in the library: enclosing function, the `case MHD_CONNECTION_…:` labels
    it sits under (for switch-on-state functions), and its position: afterSend = a send call precedes it in the same
    case block / function, unconditional = no completion test (check_write_done call, comparison of the send offset
    with the amount to send, `return` that depends on them) lies between that send and the call -- i.e. the timer is
    restarted by EVERY send that made progress, not only by the one that empties the buffer."""
    from extract import src
    sites = []
    for fn in ("connection.c", "daemon.c", "connection_https.c", "mhd_send.c", "response.c"):
        try:
            text = src("src/microhttpd/" + fn)
        except Exception:
            continue
        lines = text.split("\n")
        func, fstart = None, 0
        for n, ln in enumerate(lines):
            m = re.match(r"^([A-Za-z_][A-Za-z0-9_]*) \(", ln)
            if m and n + 1 < len(lines) and not ln.rstrip().endswith(";"):
                func, fstart = m.group(1), n
            if "MHD_update_last_activity_ (" in ln and func != "MHD_update_last_activity_" and func:
                body = lines[fstart:n]
                # the case labels directly above (a run of labels counts as one block)
                k = len(body) - 1
                while k >= 0 and not re.match(r"\s*case MHD_CONNECTION_", body[k]):
                    k -= 1
                states, blockstart = [], 0
                if k >= 0:
                    blockstart = k
                    while k >= 0 and re.match(r"\s*case MHD_CONNECTION_", body[k]):
                        states.append(re.match(r"\s*case (MHD_CONNECTION_[A-Z_0-9]+)", body[k]).group(1)); k -= 1
                block = "\n".join(body[blockstart:])
                ms = list(re.finditer(r"MHD_send_[a-z_]+ \(|gnutls_record_send \(|\brecv_cls \(|MHD_recv_|->recv_cls", block))
                after = bool(ms)
                tail = block[ms[-1].end():] if ms else block
                # what may stand between the send and the call without making it conditional on completion:
                # the error branch `if (ret < 0) { ... return; }`, logging, the offset bookkeeping
                cond = bool(re.search(r"check_write_done \(|write_buffer_append_offset\s*(==|!=|<=|>=)|"
                                      r"(==|!=)\s*connection->write_buffer_append_offset|total_size\s*==|"
                                      r"!= connection->state\)\s*\n\s*return", tail))
                early = bool(re.search(r"\breturn\b", "\n".join(body))) and not states and func == "check_write_done"
                for st in (states or ["-"]):
                    sites.append((func, st, after, after and not cond and not early))
    return sites


def gen_tmo(harness=None):
    """constants by source pattern (fallback: last committed value, the correspondence decides);
    the behaviour flags by running six probe scripts on the real code; the type sizes the conversion
    model (Mhd.Model.TmoConv) is written for are checked against MHD_config.h"""
    from extract import src, HEADER
    conn = src("src/microhttpd/connection.c")
    dae = src("src/microhttpd/daemon.c")
    m = re.search(r"connection_get_wait \(struct MHD_Connection \*c\)(.*?)\n}\n", dae, re.S)
    body = m.group(1) if m else ""
    jb = _const(r"if \((\d+) >= jump_back\)", body, "jumpBackLimit", "5000")
    jb2 = _const(r"connection_check_timedout.*?if \((\d+) >= jump_back\)", conn, "jumpBackLimit", jb)
    if jb != jb2:   # the two functions must stay in sync; if they do not, model the close decision
        jb = jb2
    half = "9223372036854775807" if re.search(r"UINT64_MAX / 2 < since_actv", body) else \
        _const(r"$^", "", "halfRange", "9223372036854775807")
    gran = _const(r"else if \(since_actv == timeout\).*?return (\d+);", body, "granularity", "100")
    mps = _const(r"connection->connection_timeout_ms = \(\(uint64_t\) ui_val\) \* (\d+);", conn, "msPerSec", "1000")
    cfgh = open("/repo/MHD_config.h").read()
    sizes = {k: int(re.search(r"#define %s (\d+)" % k, cfgh).group(1)) for k in
             ("SIZEOF_INT", "SIZEOF_UINT64_T", "SIZEOF_UNSIGNED_LONG_LONG", "SIZEOF_STRUCT_TIMEVAL_TV_SEC")}
    if sizes != {"SIZEOF_INT": 4, "SIZEOF_UINT64_T": 8, "SIZEOF_UNSIGNED_LONG_LONG": 8, "SIZEOF_STRUCT_TIMEVAL_TV_SEC": 8}:
        raise RuntimeError("Mhd.Model.TmoConv models the LP64 configuration, MHD_config.h says %s" % sizes)
    # the two inline conversions of thread_main_handle_connection / MHD_select have no function to call:
    # the modelled expressions are tied to the source text
    for pat in (r"tv\.tv_sec = \(_MHD_TIMEVAL_TV_SEC_TYPE\) mseconds_left / 1000;",
                r"tv\.tv_usec = \(\(uint16_t\) \(mseconds_left % 1000\)\) \* \(\(int32_t\) 1000\);",
                r"if \(mseconds_left >= INT_MAX\)\s+timeout_val = INT_MAX;\s+else\s+#endif[^\n]*\n\s+timeout_val = \(int\) mseconds_left;",
                r"timeout\.tv_sec = \(_MHD_TIMEVAL_TV_SEC_TYPE\) \(select_tmo / 1000\);",
                r"timeout\.tv_usec = \(\(uint16_t\) \(select_tmo % 1000\)\) \* \(\(int32_t\) 1000\);",
                r"if \( \(0 < millisec\) &&\s+\(mhd_tmo > \(uint64_t\) millisec\) \)\s+select_tmo = \(uint64_t\) millisec;\s+else\s+select_tmo = mhd_tmo;"):
        if not re.search(pat, dae):
            raise RuntimeError("daemon.c: inline timeout conversion no longer matches the modelled text: " + pat)
    if harness is None:
        harness = build_harness()
    flags = {}
    for name, (script, pred) in PROBES.items():
        out, rc, err = vlib.run_lines(harness, ["case probe"] + script)
        if rc != 0 or len(out) != len(script) + 1:
            raise RuntimeError("probe %s failed on the real code: rc=%s %s" % (name, rc, err[-500:]))
        flags[name] = pred(out[-1] + " ")
    out = "-- GENERATED by tools/props/C10.py (gen_tmo) from src/microhttpd/connection.c, daemon.c — do not edit\n" \
        "namespace Mhd.Gen.Tmo\n" \
        "/-- `5000 >= jump_back` in connection_check_timedout / connection_get_wait -/\n" \
        "def jumpBackLimit : Nat := %s\n" \
        "/-- `UINT64_MAX / 2 < since_actv` -/\n" \
        "def halfRange : Nat := %s\n" \
        "/-- `return 100` (exact match / recovered jump back) in connection_get_wait -/\n" \
        "def granularity : Nat := %s\n" \
        "/-- seconds -> milliseconds factor of MHD_CONNECTION_OPTION_TIMEOUT / MHD_OPTION_CONNECTION_TIMEOUT -/\n" \
        "def msPerSec : Nat := %s\n" \
        "/-- behaviour of this tree, probed on the real code by six tiny scripts (see gen_tmo) -/\n" % (jb, half, gran, mps)
    for name in FLAGS:
        out += "def %s : Bool := %s\n" % (name, "true" if flags[name] else "false")
    sites = activity_sites()
    out += "/-- every call site of `MHD_update_last_activity_` (source scan, see activity_sites in tools/props/C10.py):\n" \
           "    enclosing function, state (`case` label it sits under, \"-\" if none), a send/recv call precedes it in that\n" \
           "    block, and no completion test lies between that call and the site (the timer is restarted by every\n" \
           "    transfer that made progress, not only by the one that empties the buffer) -/\n" \
           "def activitySites : List (String × String × Bool × Bool) := [\n"
    out += ",\n".join('  ("%s", "%s", %s, %s)' % (f, st, "true" if a else "false", "true" if u else "false") for f, st, a, u in sites)
    out += "]\n/-- the states in which `MHD_connection_handle_write` sends -/\n"
    out += "def sendStates : List String := [%s]\n" % ", ".join('"%s"' % x for x in SEND_STATES)
    out += "end Mhd.Gen.Tmo\n"
    vlib.write_if_changed(GENFILE, out)
    return flags


# ----------------------------------------------------------------------------- log parsing

LINE = re.compile(r"^(?P<echo>.*?) ev=\[(?P<ev>[^\]]*)\] hint=(?P<hint>\S+) now=(?P<now>\d+) fl=(?P<fl>\S*) "
                  r"C=\[(?P<C>[^\]]*)\] N=\[(?P<N>[^\]]*)\] M=\[(?P<M>[^\]]*)\] S=\[(?P<S>[^\]]*)\] E=\[(?P<E>[^\]]*)\] \|(?P<cs>.*)$")


def parse(line):
    m = LINE.match(line)
    if not m:
        return None
    g = m.groupdict()
    il = lambda s: [int(x) for x in s.split(",") if x]
    cs = {}
    for w in g["cs"].split():
        a = w.split(":")
        mb = re.search(r"b(\d+)", a[3])
        cs[int(a[0])] = {"la": int(a[1]), "tmo": int(a[2]), "s": "s" in a[3], "r": "r" in a[3], "x": "x" in a[3],
                         "p": "p" in a[3], "b": int(mb.group(1)) if mb else 0}
    return {"ev": [e for e in g["ev"].split(",") if e], "hint": None if g["hint"] == "none" else int(g["hint"]),
            "now": int(g["now"]), "fl": g["fl"], "C": il(g["C"]), "N": il(g["N"]), "M": il(g["M"]), "S": il(g["S"]),
            "E": il(g["E"]), "cs": cs}


# ----------------------------------------------------------------------------- oracle

class Oracle:
    """C10 re-stated over the script and what the real code reported.  Per-connection
    bookkeeping only: expected timeout from the script, idle time from the reported
    last-activity stamp (itself checked against the script), suspended state from the
    callbacks.  Knows nothing about the daemon's lists or the Lean model.
    Clock: `hw` is the highest value the virtual clock has shown; the jump is "small" while
    hw - now <= 5000.  Idle time is now - last_activity on the virtual clock (negative while
    the clock is behind the stamp).  With a small displacement everything is claimed; with a
    larger one only the function-level rule and what does not depend on the clock."""

    def __init__(self, mode, dflt):
        self.mode, self.dflt = mode, dflt * 1000
        self.texp = {}          # expected timeout (ms) per connection, from the script alone
        self.prev = None        # previous parsed line
        self.susp = set()       # suspended as far as the callbacks / script say
        self.resume_req = set()
        self.hw = CLOCK0        # high-water mark of the virtual clock
        self.sent_at = {}       # c -> virtual time of the oldest client byte not yet certainly read
        self.sent_rounds = {}   # c -> clock values of the rounds since then (a read stamps one of them)
        self.lastio = {}        # c -> virtual time of the last send that made progress (partial or complete)
        self.elig = {}          # c -> number of complete rounds since then in which c could read
        self.client_closed = set()

    def feed(self, op, line):
        p = parse(line)
        if p is None:
            return None if line == "bad-op" else "harness: " + line
        w = op.split()
        k = w[0]
        prev = self.prev if self.prev is not None else {"cs": {}, "now": CLOCK0, "S": [], "C": []}
        now, cs, pcs = p["now"], p["cs"], prev["cs"]
        err = None
        closed_to = [int(e[2:]) for e in p["ev"] if e.startswith("to")]
        closed_other = [int(e[2:].split(":")[0]) for e in p["ev"] if e.startswith("co")]
        newly_x = [c for c in cs if cs[c]["x"] and not (c in pcs and pcs[c]["x"])]
        self.hw = max(self.hw, now)
        back = self.hw - now
        small = back <= 5000
        if k == "arrive":
            self.texp[int(w[1])] = self.dflt
        if k == "cclose":
            self.client_closed.add(int(w[1]))
        if k == "set-timeout":
            c, s = int(w[1]), int(w[2])
            self.texp[c] = s * 1000
            if ("get%d" % s) not in p["ev"]:
                err = "override: application set %d s on connection but reads back %s" % (s, [e for e in p["ev"] if e.startswith("get")])
        if k in ("send", "sendp"):
            self.sent_at.setdefault(int(w[1]), now)
            self.elig.setdefault(int(w[1]), 0)
            self.sent_rounds.setdefault(int(w[1]), set())
        if k == "resume":
            self.resume_req.add(int(w[1]))
        for e in p["ev"]:
            if e.startswith("su"):
                self.susp.add(int(e[2:]))
        # ---- every reported timeout is the expected one (override takes effect immediately)
        for c in cs:
            if c in self.texp and cs[c]["tmo"] != self.texp[c] and not err:
                err = "override: connection has timeout %d ms, the application set %d ms" % (cs[c]["tmo"], self.texp[c])
        # ---- I/O progress is activity: a send that moved bytes (event w<c>) restarts the timer
        for e in p["ev"]:
            mw = re.fullmatch(r"w(\d+)", e)
            if mw:
                c = int(mw.group(1))
                self.lastio[c] = now
                if c in cs and cs[c]["tmo"] != 0 and not cs[c]["x"] and not cs[c]["s"] and cs[c]["la"] != now and not err:
                    err = "send progress at %d not registered as activity (last_activity %d)" % (now, cs[c]["la"])
        for c in cs:       # a later recv is I/O progress too (it may carry a LOWER clock value after a backward jump)
            if c in self.lastio and c in pcs and cs[c]["la"] != pcs[c]["la"]:
                self.lastio[c] = now
        if k == "round":
            # ---- never closed for inactivity while the gap since the last I/O progress is <= T
            for c in newly_x:
                if c in closed_to and c in self.lastio and c in pcs and small:
                    t = self.texp.get(c, pcs[c]["tmo"])
                    gap = now - self.lastio[c]
                    if t != 0 and 0 <= gap <= t and not err:
                        err = "closed for timeout although bytes were sent %d ms ago <= %d ms" % (gap, t)
            # ---- closes for timeout: only when idle > T, never while suspended
            for c in newly_x:
                if c in closed_other or (c in self.client_closed and c not in closed_to):
                    continue
                if c not in pcs:
                    continue
                was = pcs[c]
                t = self.texp.get(c, was["tmo"])
                idle = now - was["la"]
                if was["s"] and c not in self.resume_req:
                    err = err or "suspended connection closed for timeout"
                elif t == 0:
                    err = err or "connection without timeout closed for timeout"
                elif idle >= 0 and idle <= t:
                    err = err or "closed for timeout while idle %d ms <= %d ms" % (idle, t)
                elif idle < 0 and (-idle <= 5000 or small):
                    err = err or "closed for timeout with the clock %d ms behind the stamp (clock %d ms behind its high-water mark)" % (-idle, back)
            for c in closed_to:
                if c not in newly_x and c in cs and not err:
                    err = "TIMEOUT_REACHED reported but connection not closed"
            # ---- resume restarts the timer
            for c in list(self.resume_req):
                if c in cs and not cs[c]["s"]:
                    if cs[c]["tmo"] != 0 and cs[c]["la"] != now and not cs[c]["x"]:
                        err = err or "resume did not restart the timer (last activity %d, now %d)" % (cs[c]["la"], now)
                    self.resume_req.discard(c); self.susp.discard(c)
                elif c not in cs:
                    self.resume_req.discard(c); self.susp.discard(c)
            # ---- expired connections are closed in the first round that processes them
            cut = (self.mode == "select") and any(e.startswith("cc") or e.startswith("su") for e in p["ev"])
            for c in cs:
                st = cs[c]
                if st["x"] or st["s"] or st["tmo"] == 0 or c not in pcs or pcs[c]["s"]:
                    continue        # not established before this round / suspended: not processed as a peer
                idle = now - st["la"]
                if idle > st["tmo"] and not cut:
                    err = err or "idle %d ms > %d ms but not closed by this round" % (idle, st["tmo"])
            # ---- activity is registered
            for c in list(self.sent_at):
                self.sent_rounds[c].add(now)
                if c in cs and c in pcs and not pcs[c]["s"] and not pcs[c]["x"] and c not in self.resume_req \
                        and not pcs[c]["p"] and not pcs[c]["b"]:   # in a PROCESS wait state the socket is not read
                    self.elig[c] += 1
                    if cs[c]["la"] >= self.sent_at[c] or cs[c]["la"] in self.sent_rounds[c] or cs[c]["tmo"] == 0 or cs[c]["x"]:
                        del self.sent_at[c]; del self.elig[c]; del self.sent_rounds[c]
                    elif self.elig[c] >= 2 and not cut:
                        err = err or "client byte sent at %d not registered as activity after two rounds" % self.sent_at[c]
                elif c not in cs and c in pcs:
                    del self.sent_at[c]; del self.elig[c]; del self.sent_rounds[c]
        # ---- the hint
        live = [c for c in cs if not cs[c]["s"] and cs[c]["tmo"] != 0]
        # ---- work that no socket event will announce: unprocessed upload data in the buffer / PROCESS wait state
        work = [c for c in cs if not cs[c]["s"] and not cs[c]["x"] and (cs[c]["p"] or cs[c]["b"] > 0)]
        if work and p["hint"] != 0 and not err:
            c = work[0]
            err = "hint is %s although connection has work pending (%d unprocessed upload bytes in the read buffer%s)" % (
                p["hint"], cs[c]["b"], ", PROCESS wait state" if cs[c]["p"] else "")
        pend = ("n" in p["fl"]) or ("r" in p["fl"]) or ("d" in p["fl"]) or ("c" in p["fl"])
        if self.mode == "epoll" and p["E"]:
            pend = True
        if not err:
            if pend:
                if p["hint"] != 0:
                    err = "hint is %s although work is pending (flags '%s', eready %s)" % (p["hint"], p["fl"], p["E"])
            elif not small:
                pass    # clock more than 5000 ms behind its high-water mark: only the function-level rule is claimed
            elif live:
                rem = min(max(0, cs[c]["la"] + cs[c]["tmo"] - now) for c in live)
                if p["hint"] is None:
                    err = "no hint although a connection times out in %d ms" % rem
                elif p["hint"] > rem + 100:
                    err = "hint %d ms exceeds earliest deadline in %d ms + 100%s" % (
                        p["hint"], rem, " (clock %d ms behind its high-water mark)" % back if back else "")
            elif p["hint"] is not None:
                err = "hint %s although nothing is pending and nothing can time out" % p["hint"]
        # ---- no time stamp lies beyond the highest value the clock has shown
        if not err:
            for c in cs:
                if cs[c]["tmo"] != 0 and cs[c]["la"] > self.hw:
                    err = "last activity %d beyond the highest clock value %d (now %d)" % (cs[c]["la"], self.hw, now)
        self.prev = p
        return err


# ----------------------------------------------------------------------------- generators

OTHERS = [1, 2, 5, 7, 20]


def gen_history(rng, name):
    mode = rng.choice(["select", "epoll"])
    T = rng.choice([10, 10, 3, 3, 5, 0])
    Tm = (T or 4) * 1000
    lines = ["case %s" % name, "cfg mode=%s timeout=%d" % (mode, T), "start"]
    n = rng.choice([2, 3, 3])
    arrived = set()
    nops = rng.randint(6, 22)
    jump = rng.random() < 0.35
    slowh = rng.random() < 0.35
    replies = mode == "select" and rng.random() < 0.3
    for c in range(rng.randint(1, n)):
        lines.append("arrive %d" % c); arrived.add(c)
    lines.append("round")
    for _ in range(nops):
        r = rng.random()
        c = rng.randrange(n)
        if rng.random() < 0.06 and len(arrived) < n and arrived:
            # a connection is queued while another one is suspended; both enter the lists in one round
            s0 = rng.choice(sorted(arrived)); x = min(set(range(n)) - arrived)
            lines += ["susp %d" % s0, "send %d" % s0, "round", "arrive %d" % x, "tick %d" % rng.choice([150, 1000, 2500, Tm // 2]),
                      "resume %d" % s0, "round", "tick %d" % max(0, Tm - rng.choice([100, 1000, 2000])), "round", "round"]
            arrived.add(x)
            continue
        if rng.random() < 0.05 and len(arrived) >= 2:
            # two custom timeouts, the short one expires while the other connection is active
            a, b = rng.sample(sorted(arrived), 2)
            lines += ["set-timeout %d 1" % a, "set-timeout %d %d" % (b, rng.choice([5, 7, 20])), "tick %d" % rng.choice([1500, 2000, 4000]),
                      "send %d" % b, "round"]
            continue
        if c not in arrived and r > 0.1:
            lines.append("arrive %d" % c); arrived.add(c)
            if rng.random() < 0.7:
                lines.append("round")
            continue
        if replies and rng.random() < 0.2:
            lines.append(rng.choice(["get %d %s" % (c, rng.choice("nhcfe")), "allow %d %d" % (c, rng.choice([30, 200, 900, 4000])),
                                     "allow %d %d" % (c, rng.choice([30, 200, 900, 4000]))]))
            if rng.random() < 0.7:
                lines.append("round")
            continue
        if slowh and rng.random() < 0.12:
            lines.append(rng.choice(["slow %d" % c, "sendn %d %d" % (c, rng.randint(2, 6)), "sendn %d %d" % (c, rng.randint(2, 4))]))
            if rng.random() < 0.7:
                lines.append("round")
            continue
        if r < 0.22:
            lines.append(("send %d" if (c % 3) != 2 or rng.random() < 0.5 else "sendp %d") % c)
            if rng.random() < 0.75:
                lines.append("round")
        elif r < 0.50:
            base = rng.choice([Tm, Tm // 2, Tm // 3, 1000, 2000, 3000, Tm - 1000, Tm + 1000, 500, 100])
            lines.append("tick %d" % max(0, base + rng.choice([0, 0, 0, 1, -1, 100, -100, 99, 101])))
            if rng.random() < 0.8:
                lines.append("round")
                if rng.random() < 0.3:
                    lines.append("round")
        elif r < 0.68:
            s = rng.choice([0, T, T, rng.choice(OTHERS), rng.choice(OTHERS)])
            lines.append("set-timeout %d %d" % (c, s))
            if rng.random() < 0.4:
                lines.append("round")
        elif r < 0.78:
            lines.append("susp %d" % c); lines.append("send %d" % c); lines.append("round")
        elif r < 0.88:
            lines.append("resume %d" % c)
            if rng.random() < 0.8:
                lines.append("round")
        elif r < 0.92:
            lines.append("cclose %d" % c); lines.append("round")
        elif r < 0.97 and jump:
            lines.append("tickback %d" % rng.choice([1, 50, 100, 101, 300, 300, 1000, 2500, 2500, 4999, 5000, 5001, 6000, Tm]))
            if rng.random() < 0.5:
                lines.append("round")
        else:
            lines.append("round")
    lines += ["round", "tick %d" % (Tm + 1), "round", "round"]
    return lines


ALPHA = [
    ["tick 4000", "round"], ["tick 6500", "round"], ["tick 1", "round"],
    ["set-timeout 0 5"], ["set-timeout 0 10"], ["set-timeout 1 2", "round"], ["set-timeout 1 0"],
    ["send 0", "round"], ["send 1", "round"],
    ["susp 0", "send 0", "round"], ["resume 0", "round"], ["arrive 2", "tick 1500", "round"],
    ["cclose 1", "round"],
    ["arrive 2", "tick 1500", "resume 0", "round"],
]


def gen_exhaustive(depth):
    """all histories of <= depth composite operations over 2 (+1 late) connections"""
    k = 0
    for mode in ("select", "epoll"):
        for n in range(1, depth + 1):
            for combo in itertools.product(range(len(ALPHA)), repeat=n):
                if sum(1 for x in combo if x in (11, 13)) > 1:
                    continue
                lines = ["case x%d" % k, "cfg mode=%s timeout=10" % mode, "start", "arrive 0", "arrive 1", "round",
                         "send 0", "send 1", "round"]
                for x in combo:
                    lines += ALPHA[x]
                lines += ["tick 3000", "round", "round", "tick 7001", "round", "round"]
                k += 1
                yield lines


# backward clock jumps at every position of three base histories (move-to-front, suspend/resume + a new
# connection, overrides incl. back to the default), alone and followed by a round; pairs of jumps whose sum
# stays within / exceeds the 5000 ms tolerance
JBASES = [
    ["arrive 0", "arrive 1", "round", "tick 1000", "send 0", "round", "tick 500", "send 1", "round", "tick 700", "send 0",
     "round", "tick 9000", "round", "tick 400", "round", "tick 400", "round", "tick 700", "round", "round"],
    ["arrive 0", "arrive 1", "round", "send 0", "send 1", "round", "susp 0", "send 0", "round", "tick 800", "arrive 2",
     "resume 0", "round", "tick 600", "send 1", "round", "tick 9500", "round", "tick 500", "round", "tick 600", "round", "round"],
    ["arrive 0", "arrive 1", "arrive 2", "round", "set-timeout 0 5", "tick 1200", "send 1", "round", "set-timeout 0 10",
     "tick 900", "send 2", "round", "set-timeout 2 7", "tick 6000", "round", "tick 3000", "round", "tick 1100", "round", "round"],
]
JUMPS_Q = [1, 100, 101, 300, 2500, 5000]
JUMPS_T = [1, 2, 5, 10, 50, 99, 100, 101, 150, 300, 500, 999, 1000, 2500, 4999, 5000]
JPAIRS = [(2500, 2500), (4999, 1), (300, 300), (3000, 3000), (5000, 1)]


def gen_jumps(tier):
    k = 0
    jumps = JUMPS_T if tier == "thorough" else JUMPS_Q
    for mode in ("select", "epoll"):
        for b, base in enumerate(JBASES):
            head = ["cfg mode=%s timeout=10" % mode, "start"]
            for pos in range(2, len(base) + 1):
                for j in jumps:
                    for tail in ([], ["round"]):
                        yield ["case j%d" % k] + head + base[:pos] + ["tickback %d" % j] + tail + base[pos:]
                        k += 1
            step = 1 if tier == "thorough" else 3
            for p1 in range(2, len(base), step):
                for p2 in range(p1 + 1, len(base) + 1, step):
                    for (j1, j2) in JPAIRS:
                        yield ["case j%d" % k] + head + base[:p1] + ["tickback %d" % j1] + base[p1:p2] + \
                              ["tickback %d" % j2, "round"] + base[p2:]
                        k += 1


# work pending on one connection while the others are idle: a handler that takes one upload byte per call leaves
# k-1 .. 1 bytes in the read buffer for k-1 rounds.  Every position of the pending connection among 2..3
# connections (the select loop walks them oldest first, the flag must survive the idle ones handled later),
# both loops, default timeout 10 s / none, the others idle / active / closing / timing out / on the manual list.
PEND_MID = [[], ["tick 100"], ["send {o}", "round"], ["sendp {o}", "round"], ["cclose {o}", "round"], ["set-timeout {p} 7"],
            ["set-timeout {o} 3"], ["tick 9999", "round"], ["send {p}"], ["sendn {p} 3"], ["susp {o}", "send {o}", "round"],
            ["arrive 3"], ["tickback 300"]]


def gen_pending():
    k = 0
    for mode in ("select", "epoll"):
        for T in (10, 0):
            for n in (2, 3):
                for pnd in range(n):
                    for nb in (2, 4):
                        for mid in PEND_MID:
                            o = (pnd + 1) % n
                            lines = ["case p%d" % k, "cfg mode=%s timeout=%d" % (mode, T), "start"]
                            lines += ["arrive %d" % c for c in range(n)] + ["round", "slow %d" % pnd, "sendn %d %d" % (pnd, nb), "round"]
                            lines += [x.format(o=o, p=pnd) for x in mid]
                            lines += ["round"] * nb + ["tick 5000", "round", "tick 5001", "round", "round"]
                            k += 1
                            yield lines


# replies drained by a slow reader: every sending state (n: header block + normal body, h: long header block only,
# c: chunked body, f: chunked body + footers, e: 100 Continue), pieces of 40 / 700 / 4000 bytes, gaps between
# the pieces below / at / above the timeout, another connection idle or active (list order), override, clock jump
def gen_replies():
    k = 0
    for kind in "nhcfe":
        for T in (10, 3):
            Tm = T * 1000
            for gaps in ([Tm // 2] * 6, [Tm - 1] * 5, [Tm] * 5, [Tm // 3, Tm + 1, 100], [Tm // 2, Tm // 2, Tm + 1], [Tm + 1]):
                for piece in (40, 700, 4000):
                    for other in ([], ["send 1", "round"], ["set-timeout 0 7"], ["tickback 300"]):
                        lines = ["case s%d" % k, "cfg mode=select timeout=%d" % T, "start", "arrive 0", "arrive 1", "round",
                                 "get 0 %s" % kind, "round"] + other
                        for g in gaps:
                            lines += ["tick %d" % g, "allow 0 %d" % piece, "round"]
                        lines += ["allow 0 4000", "round", "allow 0 4000", "round", "round", "tick %d" % (Tm + 1), "round", "round"]
                        k += 1
                        yield lines


# white-box conversion cases: the hint poked to boundary / random uint64 values in several daemon states
CONV_VALUES = [0, 1, 99, 100, 101, 999, 1000, 1001, 2 ** 31 - 2, 2 ** 31 - 1, 2 ** 31, 2 ** 32 - 1, 2 ** 32,
               2 ** 63 - 2, 2 ** 63 - 1, 2 ** 63, 2 ** 63 + 1, 2 ** 64 - 2, 2 ** 64 - 1]
CONV_CAPS = [-1, 0, 1, 250, 2 ** 31 - 1]
CONV_STATES = [
    ["arrive 0", "round"],                                   # one connection, tail of the normal list
    ["arrive 0", "round", "set-timeout 0 7"],                # on the manual list
    ["arrive 0", "arrive 1", "round", "tick 500", "send 1", "round"],   # two candidates
    ["arrive 0", "round", "arrive 1"],                       # have_new pending: hint 0
    ["arrive 0", "round", "tick 2000", "tickback 300"],      # clock behind the high-water mark
]


def gen_conv(rng, nrand):
    k = 0
    for mode in ("select", "epoll"):
        for T in (10, 0):
            for st in CONV_STATES:
                lines = ["case v%d" % k, "cfg mode=%s timeout=%d" % (mode, T), "start", "conv 0 5 -1"] + st
                for x in CONV_VALUES:
                    for cap in CONV_CAPS:
                        lines.append("conv 0 %d %d" % (x, cap))
                for _ in range(nrand):
                    x = rng.choice([rng.getrandbits(64), rng.getrandbits(32), rng.getrandbits(63), 2 ** 63 + rng.getrandbits(20),
                                    2 ** 31 + rng.randint(-3, 3), rng.randint(0, 20000)])
                    cap = rng.choice([-1, -1, 0, rng.randint(1, 2 ** 31 - 1), rng.randint(1, 5000)])
                    lines.append("conv 0 %d %d" % (x, cap))
                lines += ["tick 100", "round"]
                k += 1
                yield lines


CONV = re.compile(r"^conv h=(\S+) ull=(\S+) s64=(-?\d+) i=(-?\d+) ms=(-?\d+) msi=(-?\d+)$")


def conv_oracle(op, line):
    """the wrappers re-stated over the hint the real MHD_get_timeout64 returned"""
    m = CONV.match(line)
    if not m:
        return None if line == "bad-op" else "harness: " + line
    cap = int(op.split()[3])
    h = None if m.group(1) == "none" else int(m.group(1))
    ull = None if m.group(2) == "none" else int(m.group(2))
    s64, vi, ms, msi = (int(m.group(i)) for i in (3, 4, 5, 6))
    I64, I32 = 2 ** 63 - 1, 2 ** 31 - 1
    if ull != h:
        return "MHD_get_timeout gives %s, MHD_get_timeout64 %s" % (ull, h)
    if s64 != (-1 if h is None else min(h, I64)):
        return "MHD_get_timeout64s gives %d for hint %s" % (s64, h)
    if vi != (-1 if h is None else min(h, I32)):
        return "MHD_get_timeout_i gives %d for hint %s" % (vi, h)
    exp = 0 if cap == 0 else cap if h is None else min(h, I64, cap if cap > 0 else I64)
    if ms != exp:
        return "get_timeout_millisec_ gives %d for hint %s cap %d" % (ms, h, cap)
    if msi != min(exp, I32):
        return "get_timeout_millisec_int gives %d for hint %s cap %d" % (msi, h, cap)
    if h is not None and (msi > h or ms > h or vi > h or s64 > h):
        return "a wrapper waits longer than the hint %d" % h
    return None


# ----------------------------------------------------------------------------- Spec

def signature(kind, det):
    s = re.sub(r"\d+", "N", det)
    return "tmo: " + s[:160]


def new_stats():
    return {k: 0 for k in ("ops", "to", "su", "cc", "co", "hint0", "hintnone", "hintpos", "badop", "tickback",
                           "rounds_back_1_5000", "rounds_back_gt5000", "tmo_close_while_back",
                           "slow", "states_with_work_pending", "work_pending_and_others",
                           "rounds_with_send_progress", "partial_sends", "replies_completed",
                           "get_n", "get_h", "get_c", "get_f", "get_e",
                           "conv", "conv_plain", "conv_clamped", "conv_none")}


def annotate(lines, hout):
    """The model does not follow reply bytes: every `round` of the script gets, as parameters, the send progress
    the real code showed in that round (w = connections whose socket took more bytes, f = replies completed).
    Returns the script for the model and the harness lines with the same echo."""
    ml, hl = [], []
    for op, h in zip(lines, hout):
        if op == "round" and h.startswith("round ev=["):
            evs = h[len("round ev=["):].split("]", 1)[0].split(",")
            w = [e[1:] for e in evs if re.fullmatch(r"w\d+", e)]
            f = [e[3:] for e in evs if re.fullmatch(r"fin\d+", e)]
            if w or f:
                op = "round w=%s f=%s" % (",".join(w), ",".join(f))
                h = op + h[len("round"):]
        ml.append(op); hl.append(h)
    return ml, hl


class Spec:
    props_module = "Mhd.Props.C10"
    lean_targets = ["Mhd.Props.C10", "drv_tmo"]
    required_theorems = ["Mhd.C10.current_is_repaired", "Mhd.C10.closeDecision_exact", "Mhd.C10.suspended_never_timedOut",
                         "Mhd.C10.wait_in_sync_with_close", "Mhd.C10.wait_bound", "Mhd.C10.jumpBack_tolerated",
                         "Mhd.C10.jumpBack_wait", "Mhd.C10.bigJumpBack_closes", "Mhd.C10.closeDecision_exact_smallJump",
                         "Mhd.C10.clock_displacement", "Mhd.C10.clock_highWater", "Mhd.C10.stamps_within_tolerance",
                         "Mhd.C10.inv_reachable",
                         "Mhd.C10.normalList_sorted", "Mhd.C10.no_list_corruption",
                         "Mhd.C10.round_closes_only_expired", "Mhd.C10.round_sound_any_state",
                         "Mhd.C10.suspended_not_closed_by_round", "Mhd.C10.epoll_round_closes_every_expired",
                         "Mhd.C10.select_round_closes_every_expired", "Mhd.C10.manual_scan_closes_expired",
                         "Mhd.C10.select_round_closes_expired_partial",
                         "Mhd.C10.override_immediate", "Mhd.C10.override_list_migration", "Mhd.C10.resume_restarts_timer",
                         "Mhd.C10.hint_le_earliest_deadline", "Mhd.C10.hint_none_only_when_idle",
                         "Mhd.C10.hint_zero_when_pending",
                         "Mhd.C10.asIs_F11_hint_exceeds_deadline", "Mhd.C10.asIs_F11_epoll_expired_not_closed",
                         "Mhd.C10.asIs_F11b_override_ignored_while_suspended",
                         "Mhd.C10.asIs_F11c_new_connection_breaks_order", "Mhd.C10.asIs_F11d_hint_skips_expired",
                         "Mhd.C10.asIs_F11e_jump_breaks_order", "Mhd.C10.asIs_F11e_epoll_expired_not_closed",
                         "Mhd.C10.repaired_F11e", "Mhd.C10.largeDisplacement_closes_idle",
                         "Mhd.C10.conversions_never_longer", "Mhd.C10.legacy_wrappers_exact", "Mhd.C10.loop_timeout_exact",
                         "Mhd.C10.select_timeval_exact", "Mhd.C10.thread_timeval_exact",
                         "Mhd.C10.thread_timeval_huge_negative", "Mhd.C10.loop_wait_le_earliest_deadline",
                         "Mhd.C10.current_accumulates_pending", "Mhd.C10.pending_flag_only_raised",
                         "Mhd.C10.select_traversal_pending_hint_zero", "Mhd.C10.select_traversal_keeps_pending",
                         "Mhd.C10.assigned_flag_is_cleared_by_idle_connection", "Mhd.C10.accumulated_flag_gives_zero",
                         "Mhd.C10.partial_send_is_activity", "Mhd.C10.recv_is_activity", "Mhd.C10.send_progress_restarts_timer",
                         "Mhd.C10.replying_without_progress_times_out", "Mhd.C10.slow_reader_is_not_idle"]
    trusted_base = ["Lean 4 kernel", "axioms: propext, Classical.choice, Quot.sound at most (audited per theorem)",
                    "hand-written model lean/Mhd/Model/Tmo.lean + TmoLoop.lean + TmoConv.lean tied to connection.c/daemon.c by this "
                    "run's correspondence (every output line incl. white-box dump of the timeout lists; `conv`: the four "
                    "public wrappers and the two static get_timeout_millisec_* on poked hints)",
                    "gen_tmo: numeric constants by source pattern, behaviour flags by probe scripts on the real code, "
                    "type sizes from MHD_config.h, the inline timeval/poll conversions of thread_main_handle_connection "
                    "and MHD_select by source pattern only",
                    "harness/h_tmo.c (virtual clock, socketpairs, kernel epoll/select), gcc, ASan/UBSan"]
    assumptions = ["single-threaded external polling (select and epoll) is what is driven; of the internal-thread and "
                   "thread-per-connection loops only the conversion of the hint into the poll/epoll/select timeout is "
                   "modelled (wrappers and the two static functions tied by white-box differential, the two inline "
                   "timeval conversions by source pattern only)",
                   "clock: any sequence of forward and backward steps; exactness and the hint bound are claimed for "
                   "states whose clock is at most 5000 ms (the code's own tolerance) behind the highest value it has shown; "
                   "beyond that the code closes connections by its documented 'too large jump back' rule "
                   "(theorem largeDisplacement_closes_idle)",
                   "work pending without a socket event is produced by one handler behaviour only (partial consumption of "
                   "the upload: k bytes left in the read buffer, state BODY_RECEIVING / PROCESS); not-ready content readers "
                   "and late replies are not scripted; the accumulation theorem is for the select traversal, in the epoll "
                   "loop hint 0 with work pending (eready list) is carried by the correspondence and the oracle only",
                   "LP64 type sizes for the conversions (checked against MHD_config.h on every run)",
                   "virtual times < 2^62 ms, timeouts as settable through the API (< 2^32 s)",
                   "replies (select loop only): the model does not follow reply bytes; which replying connections make send "
                   "progress in a round and which replies complete are PARAMETERS of the round (theorems quantify over all of "
                   "them), taken from what the real code did under the slow-reader shim; that every send with progress calls "
                   "MHD_update_last_activity_ is the regenerated table activitySites (source scan) + the oracle clause; "
                   "replies in the epoll loop, write errors and client closes during a reply are not scripted"]

    def gen(self, ctx):
        self.flags = gen_tmo()

    def build(self, ctx):
        self.harness = build_harness()
        self.driver = vlib.driver_path("drv_tmo")

    # -- one batch of cases through both executables
    def run_batch(self, cases, failures, stats):
        lines = [l for c in cases for l in c]
        hout, hrc, herr = vlib.run_lines(self.harness, lines)
        if hrc == 0 and len(hout) == len(lines):
            mlines, hout = annotate(lines, hout)
        else:
            mlines = lines
        mout, mrc, merr = vlib.run_lines(self.driver, mlines)
        if hrc != 0 or len(hout) != len(lines):
            if len(cases) == 1:
                failures.append(vlib.Failure("sanitizer", "tmo: harness aborted (rc=%d)" % hrc, herr[-1500:], cases[0], ENGINE))
                return
            mid = len(cases) // 2
            self.run_batch(cases[:mid], failures, stats)
            if len(failures) < 5:
                self.run_batch(cases[mid:], failures, stats)
            return
        k = 0
        for cs in cases:
            mode = "epoll" if "mode=epoll" in cs[1] else "select"
            dflt = int(re.search(r"timeout=(\d+)", cs[1]).group(1))
            orc = Oracle(mode, dflt)
            bad = None
            for j, op in enumerate(cs):
                op = mlines[k + j]
                h = hout[k + j]
                m = mout[k + j] if k + j < len(mout) else "<no output>"
                if j >= 3:
                    isconv = op.startswith("conv ")
                    e = conv_oracle(op, h) if isconv else orc.feed(op, h)
                    if e:
                        bad = ("oracle", e, j); break
                if h != m:
                    bad = ("diff", "op '%s': code says '%s', model says '%s'" % (op, h, m), j); break
                if j >= 3 and h != "bad-op" and isconv:
                    stats["conv"] += 1
                    stats["conv_none" if " h=none " in h else "conv_clamped" if " i=2147483647 " in h else "conv_plain"] += 1
                elif j >= 3 and h != "bad-op":
                    stats["ops"] += 1
                    if op.startswith("tickback"):
                        stats["tickback"] += 1
                    if op.startswith("round") and orc.prev is not None:
                        bk = orc.hw - orc.prev["now"]
                        if bk > 5000: stats["rounds_back_gt5000"] += 1
                        elif bk > 0: stats["rounds_back_1_5000"] += 1
                        if bk > 0 and any(e.startswith("to") for e in orc.prev["ev"]): stats["tmo_close_while_back"] += 1
                    for e in re.findall(r"ev=\[([^\]]*)\]", h)[0].split(","):
                        if e[:2] in ("to", "su", "cc", "co"):
                            stats[e[:2]] += 1
                    if re.search(r":\d+:[srx]*p?b\d+|:\d+:[srx]*p", h):
                        stats["states_with_work_pending"] += 1
                        if len(re.findall(r" \d+:\d+:\d+:", h)) >= 2: stats["work_pending_and_others"] += 1
                    if op.startswith("slow"): stats["slow"] += 1
                    if op.startswith("round w="):
                        stats["rounds_with_send_progress"] += 1
                        if re.search(r"fin\d", h): stats["replies_completed"] += 1
                        else: stats["partial_sends"] += 1
                    if op.startswith("get "): stats["get_" + op.split()[2]] += 1
                    if " hint=0 " in h: stats["hint0"] += 1
                    elif " hint=none " in h: stats["hintnone"] += 1
                    else: stats["hintpos"] += 1
                elif h == "bad-op":
                    stats["badop"] += 1
            if bad:
                kind, det, j = bad
                failures.append(vlib.Failure(kind, signature(kind, det if kind == "oracle" else "model/code differ on " + cs[j].split()[0]),
                                             det, cs[:j + 1], ENGINE))
            k += len(cs)

    def still_fails(self, case, kind, sig):
        fl = []
        st = new_stats()
        self.run_batch([case], fl, st)
        return any(f.kind == kind and f.signature == sig for f in fl), fl

    def minimise(self, failures):
        """one (shrunk) failure per signature: drop script lines while the same signature still fails"""
        by_sig = {}
        for f in failures:
            by_sig.setdefault((f.kind, f.signature), f)
        out = []
        for (kind, sig), f in list(by_sig.items())[:8]:
            case = list(f.input)
            if kind in ("oracle", "diff"):
                budget = 150
                i = len(case) - 2          # keep the failing (last) line and the 3 header lines
                while i >= 3 and budget > 0:
                    cand = case[:i] + case[i + 1:]
                    budget -= 1
                    ok, fl = self.still_fails(cand, kind, sig)
                    if ok:
                        case = [g for g in fl if g.kind == kind and g.signature == sig][0].input
                        i = min(i, len(case) - 1)
                    i -= 1
            ok, fl = self.still_fails(case, kind, sig)
            g = [x for x in fl if x.kind == kind and x.signature == sig]
            out.append(g[0] if g else f)
        return out

    def explore(self, ctx, boost):
        failures = []
        stats = new_stats()
        cases = []
        cdir = os.path.join(vlib.VERIF, "corpus", ENGINE)
        ncorp = 0
        if os.path.isdir(cdir):
            for f in sorted(os.listdir(cdir)):
                cases.append([l for l in open(os.path.join(cdir, f)).read().splitlines() if l.strip()])
                ncorp += 1
        depth = 4 if ctx.tier == "thorough" else 3
        exh = list(gen_exhaustive(depth))
        nrand = (20000 if ctx.tier == "thorough" else 2000) * (3 if boost else 1)
        rnd = [gen_history(ctx.rng, "r%d" % i) for i in range(nrand)]
        jmp = list(gen_jumps(ctx.tier))
        cnv = list(gen_conv(ctx.rng, 400 if ctx.tier == "thorough" else 60))
        pnd = list(gen_pending())
        rpl = list(gen_replies())
        allc = cases + rpl + pnd + jmp + cnv + exh + rnd
        B = 400
        for i in range(0, len(allc), B):
            self.run_batch(allc[i:i + B], failures, stats)
            if len(failures) > 3000:
                break
        failures = self.minimise(failures)
        distinct = len({"\n".join(c[1:]) for c in allc})
        cov = {"evaluations": len(allc), "distinct_nontrivial": distinct,
               "rule": "histories run on the real daemon and on the Lean model, every output line compared (events, hint, "
                       "clock, pending flags, the five lists in pointer order, per-connection stamp/timeout/flags); distinct = "
                       "different scripts; bounded-exhaustive: all sequences of <= %d composite ops over a %d-op alphabet, "
                       "2 modes; random: 1-3 connections, default timeout in {0,3,5,10} s, 35%% of them with backward "
                       "clock jumps, 35%% with a slow handler (one upload byte per call) and multi-byte sends; pending-work "
                       "histories: the connection with unprocessed upload data in every position among 2-3 connections x "
                       "2/4 bytes x 13 things the others do meanwhile x 2 modes x default timeout {10,0}; jump histories: a backward jump of every size in the list at every position of 3 base "
                       "histories (alone and followed by a round) + pairs of jumps, 2 modes; conv: the hint poked to "
                       "boundary and random uint64 values x caps in 5 daemon states x 2 modes x default timeout {10,0}, the "
                       "four public wrappers and the two static get_timeout_millisec_* compared with the model and with "
                       "the arithmetic oracle" % (depth, len(ALPHA)),
               "jump_sizes_ms": JUMPS_T if ctx.tier == "thorough" else JUMPS_Q, "jump_pairs_ms": JPAIRS,
               "jump_histories": len(jmp), "conv_scripts": len(cnv), "pending_work_histories": len(pnd),
               "reply_histories": len(rpl),
               "conv_boundary_values": len(CONV_VALUES), "conv_caps": CONV_CAPS,
               "samples": [rnd[0], exh[len(exh) // 2]] if rnd else [],
               "exhaustive_histories": len(exh), "random_histories": len(rnd), "corpus": ncorp,
               "outcomes": stats, "behaviour_flags": getattr(self, "flags", {}), "exhaustive": False}
        return failures, cov


def replay(ctx, path):
    r = json.load(open(path))
    sp = Spec(); sp.gen(ctx); vlib.lake_build(sp.lean_targets); sp.build(ctx)
    if "input" not in r:
        print("replay file names a proof obligation / correspondence that no longer checks:", r.get("no_longer_checks"))
        return 1
    fl = []
    st = new_stats()
    sp.run_batch([r["input"]], fl, st)
    for f in fl:
        print(f.kind, f.signature, f.detail)
    out, rc, err = vlib.run_lines(sp.harness, r["input"])
    print("\n".join(out[-6:]))
    return 1 if fl else 0
