"""C19 — WebSocket codec (src/microhttpd_ws/mhd_websocket.c).  Engine `ws`.

Correspondence: the Lean model driver `drv_ws` and the real code (harness/h_ws.c, compiled
together with mhd_websocket.c + sha1.c from the tree under test) execute the same scripts.
Oracle (knows nothing about the Lean model): an RFC 6455 reference framer / validator
written here in Python, plus the pure split-independence property (the same stream fed in
different pieces must give the same frames), exact reference encodings, terminator and
read-length sanity, and "no sanitizer report".
"""
import hashlib, base64, json, os, re, sys
from concurrent.futures import ThreadPoolExecutor
import vlib

WS_SRC = "src/microhttpd_ws/mhd_websocket.c"
ENGINE = "ws"

# --------------------------------------------------------------------------- translator (A)

GEN_NAMES = [
    ("flagClient", "MHD_WEBSOCKET_FLAG_CLIENT"), ("flagWantFragments", "MHD_WEBSOCKET_FLAG_WANT_FRAGMENTS"),
    ("flagGenClose", "MHD_WEBSOCKET_FLAG_GENERATE_CLOSE_FRAMES_ON_ERROR"), ("flagMaskAll", "MHD_WEBSOCKET_FLAG_MASK_ALL"),
    ("fragNone", "MHD_WEBSOCKET_FRAGMENTATION_NONE"), ("fragFirst", "MHD_WEBSOCKET_FRAGMENTATION_FIRST"),
    ("fragFollowing", "MHD_WEBSOCKET_FRAGMENTATION_FOLLOWING"), ("fragLast", "MHD_WEBSOCKET_FRAGMENTATION_LAST"),
    ("stOk", "MHD_WEBSOCKET_STATUS_OK"), ("stText", "MHD_WEBSOCKET_STATUS_TEXT_FRAME"),
    ("stBinary", "MHD_WEBSOCKET_STATUS_BINARY_FRAME"), ("stClose", "MHD_WEBSOCKET_STATUS_CLOSE_FRAME"),
    ("stPing", "MHD_WEBSOCKET_STATUS_PING_FRAME"), ("stPong", "MHD_WEBSOCKET_STATUS_PONG_FRAME"),
    ("stTextFirst", "MHD_WEBSOCKET_STATUS_TEXT_FIRST_FRAGMENT"), ("stBinaryFirst", "MHD_WEBSOCKET_STATUS_BINARY_FIRST_FRAGMENT"),
    ("stTextNext", "MHD_WEBSOCKET_STATUS_TEXT_NEXT_FRAGMENT"), ("stBinaryNext", "MHD_WEBSOCKET_STATUS_BINARY_NEXT_FRAGMENT"),
    ("stTextLast", "MHD_WEBSOCKET_STATUS_TEXT_LAST_FRAGMENT"), ("stBinaryLast", "MHD_WEBSOCKET_STATUS_BINARY_LAST_FRAGMENT"),
    ("stProtocolError", "MHD_WEBSOCKET_STATUS_PROTOCOL_ERROR"), ("stStreamBroken", "MHD_WEBSOCKET_STATUS_STREAM_BROKEN"),
    ("stMemoryError", "MHD_WEBSOCKET_STATUS_MEMORY_ERROR"), ("stParameterError", "MHD_WEBSOCKET_STATUS_PARAMETER_ERROR"),
    ("stMaximumSizeExceeded", "MHD_WEBSOCKET_STATUS_MAXIMUM_SIZE_EXCEEDED"),
    ("stUtf8EncodingError", "MHD_WEBSOCKET_STATUS_UTF8_ENCODING_ERROR"),
    ("crNoReason", "MHD_WEBSOCKET_CLOSEREASON_NO_REASON"), ("crProtocolError", "MHD_WEBSOCKET_CLOSEREASON_PROTOCOL_ERROR"),
    ("crMalformedUtf8", "MHD_WEBSOCKET_CLOSEREASON_MALFORMED_UTF8"),
    ("crMaxPayload", "MHD_WEBSOCKET_CLOSEREASON_MAXIMUM_ALLOWED_PAYLOAD_SIZE_EXCEEDED"),
    ("validInvalid", "MHD_WEBSOCKET_VALIDITY_INVALID"), ("validValid", "MHD_WEBSOCKET_VALIDITY_VALID"),
    ("validOnlyControl", "MHD_WEBSOCKET_VALIDITY_ONLY_VALID_FOR_CONTROL_FRAMES"),
    ("u8Normal", "MHD_WEBSOCKET_UTF8STEP_NORMAL"), ("u8Utf2Tail1of1", "MHD_WEBSOCKET_UTF8STEP_UTF2TAIL_1OF1"),
    ("u8Utf3Tail1_1of2", "MHD_WEBSOCKET_UTF8STEP_UTF3TAIL1_1OF2"), ("u8Utf3Tail2_1of2", "MHD_WEBSOCKET_UTF8STEP_UTF3TAIL2_1OF2"),
    ("u8Utf3Tail_1of2", "MHD_WEBSOCKET_UTF8STEP_UTF3TAIL_1OF2"), ("u8Utf3Tail_2of2", "MHD_WEBSOCKET_UTF8STEP_UTF3TAIL_2OF2"),
    ("u8Utf4Tail1_1of3", "MHD_WEBSOCKET_UTF8STEP_UTF4TAIL1_1OF3"), ("u8Utf4Tail2_1of3", "MHD_WEBSOCKET_UTF8STEP_UTF4TAIL2_1OF3"),
    ("u8Utf4Tail_1of3", "MHD_WEBSOCKET_UTF8STEP_UTF4TAIL_1OF3"), ("u8Utf4Tail_2of3", "MHD_WEBSOCKET_UTF8STEP_UTF4TAIL_2OF3"),
    ("u8Utf4Tail_3of3", "MHD_WEBSOCKET_UTF8STEP_UTF4TAIL_3OF3"),
    ("u8ResInvalid", "MHD_WebSocket_UTF8Result_Invalid"), ("u8ResValid", "MHD_WebSocket_UTF8Result_Valid"),
    ("u8ResIncomplete", "MHD_WebSocket_UTF8Result_Incomplete"),
    ("opContinuation", "MHD_WebSocket_Opcode_Continuation"), ("opText", "MHD_WebSocket_Opcode_Text"),
    ("opBinary", "MHD_WebSocket_Opcode_Binary"), ("opClose", "MHD_WebSocket_Opcode_Close"),
    ("opPing", "MHD_WebSocket_Opcode_Ping"), ("opPong", "MHD_WebSocket_Opcode_Pong"),
    ("dsStart", "MHD_WebSocket_DecodeStep_Start"), ("dsLength1ofX", "MHD_WebSocket_DecodeStep_Length1ofX"),
    ("dsLength1of2", "MHD_WebSocket_DecodeStep_Length1of2"), ("dsLength2of2", "MHD_WebSocket_DecodeStep_Length2of2"),
    ("dsLength1of8", "MHD_WebSocket_DecodeStep_Length1of8"), ("dsLength8of8", "MHD_WebSocket_DecodeStep_Length8of8"),
    ("dsMask1Of4", "MHD_WebSocket_DecodeStep_Mask1Of4"), ("dsMask4Of4", "MHD_WebSocket_DecodeStep_Mask4Of4"),
    ("dsHeaderCompleted", "MHD_WebSocket_DecodeStep_HeaderCompleted"),
    ("dsPayloadOfDataFrame", "MHD_WebSocket_DecodeStep_PayloadOfDataFrame"),
    ("dsPayloadOfControlFrame", "MHD_WebSocket_DecodeStep_PayloadOfControlFrame"),
    ("dsBrokenStream", "MHD_WebSocket_DecodeStep_BrokenStream"),
    ("frameHeaderBytes", "sizeof (((struct MHD_WebSocketStream *) 0)->frame_header)"),
    ("sizeofSizeT", "sizeof (size_t)"),
]


def ws_dir():
    return os.path.join(vlib.REPO, "src/microhttpd_ws")


def gen_ws():
    """every enum value / size the literals of the model stand for, printed by a C program
    that includes the real source; `gen_literals_agree` in Mhd/Model/WS.lean ties them"""
    from extract import c_eval, HEADER, GEN
    v = c_eval('#include "MHD_config.h"\n#include "mhd_websocket.c"\n',
               [(n, "%lld", "(long long) (%s)" % e) for n, e in GEN_NAMES],
               extra=["-I" + ws_dir(), os.path.join(ws_dir(), "sha1.c")])
    out = HEADER % WS_SRC + "namespace Mhd.Gen.WS\n"
    for n, _ in GEN_NAMES:
        val = int(v[n])
        out += "def %s : %s := %s\n" % (n, "Int" if n.startswith("st") else "Nat", str(val) if val >= 0 else "(%d)" % val)
    out += "end Mhd.Gen.WS\n"
    return vlib.write_if_changed(os.path.join(GEN, "WS.lean"), out)


# --------------------------------------------------------------------------- reference (oracle)

ST_PROTO, ST_BROKEN, ST_MEM, ST_PARAM, ST_MAX, ST_UTF8 = -1, -2, -3, -4, -5, -6
CLIENT, WANTFRAG, GENCLOSE = 1, 2, 4


def xor_mask(p, k):
    if k is None:
        return bytes(p)
    return bytes(b ^ k[i & 3] for i, b in enumerate(p))


def ref_frame(opcode, fin, payload, key=None, lenform=None, rsv=0, maskbit=None):
    """RFC 6455 5.2 framing.  lenform: None = minimal, 2 / 8 = force the 16/64 bit form;
    maskbit overrides the MASK bit without changing whether a key is present"""
    n = len(payload)
    b0 = (0x80 if fin else 0) | (rsv << 4) | opcode
    mb = 0x80 if (key is not None if maskbit is None else maskbit) else 0
    if lenform is None:
        lenform = 0 if n < 126 else (2 if n < 65536 else 8)
    if lenform == 0:
        h = bytes([b0, mb | n])
    elif lenform == 2:
        h = bytes([b0, mb | 126]) + n.to_bytes(2, "big")
    else:
        h = bytes([b0, mb | 127]) + n.to_bytes(8, "big")
    if key is not None:
        h += bytes(key)
    return h + xor_mask(payload, key)


# RFC 3629 section 4 (the ABNF), as ranges of the bytes that may follow each lead byte
def _utf8_tail(lead):
    if 0xC2 <= lead <= 0xDF: return [(0x80, 0xBF)]
    if lead == 0xE0: return [(0xA0, 0xBF), (0x80, 0xBF)]
    if 0xE1 <= lead <= 0xEC or 0xEE <= lead <= 0xEF: return [(0x80, 0xBF)] * 2
    if lead == 0xED: return [(0x80, 0x9F), (0x80, 0xBF)]
    if lead == 0xF0: return [(0x90, 0xBF), (0x80, 0xBF), (0x80, 0xBF)]
    if 0xF1 <= lead <= 0xF3: return [(0x80, 0xBF)] * 3
    if lead == 0xF4: return [(0x80, 0x8F), (0x80, 0xBF), (0x80, 0xBF)]
    return None


class Utf8Ref:
    """streaming validator; `pending` = ranges still owed by the current character, `have` = bytes of it seen"""
    def __init__(self):
        self.pending, self.have = [], 0

    def feed(self, data):
        """returns index of the first offending byte or None"""
        for i, b in enumerate(data):
            if self.pending:
                lo, hi = self.pending[0]
                if not lo <= b <= hi:
                    return i
                self.pending = self.pending[1:]
                self.have = self.have + 1 if self.pending else 0
            elif b <= 0x7F:
                pass
            else:
                t = _utf8_tail(b)
                if t is None:
                    return i
                self.pending, self.have = t, 1
        return None

    def incomplete(self):
        return bool(self.pending)


class RefDecoder:
    """What RFC 6455 + the documented API of microhttpd_ws prescribe for a receiver that is
    handed `stream` (possibly ending inside a frame).  Produces the list of (status, payload)
    the application must see, and the final validity."""

    def __init__(self, flags, maxp, alloc_limit, rng=b""):
        self.flags, self.maxp, self.alloc_limit = flags, maxp, alloc_limit
        self.rng = bytes(rng)
        self.client = bool(flags & CLIENT)
        self.want = bool(flags & WANTFRAG)

    def _close_frame(self, code):
        if not self.flags & GENCLOSE:
            return None
        key = None
        if self.client:
            key = (self.rng[:4] + b"\0\0\0\0")[:4]
            self.rng = self.rng[4:]
        fr = ref_frame(8, True, code.to_bytes(2, "big"), key)
        return fr if len(fr) + 1 <= self.alloc_limit else None

    def run(self, stream):
        ev, validity = [], 1
        n, pos = len(stream), 0
        data_type, pending = 0, b""        # message under assembly (or UTF-8 carry in fragment mode)
        u8 = Utf8Ref()

        def fail(st, code):
            return ev + [(st, self._close_frame(code))], 0

        while pos < n:
            b0 = stream[pos]; pos += 1
            opcode, fin = b0 & 0x0F, bool(b0 & 0x80)
            if b0 & 0x70:
                return fail(ST_PROTO, 1002)
            if opcode == 0:
                if data_type == 0 or validity == 2:
                    return fail(ST_PROTO, 1002)
            elif opcode in (1, 2):
                if data_type != 0 or validity == 2:
                    return fail(ST_PROTO, 1002)
            elif opcode in (8, 9, 10):
                if not fin:
                    return fail(ST_PROTO, 1002)
                if opcode == 8:
                    validity = 2
            else:
                return fail(ST_PROTO, 1002)
            if pos >= n: break
            b1 = stream[pos]; pos += 1
            masked, l7 = bool(b1 & 0x80), b1 & 0x7F
            if masked == self.client:          # 5.1: client must mask, server must not
                return fail(ST_PROTO, 1002)
            if opcode >= 8 and l7 >= 126:
                return fail(ST_PROTO, 1002)
            if opcode == 8 and l7 == 1:
                return fail(ST_PROTO, 1002)
            if l7 == 126:
                if pos + 2 > n: break
                size = int.from_bytes(stream[pos:pos + 2], "big"); pos += 2
                if size <= 125:
                    return fail(ST_PROTO, 1002)
            elif l7 == 127:
                if pos + 8 > n: break
                size = int.from_bytes(stream[pos:pos + 8], "big"); pos += 8
                if size >> 63 or size <= 65535:
                    return fail(ST_PROTO, 1002)
            else:
                size = l7
            if self.maxp and size > self.maxp:
                return fail(ST_MAX, 1009)
            key = None
            if masked:
                if pos + 4 > n: break
                key = stream[pos:pos + 4]; pos += 4
            # header complete: buffers
            if opcode == 0:
                total = size + len(pending)
                if self.maxp and total > self.maxp:
                    return fail(ST_MAX, 1009)
            else:
                total = size
                if opcode in (1, 2):
                    data_type, pending = opcode, b""
            if total and total + 1 > self.alloc_limit:
                return ev + [(ST_MEM, None)], validity
            avail = min(size, n - pos)
            body = xor_mask(stream[pos:pos + avail], key)
            pos += avail
            if opcode < 8:
                if data_type == 1:
                    if u8.feed(body) is not None:
                        return fail(ST_UTF8, 1007)
                if avail < size: break
                data = pending + body
                if fin:
                    if data_type == 1 and u8.incomplete():
                        return fail(ST_UTF8, 1007)
                    st = data_type | (0x40 if (self.want and opcode == 0) else 0)
                    ev.append((st, data or None))
                    data_type, pending = 0, b""
                elif self.want:
                    st = data_type | (0x20 if opcode == 0 else 0x10)
                    keep = u8.have if data_type == 1 else 0
                    out = data[:len(data) - keep] if keep else data
                    if keep and not out:
                        ev.append((st, None))          # nothing but the unfinished character: kept whole
                        pending = data
                    else:
                        ev.append((st, out or None))
                        pending = data[len(data) - keep:] if keep else b""
                else:
                    pending = data
            else:
                if opcode == 8 and avail > 2:
                    c8 = Utf8Ref()
                    if c8.feed(body[2:]) is not None:
                        return fail(ST_UTF8, 1007)
                    if avail == size and c8.incomplete():
                        return fail(ST_UTF8, 1007)
                if avail < size: break
                ev.append((opcode, body or None))
        return ev, validity


def fnv32(b):
    h = 2166136261
    for x in b:
        h = ((h ^ x) * 16777619) & 0xFFFFFFFF
    return h


def show_payload(p):
    """the harness's rendering of a payload"""
    if p is None:
        return "null"
    if len(p) > 256:
        return "#%d:%08x,t=0" % (len(p), fnv32(p))
    return (p.hex() if p else "-") + ",t=0"


# --------------------------------------------------------------------------- parsing harness output

def parse_feed(line):
    """'f st,rd,payload ... v=N' -> ([(st, rd, payload_repr)], stuck, validity) or None"""
    w = line.split()
    if not w or w[0] != "f" or not w[-1].startswith("v="):
        return None
    calls, stuck = [], False
    for x in w[1:-1]:
        if x == "stuck":
            stuck = True
            continue
        parts = x.split(",", 2)
        if len(parts) != 3:
            return None
        calls.append((int(parts[0]), int(parts[1]), parts[2]))
    return calls, stuck, int(w[-1][2:])


# --------------------------------------------------------------------------- generators

UCHARS = ["a", "Z", " ", "0", "\u00e9", "\u00df", "\u07ff", "\u0800", "\u20ac", "\ud7ff", "\ue000", "\uffff",
          "\U00010000", "\U0001f600", "\U0010ffff", "\x00", "\x7f", "\u0080"]
SIZE_EDGES = [0, 1, 2, 3, 124, 125, 126, 127, 128, 255, 256, 257]
BIG_SIZES = [65535, 65536, 65537, 70000]


def rand_text(rng, n):
    """valid UTF-8 of exactly n bytes (n >= 0)"""
    out = b""
    while len(out) < n:
        c = rng.choice(UCHARS).encode("utf-8")
        if len(out) + len(c) <= n:
            out += c
        else:
            out += b"x" * (n - len(out))
    return out


def rand_key(rng):
    r = rng.random()
    if r < 0.08: return bytes(4)
    if r < 0.2: return bytes([rng.choice([0, 0xFF, rng.randrange(256)]) for _ in range(4)])
    return bytes(rng.randrange(256) for _ in range(4))


def pick_size(rng, big_ok):
    r = rng.random()
    if r < 0.55: return rng.randrange(0, 24)
    if r < 0.9: return rng.choice(SIZE_EDGES)
    if big_ok and r < 0.93: return rng.choice(BIG_SIZES)
    return rng.randrange(0, 400)


class Msg:
    def __init__(self, kind, payload, pieces=None, code=None):
        self.kind, self.payload, self.pieces, self.code = kind, payload, pieces, code


def gen_messages(rng, big_ok):
    """a list of messages; data messages may be fragmented with control frames interleaved"""
    msgs, nm = [], rng.choice([1, 1, 2, 3, 4, 6])
    for _ in range(nm):
        r = rng.random()
        if r < 0.36:
            p = rand_text(rng, pick_size(rng, big_ok)); kind = "text"
        elif r < 0.6:
            p = bytes(rng.randrange(256) for _ in range(pick_size(rng, big_ok))) if rng.random() < 0.8 else bytes(pick_size(rng, big_ok)); kind = "bin"
        elif r < 0.74:
            msgs.append(Msg("ping", bytes(rng.randrange(256) for _ in range(rng.choice([0, 1, 5, 125, rng.randrange(126)]))))); continue
        elif r < 0.84:
            msgs.append(Msg("pong", bytes(rng.randrange(256) for _ in range(rng.choice([0, 2, 125, rng.randrange(126)]))))); continue
        else:
            if rng.random() < 0.2:
                msgs.append(Msg("close", b"", code=0))
            else:
                msgs.append(Msg("close", rand_text(rng, rng.choice([0, 0, 1, 2, 3, 5, 17, 123, rng.randrange(124)])),
                                code=rng.choice([1000, 1001, 1002, 1007, 1009, 3000, 4999, 65535, 0x0A0D])))
            if rng.random() < 0.7:
                break
            continue
        pieces = None
        if rng.random() < 0.45:
            k = rng.choice([2, 2, 3, 4])
            cuts = sorted(rng.randrange(len(p) + 1) for _ in range(k - 1))
            pieces = [p[a:b] for a, b in zip([0] + cuts, cuts + [len(p)])]
        msgs.append(Msg(kind, p, pieces))
    return msgs


def frames_of(rng, msgs, masked, fstat=None):
    """[(description, bytes)] of all frames; control frames may be interleaved between fragments.
    `fstat` (optional) counts features of the fragmented messages generated (no randomness consumed)"""
    out = []
    key = (lambda: rand_key(rng)) if masked else (lambda: None)

    def ctl(m):
        if m.kind == "close":
            body = b"" if m.code == 0 else m.code.to_bytes(2, "big") + m.payload
            return ("close", ref_frame(8, True, body, key()))
        return (m.kind, ref_frame(9 if m.kind == "ping" else 10, True, m.payload, key()))

    for m in msgs:
        if m.kind in ("ping", "pong", "close"):
            out.append(ctl(m))
            continue
        op = 1 if m.kind == "text" else 2
        if m.pieces is None:
            out.append((m.kind, ref_frame(op, True, m.payload, key())))
        else:
            acc, f_inside, f_ctl, f_both = b"", False, False, False
            for i, pc in enumerate(m.pieces):
                last = i == len(m.pieces) - 1
                out.append((m.kind + "-frag", ref_frame(op if i == 0 else 0, last, pc, key())))
                acc += pc
                unfinished = False
                if op == 1 and not last:
                    u = Utf8Ref(); u.feed(acc); unfinished = u.incomplete()
                f_inside = f_inside or unfinished
                if not last and rng.random() < 0.25:
                    out.append(ctl(Msg(rng.choice(["ping", "pong"]), bytes(rng.randrange(256) for _ in range(rng.randrange(4))))))
                    f_ctl = True
                    f_both = f_both or unfinished
            if fstat is not None:
                for k, v in (("fragmented_messages", True), ("boundary_inside_character", f_inside), ("control_between_fragments", f_ctl),
                             ("control_while_character_unfinished", f_both)):
                    fstat[k] = fstat.get(k, 0) + int(v)
    return out


MUTATIONS = ["rsv", "opcode", "maskdir", "ctl-long", "ctl-frag", "nonminimal-16", "nonminimal-64", "len-msb",
             "over-max", "bad-utf8", "trunc-utf8", "cont-without-start", "data-in-fragment", "data-after-close",
             "close-len1", "truncate", "garbage"]


def mutate(rng, frames, masked, kind):
    """single-defect mutation of a frame sequence; returns (stream, maxp or None)"""
    key = (lambda: rand_key(rng)) if masked else (lambda: None)
    fr = [f for _, f in frames]
    i = rng.randrange(len(fr)) if fr else 0
    maxp = None
    if kind == "rsv":
        b = bytearray(fr[i]); b[0] |= rng.choice([0x10, 0x20, 0x40, 0x70]); fr[i] = bytes(b)
    elif kind == "opcode":
        b = bytearray(fr[i]); b[0] = (b[0] & 0xF0) | rng.choice([3, 4, 5, 6, 7, 11, 12, 13, 14, 15]); fr[i] = bytes(b)
    elif kind == "maskdir":
        p = bytes(rng.randrange(256) for _ in range(rng.randrange(6)))
        fr.insert(i, ref_frame(rng.choice([1, 2, 9]), True, rand_text(rng, len(p)), None if masked else rand_key(rng)))
    elif kind == "ctl-long":
        p = bytes(rng.randrange(128) for _ in range(rng.choice([126, 127, 200])))
        fr.insert(i, ref_frame(rng.choice([8, 9, 10]), True, p, key()))
    elif kind == "ctl-frag":
        fr.insert(i, ref_frame(rng.choice([8, 9, 10]), False, b"ab", key()))
    elif kind == "nonminimal-16":
        fr.insert(i, ref_frame(2, True, bytes(rng.choice([0, 1, 125])), key(), lenform=2))
    elif kind == "nonminimal-64":
        fr.insert(i, ref_frame(2, True, bytes(rng.choice([0, 125, 126, 300])), key(), lenform=8))
    elif kind == "len-msb":
        k = key()
        fr.insert(i, bytes([0x82, (0x80 if k else 0) | 127]) + bytes([0x80 | rng.randrange(128)]) + bytes(rng.randrange(256) for _ in range(7)) + (k or b""))
    elif kind == "over-max":
        maxp = rng.choice([1, 5, 125, 126, 300])
        fr.insert(i, ref_frame(rng.choice([1, 2]), True, b"y" * (maxp + rng.choice([1, 1, 2, 200])), key()))
    elif kind == "bad-utf8":
        bad = rng.choice([b"\x80", b"\xc0\xaf", b"\xc1\xbf", b"\xe0\x9f\xbf", b"\xed\xa0\x80", b"\xf0\x8f\xbf\xbf",
                          b"\xf4\x90\x80\x80", b"\xf5\x80\x80\x80", b"\xff", b"\xe2\x28\xa1", b"\xc3\x28", b"\xe2\x82\x41"])
        pre = rand_text(rng, rng.randrange(6)); post = rand_text(rng, rng.randrange(6))
        if rng.random() < 0.5:
            fr.insert(i, ref_frame(1, True, pre + bad + post, key()))
        else:
            fr.insert(i, ref_frame(8, True, (1000).to_bytes(2, "big") + pre + bad + post, key()))
    elif kind == "trunc-utf8":
        cut = rng.choice(["é", "€", "\U0001f600"]).encode()
        cut = cut[:rng.randrange(1, len(cut))]
        pre = rand_text(rng, rng.randrange(6))
        r = rng.random()
        if r < 0.4:
            fr.insert(i, ref_frame(1, True, pre + cut, key()))
        elif r < 0.7:
            fr.insert(i, ref_frame(8, True, (1001).to_bytes(2, "big") + pre + cut, key()))
        else:
            fr.insert(i, ref_frame(1, False, pre + cut, key()) + ref_frame(0, True, b"", key()))
    elif kind == "cont-without-start":
        fr.insert(0, ref_frame(0, rng.random() < 0.5, b"abc", key()))
    elif kind == "data-in-fragment":
        fr.insert(i, ref_frame(1, False, b"ab", key()) + ref_frame(rng.choice([1, 2]), True, b"cd", key()))
    elif kind == "data-after-close":
        fr.insert(i, ref_frame(8, True, b"", key()) + ref_frame(9, True, b"p", key()) + ref_frame(rng.choice([1, 2]), True, b"late", key()))
    elif kind == "close-len1":
        fr.insert(i, ref_frame(8, True, b"\x03", key()))
    elif kind == "truncate":
        s = b"".join(fr)
        return s[:rng.randrange(len(s) + 1)], None
    elif kind == "garbage":
        s = bytearray(b"".join(fr))
        for _ in range(rng.choice([1, 1, 2, 4])):
            if s:
                s[rng.randrange(len(s))] = rng.randrange(256)
        return bytes(s), None
    return b"".join(fr), maxp


def splittings(rng, n, tier):
    """lists of cut positions (sorted, inside 1..n-1) : one call, 2-way, byte-by-byte, random k-way"""
    out = [[]]
    if n <= 1:
        return out
    if n <= 48:
        out += [[c] for c in range(1, n)]
    else:
        out += [[c] for c in sorted(set([1, 2, 3, n - 1, n - 2] + [rng.randrange(1, n) for _ in range(10)])) if 0 < c < n]
    if n <= (1500 if tier == "thorough" else 400):
        out.append(list(range(1, n)))
    for _ in range(3):
        k = rng.choice([2, 3, 5, 8])
        out.append(sorted(set(rng.randrange(1, n) for _ in range(k))))
    return out


def chunks_of(stream, cuts):
    e = [0] + list(cuts) + [len(stream)]
    return [stream[a:b] for a, b in zip(e, e[1:])]


def hx(b):
    return b.hex() if b else "-"


class Case:
    """one configuration + stream, fed in several ways (scripts)"""
    def __init__(self, label, flags, maxp, alloc, rngchunk, rng_bytes, stream, cutsets):
        self.label, self.flags, self.maxp, self.alloc, self.rngchunk = label, flags, maxp, alloc, rngchunk
        self.rng_bytes, self.stream, self.cutsets = rng_bytes, stream, cutsets

    def scripts(self):
        head = ["init %d %d %d %d" % (self.flags, self.maxp, self.alloc, self.rngchunk)]
        if self.rng_bytes:
            head.append("rng " + hx(self.rng_bytes))
        return [head + ["feed " + hx(c) for c in chunks_of(self.stream, cuts)] for cuts in self.cutsets]


def events_of(outs):
    """application view of a run of `feed` lines: [(st, payload_repr)] for st != 0, stop at the first st < 0;
    also any structural complaint"""
    ev, problems, validity = [], [], None
    dead = False
    for line in outs:
        p = parse_feed(line)
        if p is None:
            problems.append("unparsable: " + line[:80])
            break
        calls, stuck, validity = p
        if stuck:
            problems.append("decode makes no progress")
        if dead:
            continue
        for st, rd, pl in calls:
            if pl != "null" and not pl.endswith(",t=0"):
                problems.append("payload not NUL-terminated: " + pl[-12:])
            if st != 0:
                ev.append((st, pl))
            elif pl != "null":
                problems.append("payload returned with status OK")
            if st < 0:
                dead = True
                break
    return ev, problems, validity


def status_class(st):
    return {1: "text", 2: "binary", 8: "close", 9: "ping", 10: "pong", 0x11: "text-first", 0x12: "binary-first",
            0x21: "text-next", 0x22: "binary-next", 0x41: "text-last", 0x42: "binary-last", -1: "PROTOCOL_ERROR",
            -2: "STREAM_BROKEN", -3: "MEMORY_ERROR", -5: "MAXIMUM_SIZE_EXCEEDED", -6: "UTF8_ENCODING_ERROR"}.get(st, str(st))


# --------------------------------------------------------------------------- the check

class Spec:
    props_module = "Mhd.Props.C19"
    lean_targets = ["Mhd.Props.C19", "drv_ws"]
    required_theorems = ["Mhd.C19.split_independent", "Mhd.C19.split_independent_init", "Mhd.C19.roundtrip_data",
                         "Mhd.C19.roundtrip_pingpong", "Mhd.C19.roundtrip_close", "Mhd.C19.roundtrip_close_noreason",
                         "Mhd.C19.roundtrip_fragmented_assembled", "Mhd.C19.roundtrip_fragmented_fragments",
                         "Mhd.C19.fragments_binary", "Mhd.C19.fragments_lossless",
                         "Mhd.C19.encode_preserves_decoder_state", "Mhd.C19.decode_interleaved_with_encode_independent",
                         "Mhd.C19.decode_no_fault",
                         "Mhd.C19.feed_no_fault", "Mhd.C19.init_ready", "Mhd.C19.reserved_bits", "Mhd.C19.unknown_opcode",
                         "Mhd.C19.fragmented_control", "Mhd.C19.bad_frame_sequence", "Mhd.C19.wrong_mask_or_control_length",
                         "Mhd.C19.over_max_7bit", "Mhd.C19.length16", "Mhd.C19.length64", "Mhd.C19.over_max_continuation",
                         "Mhd.C19.invalid_utf8_text", "Mhd.C19.invalid_utf8_close", "Mhd.C19.truncated_utf8_text",
                         "Mhd.C19.truncated_utf8_close", "Mhd.C19.F7_witness", "Mhd.C19.F7c_witness"]
    trusted_base = ["Lean 4 kernel", "axioms: propext, Classical.choice, Quot.sound at most (audited per theorem)",
                    "hand-written model lean/Mhd/Model/WS.lean + WSDecode.lean, tied to mhd_websocket.c by this run's correspondence",
                    "tools/props/C19.py gen_ws (enum values regenerated), reference framer RefDecoder/ref_frame in the same file",
                    "harness/h_ws.c, gcc, ASan/UBSan (alignment checks in a separate run)"]
    assumptions = ["size_t is 64 bit (regenerated, checked)",
                   "malloc/realloc callbacks succeed iff the request is <= a fixed limit (scripted)",
                   "API used as documented: non-NULL output pointers, a negative status ends the session",
                   "payload sizes in the correspondence <= 76 800 bytes; the theorems have no size bound"]

    def gen(self, ctx):
        gen_ws()

    def build(self, ctx):
        srcs = [os.path.join(vlib.VERIF, "harness/h_ws.c"), os.path.join(ws_dir(), "sha1.c")]
        self.harness = vlib.cc("h_ws", srcs, extra=["-I" + ws_dir(), "-fno-sanitize=alignment"])
        self.harness_al = vlib.cc("h_ws_align", srcs, extra=["-I" + ws_dir()])
        self.driver = vlib.driver_path("drv_ws")

    # ---- running
    def run_scripts(self, scripts, binary=None):
        """returns list of output-line lists (one per script) and rc/stderr; bisects an abort to a script"""
        lines = [l for s in scripts for l in s]
        out, rc, err = vlib.run_lines(binary or self.harness, lines, timeout=900)
        res, k = [], 0
        for s in scripts:
            res.append(out[k:k + len(s)])
            k += len(s)
        return res, rc, err, len(out)

    def locate_abort(self, scripts, nout):
        k = 0
        for i, s in enumerate(scripts):
            if k + len(s) > nout:
                return i
            k += len(s)
        return None

    def run_cases(self, cases, failures, stats, do_model=True):
        scripts, owner = [], []
        for ci, c in enumerate(cases):
            for si, s in enumerate(c.scripts()):
                scripts.append(s); owner.append((ci, si))
        B = 1500
        batches = [(i, scripts[i:i + B]) for i in range(0, len(scripts), B)]
        houts, mouts = [None] * len(scripts), [None] * len(scripts)

        def work(job):
            i, batch, which = job
            return i, which, self.run_scripts(batch, self.harness if which == "h" else self.driver)

        jobs = [(i, b, "h") for i, b in batches] + ([(i, b, "m") for i, b in batches] if do_model else [])
        with ThreadPoolExecutor(max_workers=max(2, vlib.NCPU - 2)) as ex:
            for i, which, (res, rc, err, nout) in ex.map(work, jobs):
                batch = scripts[i:i + B]
                if which == "h":
                    for j, r in enumerate(res):
                        houts[i + j] = r
                    if rc != 0:
                        bad = self.locate_abort(batch, nout)
                        if bad is None:       # all lines answered, then a report at exit (leak): find the script
                            bad = self.bisect_exit_report(batch)
                        ci, si = owner[i + bad] if bad is not None else (None, None)
                        sig = "ws: sanitizer report: " + self.san_kind(err)
                        failures.append(vlib.Failure("sanitizer", sig, err[-1800:], batch[bad] if bad is not None else [], ENGINE))
                        stats["sanitizer"] += 1
                else:
                    for j, r in enumerate(res):
                        mouts[i + j] = r
                    if rc != 0:
                        failures.append(vlib.Failure("model", "ws: model driver crashed", err[-800:], [], ENGINE))
        # per case analysis
        k = 0
        for ci, c in enumerate(cases):
            ns = len(c.cutsets)
            self.judge(c, scripts[k:k + ns], houts[k:k + ns], mouts[k:k + ns] if do_model else None, failures, stats)
            k += ns

    def san_kind(self, err):
        m = re.search(r"(heap-buffer-overflow|stack-buffer-overflow|heap-use-after-free|SEGV|LeakSanitizer|runtime error: [a-z -]+|attempting double-free|negative-size-param)", err)
        return re.sub(r"\d+", "N", m.group(1)) if m else "abort"

    def bisect_exit_report(self, batch):
        lo, hi = 0, len(batch)
        while hi - lo > 1:
            mid = (lo + hi) // 2
            _, rc, _, _ = self.run_scripts(batch[lo:mid])
            if rc != 0:
                hi = mid
            else:
                lo = mid
        return lo

    def judge(self, c, scripts, houts, mouts, failures, stats):
        stats["cases"] += 1
        stats["scripts"] += len(scripts)
        base_ev = None
        ref_ev, ref_valid = RefDecoder(c.flags, c.maxp, c.alloc, c.rng_bytes).run(c.stream)
        ref_ev = [(st, show_payload(p)) for st, p in ref_ev]
        for si, (s, h) in enumerate(zip(scripts, houts)):
            nhead = 2 if c.rng_bytes else 1
            if h is None or len(h) < len(s):
                continue        # aborted batch: reported as sanitizer failure
            # (ii) model vs code, line by line
            if mouts is not None and mouts[si] is not None and mouts[si] != h:
                m = mouts[si]
                j = next((j for j in range(len(s)) if j >= len(m) or m[j] != h[j]), 0)
                mj = m[j] if j < len(m) else "<nothing>"
                kind = "model" if mj.startswith("fault") else "diff"
                failures.append(vlib.Failure(kind, "ws: model/code differ on %s (%s)" % (s[j].split()[0], c.label),
                                             "line %d `%s`: code `%s` model `%s`" % (j, s[j][:100], h[j][:200], mj[:200]), s, ENGINE))
                stats["diff"] += 1
            if h[0] != "init 0":
                continue
            ev, problems, validity = events_of(h[nhead:])
            for p in problems:
                failures.append(vlib.Failure("oracle", "ws: " + re.sub(r"[0-9a-f]{4,}", "X", p), p, s, ENGINE))
            # read-length sanity: every call's read_len within the bytes offered
            for line, chunk in zip(h[nhead:], s[nhead:]):
                p = parse_feed(line)
                if p:
                    tot = sum(rd for st, rd, _ in p[0] if st >= 0)
                    n = 0 if chunk.split()[1] == "-" else len(chunk.split()[1]) // 2
                    if tot > n or any(rd > n for _, rd, _ in p[0]):
                        failures.append(vlib.Failure("oracle", "ws: read_len exceeds the bytes offered", line[:200], s, ENGINE))
            # (iii-a) split independence
            if si == 0:
                base_ev, base_valid = ev, validity
                for st, _ in ev:
                    stats["status"][status_class(st)] = stats["status"].get(status_class(st), 0) + 1
                if not ev:
                    stats["status"]["(no frame yet)"] = stats["status"].get("(no frame yet)", 0) + 1
                # (iii-b) the reference framer
                if ev != ref_ev or (validity != ref_valid):
                    d = next((j for j in range(max(len(ev), len(ref_ev))) if j >= len(ev) or j >= len(ref_ev) or ev[j] != ref_ev[j]), None)
                    got = ev[d] if d is not None and d < len(ev) else ("end", "")
                    exp = ref_ev[d] if d is not None and d < len(ref_ev) else ("end", "")
                    sig = "ws: reference framer expects %s, code gives %s (%s)" % (status_class(exp[0]) if exp[0] != "end" else "end",
                                                                                   status_class(got[0]) if got[0] != "end" else "end", c.label)
                    failures.append(vlib.Failure("oracle", sig, "event %s: expected %s got %s; validity expected %s got %s; stream %s" %
                                                 (d, exp, got, ref_valid, validity, c.stream.hex()[:400]), s, ENGINE))
                    stats["ref_mismatch"] += 1
                # (iii-c) cases built from a message: what the documented API promises for that message
                want_ev = getattr(c, "expect", None)
                if want_ev is not None and (ev != want_ev or validity != 1):
                    d = next((j for j in range(max(len(ev), len(want_ev))) if j >= len(ev) or j >= len(want_ev) or ev[j] != want_ev[j]), None)
                    failures.append(vlib.Failure("oracle", "ws: round trip of a fragmented message does not return the message (%s)" % c.label,
                                                 "event %s: decoder gave %s, the message sent requires %s; validity %s; sender script %s" %
                                                 (d, ev[d:d + 2] if d is not None else ev[-2:], want_ev[d:d + 2] if d is not None else want_ev[-2:],
                                                  validity, getattr(c, "sender", [])[:12]), getattr(c, "sender", []) + s, ENGINE))
                    stats["msg_mismatch"] = stats.get("msg_mismatch", 0) + 1
            elif base_ev is not None and (ev != base_ev or validity != base_valid):
                d = next((j for j in range(max(len(ev), len(base_ev))) if j >= len(ev) or j >= len(base_ev) or ev[j] != base_ev[j]), None)
                one = base_ev[d] if d is not None and d < len(base_ev) else ("end", "")
                two = ev[d] if d is not None and d < len(ev) else ("end", "")
                sig = "ws: split dependence: one call gives %s, pieces give %s (%s)" % (
                    status_class(one[0]) if one[0] != "end" else "end", status_class(two[0]) if two[0] != "end" else "end", c.label)
                failures.append(vlib.Failure("oracle", sig,
                                             "stream %s flags=%d max=%d: in one call %s (validity %s); in pieces %s: %s (validity %s)" %
                                             (c.stream.hex()[:400], c.flags, c.maxp, base_ev[-3:], base_valid,
                                              [len(x) for x in chunks_of(c.stream, c.cutsets[si])][:40], ev[-3:], validity), s, ENGINE))
                stats["split_dep"] += 1

    # ---- case construction
    def stream_cases(self, ctx, n, tier):
        rng = ctx.rng
        cases = []
        self.stream_frag_features = {}
        for i in range(n):
            client = rng.random() < 0.4
            flags = (CLIENT if client else 0) | (WANTFRAG if rng.random() < 0.45 else 0) | (GENCLOSE if rng.random() < 0.3 else 0)
            big_ok = (i % 97 == 0)
            msgs = gen_messages(rng, big_ok)
            if i % 400 == 7:
                msgs.insert(0, Msg("bin", bytes((j * 13 + i) & 0xFF for j in range(rng.choice(BIG_SIZES)))))
            fstat = {}
            frames = frames_of(rng, msgs, masked=not client, fstat=fstat)
            maxp, label = 0, "valid"
            r = rng.random()
            if r < 0.5 and frames:
                kind = rng.choice(MUTATIONS)
                stream, mp = mutate(rng, frames, not client, kind)
                label = kind
                if mp:
                    maxp = mp
            else:
                stream = b"".join(f for _, f in frames)
                if rng.random() < 0.15:
                    maxp = rng.choice([125, 126, 1000, 65535, 65536, 100000])
                    label = "valid+max"
            alloc = 1 << 40
            if rng.random() < 0.04:
                alloc = rng.choice([12, 64, 130]); label += "+alloclimit"
            rb = bytes(rng.randrange(256) for _ in range(rng.choice([0, 3, 4, 8]))) if client else b""
            cuts = splittings(rng, len(stream), tier)
            if len(stream) > 3000:
                cuts = [cuts[0]] + [cs for cs in cuts[1:] if len(cs) <= 8][:6]
            cases.append(Case(label, flags, maxp, alloc, rng.randrange(1, 5), rb, stream, cuts))
            if label.startswith("valid"):
                for k, v in fstat.items():
                    self.stream_frag_features[k] = self.stream_frag_features.get(k, 0) + v
        return cases

    def size_class_cases(self, ctx):
        """every length-encoding boundary × opcode × role, fed whole, in two and in several pieces"""
        rng = ctx.rng
        cases = []
        for size in [0, 1, 2, 125, 126, 127, 65535, 65536, 70000]:
            for client in (False, True):
                for op in (1, 2):
                    p = rand_text(rng, size) if op == 1 else bytes((j * 7 + 3) & 0xFF for j in range(size))
                    key = None if client else rand_key(rng)
                    st = ref_frame(op, True, p, key)
                    n = len(st)
                    cuts = [[], [1], [2], [n - 1], [n // 2], sorted({1, 2, 3, 5, 9, 10, 13, 14, 15, n // 3, n - 2} & set(range(1, n)))]
                    if n < 300:
                        cuts.append(list(range(1, n)))
                    for flags in ((CLIENT if client else 0), (CLIENT if client else 0) | WANTFRAG):
                        cases.append(Case("size-class", flags, 0, 1 << 40, 4, b"", st, [c for c in cuts if all(0 < x < n for x in c)]))
        return cases

    def header_pair_cases(self, ctx, tier):
        """all 65 536 values of the first two bytes, per role, in one piece and byte by byte;
        thorough: also after a first fragment and after a close frame"""
        cases = []
        prefixes = [("fresh", lambda client: b"")]
        if tier == "thorough":
            prefixes += [("in-fragment", lambda client: ref_frame(1, False, b"ab", None if client else b"\x01\x02\x03\x04")),
                         ("after-close", lambda client: ref_frame(8, True, b"", None if client else b"\x01\x02\x03\x04"))]
        for name, pf in prefixes:
            for client in (False, True):
                pre = pf(client)
                for b0 in range(256):
                    for b1 in range(256):
                        st = pre + bytes([b0, b1])
                        cuts = [[]] if (b0 * 256 + b1) % 4 else [[], [len(st) - 1]]
                        cases.append(Case("header-pair/" + name, (CLIENT if client else 0) | (GENCLOSE if b1 & 1 else 0),
                                          100 if b0 & 1 else 0, 1 << 40, 4, b"", st, cuts))
        return cases

    # ---- encoders, utf8, close-reason splitting: direct ops (model diff + reference)
    def direct_ops(self, ctx, n, failures, stats):
        rng = ctx.rng
        scripts, expect = [], []
        for i in range(n):
            client = rng.random() < 0.6
            flags = CLIENT if client else 0
            rb = bytes(rng.randrange(256) for _ in range(rng.choice([0, 4, 8, 12, 16])))
            s = ["init %d 0 %d %d" % (flags, 1 << 40, rng.randrange(1, 5)), "rng " + hx(rb)]
            e = [None, None]
            pool = rb
            for _ in range(rng.randrange(1, 6)):
                r = rng.random()
                key = None
                def take():
                    nonlocal pool
                    k = (pool[:4] + b"\0\0\0\0")[:4]; pool = pool[4:]
                    return k
                if r < 0.3:
                    p = rand_text(rng, pick_size(rng, i % 61 == 0)) if rng.random() < 0.85 else bytes(rng.randrange(256) for _ in range(rng.randrange(1, 6)))
                    frag = rng.choice([0, 0, 0, 1, 2, 3])
                    u = Utf8Ref(); bad = u.feed(p)
                    step = "-" if frag == 0 and rng.random() < 0.5 else "0"
                    s.append("enc_text %s %d %s" % (hx(p), frag, step))
                    if bad is not None or (u.incomplete() and frag == 0):
                        e.append(("e", ST_UTF8, None))
                    else:
                        key = take() if client else None
                        e.append(("e", 0, ref_frame(1 if frag in (0, 1) else 0, frag in (0, 3), p, key)))
                elif r < 0.5:
                    p = bytes(rng.randrange(256) for _ in range(pick_size(rng, i % 61 == 1)))
                    frag = rng.choice([0, 1, 2, 3, 4])
                    s.append("enc_bin %s %d" % (hx(p), frag))
                    if frag > 3:
                        e.append(("e", ST_PARAM, None))
                    else:
                        key = take() if client else None
                        e.append(("e", 0, ref_frame(2 if frag in (0, 1) else 0, frag in (0, 3), p, key)))
                elif r < 0.65:
                    p = bytes(rng.randrange(256) for _ in range(rng.choice([0, 1, 125, 126, rng.randrange(200)])))
                    which = rng.choice(["ping", "pong"])
                    s.append("enc_%s %s" % (which, hx(p)))
                    if len(p) > 125:
                        e.append(("e", ST_MAX, None))
                    else:
                        key = take() if client else None
                        e.append(("e", 0, ref_frame(9 if which == "ping" else 10, True, p, key)))
                elif r < 0.85:
                    code = rng.choice([0, 0, 999, 1000, 1001, 1007, 4000, 65535, 500])
                    rs = rand_text(rng, rng.choice([0, 0, 1, 5, 123, 124, rng.randrange(130)]))
                    if rng.random() < 0.15:
                        rs += rng.choice([b"\xc3", b"\xff", b"\xe2\x82"])
                    s.append("enc_close %d %s" % (code, hx(rs)))
                    u = Utf8Ref(); bad = u.feed(rs)
                    if (code != 0 and code < 1000) or (rs and code == 0):
                        e.append(("e", ST_PARAM, None))
                    elif len(rs) > 123:
                        e.append(("e", ST_MAX, None))
                    elif bad is not None or u.incomplete():
                        e.append(("e", ST_UTF8, None))
                    else:
                        key = take() if client else None
                        e.append(("e", 0, ref_frame(8, True, (code.to_bytes(2, "big") + rs) if code else b"", key)))
                else:
                    p = bytes(rng.randrange(256) for _ in range(rng.choice([0, 1, 2, 3, 10, 125, 126])))
                    s.append("split_close " + hx(p))
                    if len(p) == 1:
                        e.append(("s", "s -1 0 null"))
                    elif len(p) > 125:
                        e.append(("s", "s -5 0 null"))
                    else:
                        code = int.from_bytes(p[:2], "big") if len(p) >= 2 else 0
                        e.append(("s", "s 0 %d %s" % (code, ("2:" + p[2:].hex()) if len(p) > 2 else "null")))
            scripts.append(s); expect.append(e)
        # every length-encoding boundary, both roles, text and binary, whole and as first fragment
        for size in [0, 1, 125, 126, 127, 128, 65535, 65536, 65537]:
            for client in (False, True):
                key = bytes([0x11, 0x22, 0x33, 0x44])
                s = ["init %d 0 %d 4" % (CLIENT if client else 0, 1 << 40), "rng " + hx(key * 4)]
                e = [None, None]
                pb = bytes((j * 5 + 1) & 0xFF for j in range(size)); pt = rand_text(rng, size)
                k = key if client else None
                s.append("enc_bin %s 0" % hx(pb)); e.append(("e", 0, ref_frame(2, True, pb, k)))
                s.append("enc_text %s 0 -" % hx(pt)); e.append(("e", 0, ref_frame(1, True, pt, k)))
                s.append("enc_bin %s 1" % hx(pb)); e.append(("e", 0, ref_frame(2, False, pb, k)))
                s.append("enc_bin %s 3" % hx(pb)); e.append(("e", 0, ref_frame(0, True, pb, k)))
                scripts.append(s); expect.append(e)
        self.run_direct(scripts, expect, failures, stats, "encoders")

    def run_direct(self, scripts, expect, failures, stats, what):
        hres, hrc, herr, hn = self.run_scripts(scripts)
        mres, mrc, merr, mn = self.run_scripts(scripts, self.driver)
        if hrc != 0:
            bad = self.locate_abort(scripts, hn)
            if bad is None:
                bad = self.bisect_exit_report(scripts)
            failures.append(vlib.Failure("sanitizer", "ws: sanitizer report: " + self.san_kind(herr), herr[-1800:], scripts[bad], ENGINE))
            return
        for s, e, h, m in zip(scripts, expect, hres, mres):
            stats["direct_ops"] += len(s)
            if h != m:
                j = next((j for j in range(len(s)) if j >= len(m) or m[j] != h[j]), 0)
                failures.append(vlib.Failure("diff", "ws: model/code differ on %s (%s)" % (s[j].split()[0], what),
                                             "line `%s`: code `%s` model `%s`" % (s[j][:100], h[j][:200], (m[j] if j < len(m) else "")[:200]), s, ENGINE))
            for line, ex, out in zip(s, e, h):
                if ex is None:
                    continue
                if ex[0] == "s":
                    ok = out == ex[1]
                    want = ex[1]
                elif ex[0] == "u":
                    ok = out.split()[:2] == ex[1].split()[:2] and (ex[2] is None or out.split()[3] == str(ex[2]))
                    want = ex[1]
                else:
                    want = "e %d %s" % (ex[1], show_payload(ex[2]))
                    ok = out.split(" step=")[0] == want
                if not ok:
                    failures.append(vlib.Failure("oracle", "ws: reference disagrees on %s" % line.split()[0],
                                                 "`%s`: code `%s`, reference `%s`" % (line[:120], out[:200], want[:200]), s, ENGINE))

    def utf8_cases(self, ctx, tier, failures, stats):
        """the validator itself: all 1-byte inputs from every step value 0..11, all 2-byte inputs from
        the start state, 3-/4-byte boundary sequences; reference = RFC 3629 ranges (+ CPython's decoder)"""
        lines, ex = ["init 0 0 1000 4"], [None]

        def add(bs):
            u = Utf8Ref(); bad = u.feed(bs)
            res = 0 if bad is not None else (2 if u.incomplete() else 1)
            # cross-check the reference against CPython
            try:
                bs.decode("utf-8"); py = 1
            except UnicodeDecodeError as err:
                py = 2 if (err.reason == "unexpected end of data" and err.end == len(bs)) else 0
            if py != res:
                failures.append(vlib.Failure("oracle", "ws: reference UTF-8 validator disagrees with CPython", bs.hex(), [], ENGINE))
            lines.append("utf8 %s 0" % hx(bs)); ex.append(("u", "u %d" % res, bad if bad is not None else len(bs)))

        for a in range(256):
            add(bytes([a]))
            for st in range(1, 12):
                lines.append("utf8 %02x %d" % (a, st)); ex.append(None)
        for a in range(0x80 if tier == "quick" else 0, 256):
            for b in range(256):
                add(bytes([a, b]))
        edge = [0x7F, 0x80, 0x8F, 0x90, 0x9F, 0xA0, 0xBF, 0xC0]
        for lead in [0xE0, 0xE1, 0xEC, 0xED, 0xEE, 0xEF]:
            for b in edge:
                for c in edge:
                    add(bytes([lead, b, c]))
        for lead in [0xF0, 0xF1, 0xF3, 0xF4, 0xF5]:
            for b in edge:
                for c in edge:
                    for d in [0x7F, 0x80, 0xBF, 0xC0]:
                        add(bytes([lead, b, c, d]))
        # expected step is not part of the reference: compare only result (+ offset)
        exp2 = [None if e is None else ("u", e[1] + " x", e[2]) for e in ex]
        self.run_direct([lines], [exp2], failures, stats, "check_utf8")
        stats["utf8_inputs"] = len(lines) - 1

    def accept_cases(self, ctx, failures, stats):
        rng = ctx.rng
        keys = [b"dGhlIHNhbXBsZSBub25jZQ==", b"", b"x", b"A" * 55, b"B" * 56, b"C" * 64, b"D" * 119, b"E" * 200]
        keys += [bytes(rng.randrange(1, 256) for _ in range(rng.randrange(0, 90))) for _ in range(60)]
        lines = ["accept " + hx(k) for k in keys]
        out, rc, err = vlib.run_lines(self.harness, lines)
        if rc != 0:
            failures.append(vlib.Failure("sanitizer", "ws: sanitizer report: " + self.san_kind(err), err[-1500:], lines, ENGINE))
            return
        for k, o in zip(keys, out):
            want = "a 0 " + base64.b64encode(hashlib.sha1(k + b"258EAFA5-E914-47DA-95CA-C5AB0DC85B11").digest()).decode()
            if o != want:
                failures.append(vlib.Failure("oracle", "ws: Sec-WebSocket-Accept differs from RFC 6455 4.2.2",
                                             "key %s: code `%s`, reference `%s`" % (k.hex(), o, want), ["accept " + hx(k)], ENGINE))
        stats["accept_keys"] = len(keys)

    def roundtrip_cases(self, ctx, n, failures, stats):
        """real two-phase round trip: encode with one role, feed the produced bytes to the other role"""
        rng = ctx.rng
        plans = []
        for i in range(n):
            enc_client = rng.random() < 0.5
            msgs = gen_messages(rng, i % 40 == 0)
            firstclose = next((j for j, m in enumerate(msgs) if m.kind == "close"), None)
            if firstclose is not None:
                msgs = msgs[:firstclose + 1]       # a receiver refuses data frames after a close frame
            ops, expect = [], []
            for m in msgs:
                if m.kind == "text" and m.pieces is not None:
                    # the caller of encode_text has to carry utf8_step between fragments; cutting at
                    # character boundaries keeps every fragment complete, so step 0 is right each time
                    t = m.payload.decode("utf-8")
                    cuts = sorted(rng.randrange(len(t) + 1) for _ in range(len(m.pieces) - 1))
                    m.pieces = [t[a:b].encode("utf-8") for a, b in zip([0] + cuts, cuts + [len(t)])]
                if m.kind in ("text", "bin"):
                    name = "enc_text" if m.kind == "text" else "enc_bin"
                    code = 1 if m.kind == "text" else 2
                    if m.pieces is None:
                        ops.append("%s %s 0%s" % (name, hx(m.payload), " -" if m.kind == "text" else ""))
                    else:
                        for j, pc in enumerate(m.pieces):
                            fr = 1 if j == 0 else (3 if j == len(m.pieces) - 1 else 2)
                            ops.append("%s %s %d%s" % (name, hx(pc), fr, " 0" if m.kind == "text" else ""))
                    expect.append((code, m.payload or None))
                elif m.kind in ("ping", "pong"):
                    ops.append("enc_%s %s" % (m.kind, hx(m.payload)))
                    expect.append((9 if m.kind == "ping" else 10, m.payload or None))
                else:
                    ops.append("enc_close %d %s" % (m.code, hx(m.payload)))
                    expect.append((8, ((m.code.to_bytes(2, "big") + m.payload) if m.code else b"") or None))
            rb = bytes(rng.randrange(256) for _ in range(4 * len(ops))) if enc_client else b""
            plans.append((enc_client, rb, ops, expect))
        # NOTE: enc_text with FOLLOWING/LAST needs the caller to carry utf8_step between calls; the pieces are
        # cut at arbitrary byte positions, so the step is carried by a tiny state machine here: we simply pass
        # the step the previous call printed.  To keep it one-phase per script, text pieces are re-cut at
        # character boundaries instead.
        scripts1 = []
        for enc_client, rb, ops, _ in plans:
            scripts1.append(["init %d 0 %d 4" % (CLIENT if enc_client else 0, 1 << 40), "rng " + hx(rb)] + ops)
        res1, rc, err, nout = self.run_scripts(scripts1)
        if rc != 0:
            bad = self.locate_abort(scripts1, nout)
            failures.append(vlib.Failure("sanitizer", "ws: sanitizer report: " + self.san_kind(err), err[-1500:],
                                         scripts1[bad] if bad is not None else [], ENGINE))
            return
        scripts2, keep = [], []
        for (enc_client, rb, ops, expect), s1, o1 in zip(plans, scripts1, res1):
            frames, okk = b"", True
            for line in o1[2:]:
                m = re.match(r"e 0 ([0-9a-f]+|-),t=0", line)
                if not m:
                    okk = False
                    break
                frames += bytes.fromhex(m.group(1)) if m.group(1) != "-" else b""
            if not okk:
                continue      # long frames are printed as digests: covered by the reference-encoding check instead
            flags = 0 if enc_client else CLIENT
            cuts = sorted(set(rng.randrange(1, max(2, len(frames))) for _ in range(rng.choice([0, 1, 3])))) if len(frames) > 1 else []
            scripts2.append(["init %d 0 %d 4" % (flags, 1 << 40)] + ["feed " + hx(c) for c in chunks_of(frames, [c for c in cuts if 0 < c < len(frames)])])
            keep.append((s1, expect))
        res2, rc, err, nout = self.run_scripts(scripts2)
        if rc != 0:
            bad = self.locate_abort(scripts2, nout)
            failures.append(vlib.Failure("sanitizer", "ws: sanitizer report: " + self.san_kind(err), err[-1500:],
                                         scripts2[bad] if bad is not None else [], ENGINE))
            return
        for (s1, expect), s2, o2 in zip(keep, scripts2, res2):
            ev, problems, _ = events_of(o2[1:])
            want = [(st, show_payload(p)) for st, p in expect]
            if ev != want or problems:
                failures.append(vlib.Failure("oracle", "ws: round trip encode -> decode does not return the message",
                                             "encoded by `%s`; decoder saw %s, expected %s" % (s1[2:][:6], ev[:4], want[:4]), s1 + s2, ENGINE))
            stats["roundtrips"] += 1

    # ---- fragmented messages: real encoders (utf8_step carried by the application) -> wire -> decoder
    MB = {2: ["\u00e9", "\u0080", "\u07ff"], 3: ["\u0800", "\u20ac", "\ud7ff", "\ue000", "\uffff"],
          4: ["\U00010000", "\U0001f600", "\U0010ffff"]}

    @staticmethod
    def incomplete_tail(data):
        """number of trailing bytes of `data` that are the beginning of an unfinished character (CPython's decoder)"""
        try:
            data.decode("utf-8")
            return 0
        except UnicodeDecodeError as err:
            if err.reason == "unexpected end of data" and err.end == len(data):
                return len(data) - err.start
            raise

    @classmethod
    def message_events(cls, op, steps, want):
        """what the documented API hands out for the message sent as `steps` = [(kind, payload)], kind in
        first / frag / last / ping / pong: assembling mode = control frames as they come, then the whole
        message; fragment mode = FIRST / NEXT / LAST fragments, text fragments cut back to complete characters"""
        ev, carry, whole = [], b"", b""
        for kind, p in steps:
            if kind in ("ping", "pong"):
                ev.append((9 if kind == "ping" else 10, p or None))
                continue
            whole += p
            if not want:
                continue
            data = carry + p
            if kind == "last":
                ev.append((op | 0x40, data or None))
                continue
            keep = cls.incomplete_tail(data) if op == 1 else 0
            ev.append((op | (0x10 if kind == "first" else 0x20), data[:len(data) - keep] or None))
            carry = data[len(data) - keep:]
        if not want:
            ev.append((op, whole or None))
        return ev

    def frag_plans(self, ctx, n):
        """[(label, op, steps)]: a systematic part (every way of cutting one multi-byte character over 2..4
        frames x what is sent between the pieces) and n random messages"""
        rng = ctx.rng
        plans = []
        between = [[], [("ping", b"")], [("pong", b"po")], [("ping", b"\xc3"), ("pong", bytes(125))], [("frag", b"")],
                   [("frag", b""), ("ping", b"p"), ("frag", b"")]]
        for nb, chars in self.MB.items():
            for ch in chars:
                cb = ch.encode("utf-8")
                for mask in range(1, 1 << (nb - 1)):           # non-empty subsets of the inner cut positions
                    cuts = [i + 1 for i in range(nb - 1) if mask >> i & 1]
                    for bi, btw in enumerate(between):
                        pre, post = rand_text(rng, rng.randrange(4)), rand_text(rng, rng.randrange(4))
                        data = pre + cb + post
                        pos = [0] + [len(pre) + c for c in cuts] + [len(data)]
                        pieces = [data[a:b] for a, b in zip(pos, pos[1:])]
                        steps = [("first", pieces[0])]
                        for pc in pieces[1:]:
                            steps += btw
                            steps.append(("frag", pc))
                        steps[-1] = ("last", steps[-1][1])
                        plans.append(("split-char%d/%s" % (nb, "plain" if not btw else "between%d" % bi), 1, steps))
        for i in range(n):
            op = 1 if rng.random() < 0.7 else 2
            size = pick_size(rng, i % 150 == 0)
            data = rand_text(rng, size) if op == 1 else bytes(rng.randrange(256) for _ in range(size))
            if op == 1 and rng.random() < 0.6:                 # make sure there are multi-byte characters to cut
                data = "".join(rng.choice(self.MB[rng.choice([2, 3, 4])]) for _ in range(rng.randrange(1, 6))).encode("utf-8") + data[:40].decode("utf-8", "ignore").encode("utf-8")
            k = rng.choice([2, 2, 3, 3, 4, 5, 7])
            cuts = sorted(rng.randrange(len(data) + 1) for _ in range(k - 1))
            pieces = [data[a:b] for a, b in zip([0] + cuts, cuts + [len(data)])]
            steps = [("first", pieces[0])]
            for pc in pieces[1:]:
                while rng.random() < 0.4:
                    steps.append((rng.choice(["ping", "pong"]), bytes(rng.randrange(256) for _ in range(rng.choice([0, 1, 3, 125, rng.randrange(126)])))))
                steps.append(("frag", pc))
            steps[-1] = ("last", steps[-1][1])
            plans.append(("random-%s" % ("text" if op == 1 else "bin"), op, steps))
        return plans

    def fragmented_roundtrip_cases(self, ctx, n, failures, stats):
        """phase 1: the sending application of theorem roundtrip_fragmented_* (encode_text with its utf8_step
        variable / encode_binary, FIRST - FOLLOWING… - LAST, encode_ping/pong in between) on the real code and
        on the model, each frame compared with the RFC 6455 reference framing; phase 2: the bytes produced
        are fed to a receiver of the opposite role, assembling and fragment mode, several splittings (run_cases:
        model = code, reference decoder, split independence) + the message-level expectation."""
        rng = ctx.rng
        plans = self.frag_plans(ctx, n)
        fs = {"messages": 0, "assembling": 0, "fragment_mode": 0, "sender_client": 0, "sender_server": 0, "text": 0, "binary": 0,
              "control_between_fragments": 0, "boundary_inside_character": 0, "control_while_character_unfinished": 0,
              "empty_fragments": 0, "all_zero_key": 0, "max_payload_exact": 0, "max_payload_exceeded": 0,
              "frames_per_message": {}, "boundaries_inside_character_total": 0}
        jobs = []
        for label, op, steps in plans:
            for enc_client in ((False, True) if label.startswith("split-char") else (rng.random() < 0.5,)):
                keys = []
                for _ in steps:
                    r = rng.random()
                    keys.append(bytes(4) if r < 0.12 else (bytes([0, 0, 0, rng.randrange(1, 256)]) if r < 0.18 else bytes(rng.randrange(256) for _ in range(4))))
                lines = ["init %d 0 %d %d" % (CLIENT if enc_client else 0, 1 << 40, rng.randrange(1, 5)),
                         "rng " + hx(b"".join(keys) if enc_client else b"")]
                frames = []
                for (kind, pl), key in zip(steps, keys):
                    k = key if enc_client else None
                    if kind in ("ping", "pong"):
                        lines.append("enc_%s %s" % (kind, hx(pl)))
                        frames.append(ref_frame(9 if kind == "ping" else 10, True, pl, k))
                    else:
                        fr = {"first": 1, "frag": 2, "last": 3}[kind]
                        lines.append(("enc_text %s %d =" if op == 1 else "enc_bin %s %d") % (hx(pl), fr))
                        frames.append(ref_frame(op if kind == "first" else 0, kind == "last", pl, k))
                jobs.append((label, op, steps, enc_client, keys, lines, frames))
        scripts1 = [j[5] for j in jobs]
        hres, hrc, herr, hn = self.run_scripts(scripts1)
        mres, mrc, merr, mn = self.run_scripts(scripts1, self.driver)
        if hrc != 0:
            bad = self.locate_abort(scripts1, hn)
            if bad is None:
                bad = self.bisect_exit_report(scripts1)
            failures.append(vlib.Failure("sanitizer", "ws: sanitizer report: " + self.san_kind(herr), herr[-1800:], scripts1[bad], ENGINE))
            return
        cases = []
        for (label, op, steps, enc_client, keys, lines, frames), h, m in zip(jobs, hres, mres):
            stats["direct_ops"] += len(lines)
            if h != m:
                j = next((j for j in range(len(lines)) if j >= len(m) or j >= len(h) or m[j] != h[j]), 0)
                failures.append(vlib.Failure("diff", "ws: model/code differ on %s (fragmented sender)" % lines[j].split()[0],
                                             "line `%s`: code `%s` model `%s`" % (lines[j][:100], (h[j] if j < len(h) else "")[:200],
                                                                                   (m[j] if j < len(m) else "")[:200]), lines, ENGINE))
            wire, ok = b"", len(h) == len(lines)
            for line, out, fr in zip(lines[2:], h[2:], frames):
                want = "e 0 " + show_payload(fr)
                if out.split(" step=")[0] != want:
                    failures.append(vlib.Failure("oracle", "ws: reference disagrees on %s" % line.split()[0],
                                                 "`%s`: code `%s`, reference `%s` (fragmented sender)" % (line[:120], out[:200], want[:200]), lines, ENGINE))
                    ok = False
                mm = re.match(r"e 0 ([0-9a-f]+),t=0", out)
                wire += bytes.fromhex(mm.group(1)) if mm else fr      # the bytes the real encoder produced (long frames: digest-checked reference)
            if not ok:
                continue
            # statistics of the family
            fs["messages"] += 1
            fs["sender_client" if enc_client else "sender_server"] += 1
            fs["text" if op == 1 else "binary"] += 1
            nfr = sum(1 for k, _ in steps if k in ("first", "frag", "last"))
            fs["frames_per_message"][nfr] = fs["frames_per_message"].get(nfr, 0) + 1
            acc, inside, ctl_inside, any_ctl = b"", 0, False, False
            for kind, pl in steps:
                if kind in ("ping", "pong"):
                    any_ctl = True
                    if op == 1 and self.incomplete_tail(acc):
                        ctl_inside = True
                else:
                    acc += pl
                    if kind != "last" and op == 1 and self.incomplete_tail(acc):
                        inside += 1
            fs["control_between_fragments"] += any_ctl
            fs["boundary_inside_character"] += inside > 0
            fs["boundaries_inside_character_total"] += inside
            fs["control_while_character_unfinished"] += ctl_inside
            fs["empty_fragments"] += any(k in ("first", "frag", "last") and not pl for k, pl in steps)
            fs["all_zero_key"] += enc_client and any(k == bytes(4) for k in keys)
            total = len(acc)
            for want in (False, True):
                flags = (0 if enc_client else CLIENT) | (WANTFRAG if want else 0) | (GENCLOSE if rng.random() < 0.2 else 0)
                # size limit: none, exactly enough, one too small (then only the reference decoder judges)
                need = total
                if want:
                    need, carry = 0, b""
                    for kind, pl in steps:
                        if kind in ("ping", "pong"):
                            need = max(need, len(pl)); continue
                        need = max(need, len(carry) + len(pl))
                        keep = self.incomplete_tail(carry + pl) if (op == 1 and kind != "last") else 0
                        carry = (carry + pl)[len(carry + pl) - keep:] if keep else b""
                else:
                    need = max([total] + [len(pl) for k, pl in steps if k in ("ping", "pong")])
                r = rng.random()
                maxp = 0 if r < 0.6 or need == 0 else (need if r < 0.85 else need - 1)
                expect = None
                if maxp == 0 or maxp >= need:
                    expect = [(st, show_payload(p)) for st, p in self.message_events(op, steps, want)]
                    fs["max_payload_exact"] += maxp == need and maxp != 0
                else:
                    fs["max_payload_exceeded"] += 1
                fs["fragment_mode" if want else "assembling"] += 1
                nw = len(wire)
                cuts = [[]]
                if nw > 1:
                    if nw <= 400:
                        cuts.append(list(range(1, nw)))
                    hdr_ends, pos = [], 0
                    for fr in frames:
                        pos += len(fr); hdr_ends.append(pos)
                    cuts.append([c for c in hdr_ends[:-1]])                                   # exactly at the frame boundaries
                    cuts.append(sorted(set(c + d for c in hdr_ends[:-1] for d in (-1, 1) if 0 < c + d < nw)))   # one byte off
                    for _ in range(2):
                        cuts.append(sorted(set(rng.randrange(1, nw) for _ in range(rng.choice([1, 2, 5])))))
                c = Case("fragmented/" + label + ("/fragments" if want else "/assembled"), flags, maxp, 1 << 40, rng.randrange(1, 5),
                         b"", wire, [cs for cs in cuts if all(0 < x < nw for x in cs)])
                c.expect, c.sender = expect, lines
                cases.append(c)
        before = stats["scripts"]
        self.run_cases(cases, failures, stats)
        fs["receiver_cases"] = len(cases)
        fs["receiver_scripts"] = stats["scripts"] - before
        stats["fragmented"] = fs

    # ---- encoder calls on the same stream between the decode calls of a split incoming frame
    def interleaved_encode_cases(self, ctx, n, failures, stats):
        """theorems encode_preserves_decoder_state / decode_interleaved_with_encode_independent: one stream
        object receives a valid frame sequence in pieces and encodes frames of its own in between.
        Oracles: (a) the decoder events are those of the one-piece decode of the same bytes, (b) white box:
        the decoder's fields (`state`) are the same before and after every encoder call, (c) every encoded
        frame is the RFC 6455 reference framing with the next key of the rng script, (d) model = code."""
        rng = ctx.rng
        st = {"cases": 0, "client": 0, "server": 0, "encoder_calls": 0, "calls_inside_a_frame_payload": 0,
              "calls_inside_a_frame_header": 0, "calls_at_frame_boundary": 0, "calls_inside_masked_payload": 0,
              "kinds": {}, "want_fragments": 0, "state_dumps": 0}
        jobs = []
        for i in range(n):
            client = rng.random() < 0.6          # the receiver's role; only a client draws keys when it encodes
            flags = (CLIENT if client else 0) | (WANTFRAG if rng.random() < 0.4 else 0) | (GENCLOSE if (not client and rng.random() < 0.3) else 0)
            msgs = gen_messages(rng, False)
            firstclose = next((j for j, m in enumerate(msgs) if m.kind == "close"), None)
            if firstclose is not None:
                msgs = msgs[:firstclose + 1]
            if i % 3 == 0:                       # make sure there is a frame with a payload worth cutting
                msgs.insert(0, Msg(rng.choice(["text", "bin", "ping"]), rand_text(rng, rng.choice([6, 14, 40, 125]))))
                if msgs[0].kind == "bin" and rng.random() < 0.5:
                    msgs[0] = Msg("bin", rand_text(rng, 200))
            frames = frames_of(rng, msgs, masked=not client)
            stream = b"".join(f for _, f in frames)
            if len(stream) < 2:
                continue
            # where each position lies: header / payload / boundary
            kind_at, pos = {}, 0
            for _, f in frames:
                l7 = f[1] & 0x7F
                hl = 2 + (2 if l7 == 126 else 8 if l7 == 127 else 0) + (4 if f[1] & 0x80 else 0)
                for c in range(pos + 1, pos + len(f)):
                    kind_at[c] = "header" if c - pos < hl else "payload"
                kind_at[pos + len(f)] = "boundary"
                pos += len(f)
            r = rng.random()
            if r < 0.5:
                payload_cuts = [c for c, k in kind_at.items() if k == "payload"]
                cuts = sorted(set(rng.sample(payload_cuts, min(len(payload_cuts), rng.choice([1, 1, 2, 3]))))) if payload_cuts else [1]
            elif r < 0.8:
                cuts = sorted(set(rng.randrange(1, len(stream)) for _ in range(rng.choice([1, 2, 4]))))
            else:
                cuts = list(range(1, min(len(stream), 60)))
            cuts = [c for c in cuts if 0 < c < len(stream)]
            chunks = chunks_of(stream, cuts)
            keys = []
            lines = ["init %d 0 %d %d" % (flags, 1 << 40, rng.randrange(1, 5))]
            script_keys = b""
            body, expect_frames, where = [], [], []
            for ci, ch in enumerate(chunks):
                body.append("feed " + hx(ch))
                if ci == len(chunks) - 1:
                    break
                if rng.random() < (0.85 if len(chunks) <= 4 else 0.3):
                    for _ in range(rng.choice([1, 1, 2])):
                        key = bytes(rng.randrange(1, 256) for _ in range(4)) if rng.random() < 0.9 else bytes(4)
                        k = key if client else None
                        which = rng.choice(["pong", "ping", "text", "bin", "close", "text-frag"])
                        pl = rand_text(rng, rng.choice([0, 1, 5, 30]))
                        if which in ("ping", "pong"):
                            op, fr = "enc_%s %s" % (which, hx(pl)), ref_frame(9 if which == "ping" else 10, True, pl, k)
                        elif which == "text":
                            op, fr = "enc_text %s 0 -" % hx(pl), ref_frame(1, True, pl, k)
                        elif which == "text-frag":
                            op, fr = "enc_text %s 1 0" % hx(pl), ref_frame(1, False, pl, k)
                        elif which == "bin":
                            op, fr = "enc_bin %s 0" % hx(pl), ref_frame(2, True, pl, k)
                        else:
                            op, fr = "enc_close 1000 %s" % hx(pl), ref_frame(8, True, (1000).to_bytes(2, "big") + pl, k)
                        if client:
                            script_keys += key
                        body += ["state", op, "state"]
                        expect_frames.append((len(lines) + 1 + len(body) - 2, fr))      # index of the enc line in the final script
                        where.append(kind_at.get(cuts[ci], "payload"))
                        st["kinds"][which] = st["kinds"].get(which, 0) + 1
            script = lines + ["rng " + hx(script_keys)] + body
            jobs.append((flags, client, stream, script, expect_frames, where))
        scripts = [j[3] for j in jobs]
        base = [[j[3][0], "feed " + hx(j[2])] for j in jobs]
        hres, hrc, herr, hn = self.run_scripts(scripts)
        mres, _, _, _ = self.run_scripts(scripts, self.driver)
        bres, brc, berr, _ = self.run_scripts(base)
        if hrc != 0 or brc != 0:
            bad = self.locate_abort(scripts, hn) if hrc != 0 else None
            failures.append(vlib.Failure("sanitizer", "ws: sanitizer report: " + self.san_kind(herr if hrc else berr),
                                         (herr if hrc else berr)[-1800:], scripts[bad] if bad is not None else [], ENGINE))
            return
        for (flags, client, stream, script, expect_frames, where), h, m, b in zip(jobs, hres, mres, bres):
            st["cases"] += 1
            st["client" if client else "server"] += 1
            st["want_fragments"] += bool(flags & WANTFRAG)
            st["encoder_calls"] += len(expect_frames)
            for w in where:
                st["calls_inside_a_frame_payload" if w == "payload" else "calls_inside_a_frame_header" if w == "header" else "calls_at_frame_boundary"] += 1
                st["calls_inside_masked_payload"] += (w == "payload" and not client)
            stats["direct_ops"] += len(script)
            if h != m:
                j = next((j for j in range(len(script)) if j >= len(m) or j >= len(h) or m[j] != h[j]), 0)
                failures.append(vlib.Failure("diff" if not (j < len(m) and m[j].startswith("fault")) else "model",
                                             "ws: model/code differ on %s (encode between decode calls)" % script[j].split()[0],
                                             "line %d `%s`: code `%s` model `%s`" % (j, script[j][:100], (h[j] if j < len(h) else "")[:300],
                                                                                      (m[j] if j < len(m) else "")[:300]), script, ENGINE))
            if len(h) < len(script):
                continue
            # (b) decoder state untouched by every encoder call
            for j, line in enumerate(script):
                if line.startswith("enc_") and script[j - 1] == "state" and script[j + 1] == "state":
                    st["state_dumps"] += 2
                    if h[j - 1] != h[j + 1]:
                        failures.append(vlib.Failure("oracle", "ws: %s changes the decoder state of the stream" % line.split()[0],
                                                     "before `%s` after `%s` (role %s)" % (h[j - 1][:300], h[j + 1][:300], "client" if client else "server"),
                                                     script[:j + 2], ENGINE))
                        break
            # (c) the encoded frames
            for j, fr in expect_frames:
                want = "e 0 " + show_payload(fr)
                if h[j].split(" step=")[0] != want:
                    failures.append(vlib.Failure("oracle", "ws: reference disagrees on %s" % script[j].split()[0],
                                                 "`%s`: code `%s`, reference `%s` (encode between decode calls)" % (script[j][:120], h[j][:200], want[:200]),
                                                 script, ENGINE))
                    break
            # (a) same decoder events as the one-piece decode
            ev, problems, validity = events_of([l for l, s_ in zip(h, script) if s_.startswith("feed")])
            ev1, _, validity1 = events_of(b[1:])
            for p in problems:
                failures.append(vlib.Failure("oracle", "ws: " + re.sub(r"[0-9a-f]{4,}", "X", p), p, script, ENGINE))
            if ev != ev1 or validity != validity1:
                d = next((j for j in range(max(len(ev), len(ev1))) if j >= len(ev) or j >= len(ev1) or ev[j] != ev1[j]), None)
                one = ev1[d] if d is not None and d < len(ev1) else ("end", "")
                two = ev[d] if d is not None and d < len(ev) else ("end", "")
                failures.append(vlib.Failure("oracle", "ws: encoder calls between decode calls change the decoder's result: one call gives %s, with encoder calls %s (%s)" %
                                             (status_class(one[0]) if one[0] != "end" else "end", status_class(two[0]) if two[0] != "end" else "end",
                                              "client" if client else "server"),
                                             "stream %s flags=%d: in one call %s (validity %s); in pieces with encoder calls in between %s (validity %s)" %
                                             (stream.hex()[:300], flags, ev1[-3:], validity1, ev[-3:], validity), script, ENGINE))
        stats["interleaved_encode"] = st

    def alignment_run(self, ctx, stats):
        """separate small run with -fsanitize=alignment: findings are reported, they do not fail the check"""
        k = b"\x01\x02\x03\x04"
        s = ["init 0 0 1000000 4", "feed " + ref_frame(1, True, b"hello", k).hex(), "feed " + ref_frame(2, True, bytes(300), k).hex(),
             "feed " + ref_frame(2, True, bytes(65536), k).hex(), "init 1 0 1000000 4", "enc_bin " + "00" * 70000 + " 0", "enc_bin " + "00" * 300 + " 0"]
        found = []
        for i in range(len(s)):
            if s[i].startswith("init"):
                continue
            pre = [x for x in s[:i] if x.startswith("init")][-1:]
            out, rc, err = vlib.run_lines(self.harness_al, pre + [s[i]])
            m = re.search(r"mhd_websocket\.c:(\d+):\d+: runtime error: (load of|store to) misaligned address", err)
            if rc != 0 and m:
                found.append("mhd_websocket.c:%s %s misaligned address (%s)" % (m.group(1), m.group(2), s[i].split()[0]))
        stats["alignment_findings"] = sorted(set(found))
        if found:
            ctx.note("observed (not failing): UBSan alignment: " + "; ".join(sorted(set(found))))

    def explore(self, ctx, boost):
        failures = []
        stats = {"cases": 0, "scripts": 0, "sanitizer": 0, "diff": 0, "split_dep": 0, "ref_mismatch": 0, "status": {},
                 "direct_ops": 0, "roundtrips": 0}
        thorough = ctx.tier == "thorough"
        # corpus first
        cdir = os.path.join(vlib.VERIF, "corpus", ENGINE)
        corpus = []
        if os.path.isdir(cdir):
            for f in sorted(os.listdir(cdir)):
                if f.endswith(".json"):
                    d = json.load(open(os.path.join(cdir, f)))
                    corpus.append(Case("corpus/" + f[:-5], d["flags"], d["max"], d.get("alloc", 1 << 40), d.get("rngchunk", 4),
                                       bytes.fromhex(d.get("rng", "")), bytes.fromhex(d["stream"]),
                                       [[]] + d.get("cuts", []) + ([list(range(1, len(d["stream"]) // 2))] if len(d["stream"]) > 2 else [])))
        self.run_cases(corpus, failures, stats)
        self.run_cases(self.size_class_cases(ctx), failures, stats)
        nstream = (60000 if thorough else 4000) * (2 if boost else 1)
        cases = self.stream_cases(ctx, nstream, ctx.tier)
        self.run_cases(cases, failures, stats)
        ctx.note("streams done: %d cases, %d scripts, %d failures" % (stats["cases"], stats["scripts"], len(failures)))
        hp = self.header_pair_cases(ctx, ctx.tier)
        before = stats["scripts"]
        self.run_cases(hp, failures, stats)
        ctx.note("header pairs done: %d scripts" % (stats["scripts"] - before))
        self.direct_ops(ctx, 30000 if thorough else 2000, failures, stats)
        self.utf8_cases(ctx, ctx.tier, failures, stats)
        self.accept_cases(ctx, failures, stats)
        self.roundtrip_cases(ctx, 20000 if thorough else 1500, failures, stats)
        self.fragmented_roundtrip_cases(ctx, 12000 if thorough else 700, failures, stats)
        self.interleaved_encode_cases(ctx, 20000 if thorough else 1500, failures, stats)
        self.alignment_run(ctx, stats)
        labels = {}
        for c in cases:
            labels[c.label] = labels.get(c.label, 0) + 1
        distinct = len({(c.flags, c.maxp, c.alloc, c.stream) for c in cases + corpus if len(c.stream) >= 2})
        sizes = {"<=125": 0, "126..65535": 0, ">=65536": 0}
        for c in cases:
            n = len(c.stream)
            sizes["<=125" if n <= 139 else ("126..65535" if n < 65536 else ">=65536")] += 1
        cov = {"evaluations": stats["scripts"] + stats["direct_ops"] + stats.get("utf8_inputs", 0) + stats["roundtrips"],
               "distinct_nontrivial": distinct,
               "rule": "distinct (flags, max, alloc limit, byte stream) tuples of >= 2 bytes among the random + corpus cases; "
                       "every tuple is fed in one call, in 2-way splits (all for streams <= 48 bytes), byte by byte (<= %d bytes) "
                       "and in random k-way splits; each script is run on the real code and on the Lean model" % (1500 if thorough else 400),
               "samples": [cases[0].scripts()[0][:4], cases[1].scripts()[-1][:6]] if len(cases) > 1 else [],
               "exhaustive": False,
               "exhaustive_subdomains": ["all 65 536 first-two-byte pairs x {server, client}%s (model vs code vs reference)" %
                                         (" x {fresh, inside a fragmented message, after a close frame}" if thorough else ""),
                                         "check_utf8: all 1-byte inputs from every step value, all 2-byte inputs from the start state%s"
                                         % ("" if thorough else " with a non-ASCII first byte")],
               "stream_cases": len(cases), "scripts": stats["scripts"], "case_kinds": labels, "stream_sizes": sizes,
               "frame_outcomes_one_call": stats["status"], "header_pair_cases": len(hp), "direct_op_lines": stats["direct_ops"],
               "utf8_inputs": stats.get("utf8_inputs", 0), "accept_keys": stats.get("accept_keys", 0), "roundtrips": stats["roundtrips"],
               "fragmented_messages_in_unmutated_stream_cases": getattr(self, "stream_frag_features", {}),
               "encoder_calls_between_decode_calls": stats.get("interleaved_encode", {}),
               "fragmented_message_roundtrips": stats.get("fragmented", {}), "message_level_mismatches": stats.get("msg_mismatch", 0),
               "corpus": len(corpus), "model_code_differences": stats["diff"], "split_dependences": stats["split_dep"],
               "reference_mismatches": stats["ref_mismatch"], "sanitizer_reports": stats["sanitizer"],
               "alignment_findings_observed": stats.get("alignment_findings", [])}
        # de-duplicate by signature, concrete first
        seen, uniq = set(), []
        for f in sorted(failures, key=lambda f: (not f.concrete(), len(json.dumps(f.input)))):
            if f.signature not in seen:
                seen.add(f.signature); uniq.append(f)
        return uniq, cov


def replay(ctx, path):
    r = json.load(open(path))
    sp = Spec(); sp.gen(ctx); vlib.lake_build(sp.lean_targets); sp.build(ctx)
    script = r["input"]
    h, rc, err = vlib.run_lines(sp.harness, script)
    m, _, _ = vlib.run_lines(sp.driver, script)
    for l, a, b in zip(script, h + [""] * len(script), m + [""] * len(script)):
        print("%s\n   code : %s\n   model: %s" % (l[:160], a[:200], b[:200]))
    if rc != 0:
        print(err[-1500:])
    print(r.get("detail", ""))
    return 1
