"""C01 — memory safety for every client byte stream.

Lean side: the connection buffer layer over the pool (Mhd.Model.ConnMem) — every
window stays inside the arena for every operation sequence — composed with the
pool theorems (C08).  Tie: (a) white-box op-sequence correspondence of the real
static buffer functions of connection.c against the model (engine `mem`),
(b) the real daemon under ASan+UBSan on size-directed and malformed streams
(engine `conn`), with "no sanitizer report, no abort, no unstable string, the
other connection is served" as the implementation-side oracle.
"""
import json, os, re
import vlib, dlog
from dlog import hx

GOOD = b"GET /ok HTTP/1.1\r\nHost: h\r\n\r\n"


def build_request(total, last, ver, follow, rng):
    """a request head whose length is as close to `total` as the shape allows"""
    q = {"arg": b"?k=v", "argnoeq": b"?k", "args2": b"?a=1&b", "header": b"", "none": b""}[last]
    hdr = b"" if last in ("none", "arg", "argnoeq", "args2") and ver == b"1.0" else b"Host: h\r\n"
    if last == "header":
        hdr = b"Host: h\r\nX-Last: v\r\n"
    fixed = len(b"GET /") + len(q) + len(b" HTTP/") + len(ver) + 2 + len(hdr) + 2
    n = max(total - fixed, 0)
    head = b"GET /" + b"a" * n + q + b" HTTP/" + ver + b"\r\n" + hdr + b"\r\n"
    tail = {"none": b"", "junk": b"Z" * 40, "next": GOOD}[follow]
    return head + tail


def build_hdr_heavy(total, rng):
    head = b"GET /h HTTP/1.1\r\nHost: h\r\n"
    i = 0
    while len(head) + 20 < total:
        ln = min(rng.choice([5, 17, 60, 200]), max(total - len(head) - 12, 1))
        head += b"X-%d: " % i + b"v" * ln + b"\r\n"
        i += 1
    return head + b"\r\n"


def build_body(kind, size, rng):
    if kind == "cl":
        return b"POST /u HTTP/1.1\r\nHost: h\r\nContent-Length: %d\r\n\r\n" % size + bytes((65 + i % 26) for i in range(size))
    out = b"POST /u HTTP/1.1\r\nHost: h\r\nTransfer-Encoding: chunked\r\n\r\n"
    left, i = size, 0
    while left > 0:
        n = min(left, rng.choice([1, 7, 16, 100, 1000]))
        out += b"%x\r\n" % n + bytes((65 + (i + j) % 26) for j in range(n)) + b"\r\n"
        left -= n; i += n
    return out + b"0\r\n\r\n"


def mutate(data, rng):
    b = bytearray(data)
    for _ in range(rng.randint(1, 4)):
        if not b:
            break
        p = rng.randrange(len(b))
        r = rng.random()
        ins = rng.choice([b"\r", b"\n", b"\0", b" ", b"\t", b"%", b"%4", b":", b"\x0b", b"\xff", b"?", b"&", b"=", b"\r\n", b"\r\n\r\n", b"HTTP/1.1", b";"])
        if r < 0.4:
            b[p:p] = ins
        elif r < 0.7:
            b[p:p + 1] = ins
        elif r < 0.85:
            del b[p:p + rng.randint(1, 5)]
        else:
            b[p] = rng.randrange(256)
    return bytes(b)


def splits_of(data, how, rng, marks=()):
    n = len(data)
    if how == "whole" or n < 2:
        return [data]
    if how == "bytes":
        return [data[i:i + 1] for i in range(n)]
    if how == "mark":
        cuts = sorted({m for m in marks if 0 < m < n})
        if not cuts:
            cuts = [n // 2]
    else:
        cuts = sorted({rng.randrange(1, n) for _ in range(rng.randint(1, 3))})
    out, prev = [], 0
    for c in cuts + [n]:
        out.append(data[prev:c]); prev = c
    return out


# second build of the daemon with the pool's ASan red zones and poisoning switched on: an access to
# arena memory that is not inside a live block is then reported by ASan even though it stays inside the arena
POISON = ["-DMHD_ASAN_POISON_ACTIVE=1", "-DHAVE_SANITIZER_ASAN_INTERFACE_H=1", "-DFUNC_ATTR_NOSANITIZE_WORKS=1",
          "-DHAVE___ASAN_REGION_IS_POISONED=1", "-DHAVE___ASAN_ADDRESS_IS_POISONED=1"]

BEHS = ["", "f=r1", "u=3,0,all", "l=s1", "u=1", "f=s0", "ur=0:r1", "l=no", "f=no", "l=r2", "l=r2", "l=r2", "u=0,0,all l=r2",
        "u=0,1,0,all", "f=r2"]
RESP_KINDS = ["copy", "static", "cb-known", "cb-unknown", "cb-unknown", "iovec", "fd", "fdoff", "pipe", "empty", "freecb"]


def resp_line(rng, rid, mem):
    kind = rng.choice(RESP_KINDS)
    size = rng.choice([0, 1, 5, 100, mem // 2, mem - 100, mem, 3 * mem, 70000]) if kind != "empty" else 0
    size = max(size, 0)
    extra = ""
    if kind.startswith("cb"):
        extra = " cbmax=%d cbnr=%d" % (rng.choice([0, 0, 1, 7, 100, 1000]), rng.choice([0, 0, 1, 2]))
    return "resp %d kind=%s code=200 size=%d%s" % (rid, kind, size, extra)


def make_case(name, mem, lvl, mode, data, pieces, beh, incr=None, resp2=None):
    L = ["case " + name, "cfg mode=%s mem=%d lvl=%d suspend=1%s" % (mode, mem, lvl, (" incr=%d" % incr) if incr else ""),
         "resp 1 kind=copy code=200 size=9", resp2 or "resp 2 kind=copy code=200 size=7", "start", "arrive 0 1", "arrive 1 2"]
    if beh:
        L.append("beh 0 0 " + beh)
    L.append("send 1 " + hx(GOOD))
    L.append("round")
    for p in pieces:
        L.append("send 0 " + hx(p))
        L.append("round")
    L.append("rounds 80")
    L.append("send 1 " + hx(GOOD))
    L.append("rounds 4")
    L.append("stop")
    return L


def gen_cases(ctx, n_random):
    rng = ctx.rng
    cases = []
    mems = [64, 128, 256, 512, 1024, 1536, 2048, 4096, 32768]
    k = 0
    # size-directed
    for mem in mems:
        marks = sorted({max(mem // 2 + d, 1) for d in (-2, -1, 0, 1)} | {max(mem // 4, 1), max(mem - 64, 1)})
        totals = sorted({t + d for t in (mem // 4, mem // 2, (mem * 3) // 4, mem - 64, mem - 16, mem) for d in (-2, -1, 0, 1, 2) if t + d > 20})
        for total in totals:
            for last in ("arg", "argnoeq", "args2", "header", "none"):
                ver = rng.choice([b"1.0", b"1.1"])
                follow = rng.choice(["none", "junk", "next"])
                lvl = rng.randint(-3, 3)
                data = build_request(total, last, ver, follow, rng)
                how = rng.choice(["whole", "mark", "rand"] + (["bytes"] if len(data) <= 300 else []))
                if ctx.tier == "quick" and rng.random() < 0.5:
                    continue
                cases.append((make_case("sz%d" % k, mem, lvl, rng.choice(["select", "epoll"]), data,
                                        splits_of(data, how, rng, marks), rng.choice(BEHS), resp2=resp_line(rng, 2, mem)),
                              {"mem": mem, "total": total, "last": last, "how": how, "lvl": lvl}))
                k += 1
    # whitespace inside the request target (lenient levels redirect / accept it)
    for lvl in range(-3, 4):
        for runs in ([b" "], [b"  "], [b" \t "], [b"   ", b" "], [b"\t\t", b"  ", b" "], [b"     "]):
            tgt = b"/a" + b"".join(r + b"b%d" % i for i, r in enumerate(runs))
            data = b"GET " + tgt + b" HTTP/1.1\r\nHost: h\r\n\r\n" + rng.choice([b"", GOOD])
            mem = rng.choice([512, 1024, 32768])
            how = rng.choice(["whole", "bytes", "rand"])
            cases.append((make_case("ws%d" % k, mem, lvl, rng.choice(["select", "epoll"]), data, splits_of(data, how, rng), ""),
                          {"mem": mem, "kind": "ws-uri", "how": how, "lvl": lvl}))
            k += 1
    # names that collide across element kinds: query arguments (with value / empty / valueless), trailers named exactly like
    # the header fields MHD looks up itself, in several letter cases, combined with each response kind
    import importlib
    rd = importlib.import_module("props._c01read")
    cols = rd.collision_requests(rng)
    if ctx.tier == "quick":
        cols = rng.sample(cols, 60)
    for i, data in enumerate(cols):
        mem = rng.choice([1024, 4096, 32768])
        kind = RESP_KINDS[i % len(RESP_KINDS)]
        how = rng.choice(["whole", "whole", "rand"])
        cases.append((make_case("kc%d" % k, mem, rng.randint(-3, 3), rng.choice(["select", "epoll"]), data, splits_of(data, how, rng),
                                rng.choice(["", "", "l=r2", "f=r2"]),
                                resp2="resp 2 kind=%s code=200 size=%d%s" % (kind, 0 if kind == "empty" else rng.choice([5, 100, mem]),
                                                                            " cbmax=7 cbnr=0" if kind.startswith("cb") else "")),
                      {"mem": mem, "kind": "kind-collisions", "how": how, "lvl": 0}))
        k += 1
    # lazily consumed upload followed by a large pipelined request (read buffer grows, then reset)
    for mem in (1024, 2048, 4096, 8192):
        for frac in (0.55, 0.7, 0.85):
            for nxt in (0.4, 0.6, 0.75, 0.9):
                body = int(mem * frac)
                post = b"POST /u HTTP/1.1\r\nHost: h\r\nContent-Length: %d\r\n\r\n" % body + bytes((65 + i % 26) for i in range(body))
                n2 = int(mem * nxt)
                nextreq = b"GET /n HTTP/1.1\r\nHost: h\r\nX-Fill: " + b"f" * max(n2 - 40, 1) + b"\r\n\r\n"
                if rng.random() < 0.4:
                    nextreq = nextreq[:-rng.randint(1, 30)]      # incomplete
                cutb = len(post) - rng.choice([1, 10, 100])
                pieces = [post[:200], post[200:cutb], post[cutb:] + nextreq]
                beh = rng.choice(["u=0,0,all l=r2", "u=0,1,0,0,all l=r2", "u=%d l=r2" % max(body - 10, 1), "u=0,0,0,0,all"])
                cases.append((make_case("lz%d" % k, mem, rng.randint(-3, 3), rng.choice(["select", "epoll"]), post + nextreq, pieces, beh,
                                        resp2=resp_line(rng, 2, mem)),
                              {"mem": mem, "kind": "lazy-upload+pipeline", "how": "mark", "lvl": 0}))
                k += 1
    # authentication API exercised by the handler on attacker-controlled Authorization headers, with a genuine nonce
    import base64
    for i in range(300 if ctx.tier == "quick" else 3000):
        mem = rng.choice([1024, 4096, 32768])
        lvl = rng.randint(-3, 3)
        # mostly-valid credentials: start from a well-formed set and vary one or two fields, so that the
        # deep stages of the check (nonce validation, response decoding, hashing) are actually reached
        f = {"algo": rng.choice([b"MD5", b"SHA-256", b"SHA-512-256"]), "qop": b"auth", "resp": b"a" * 64, "user": b"u",
             "nc": b"00000001", "cnonce": b"x"}
        for which in rng.sample(["algo", "qop", "resp", "user", "nc", "cnonce", "none"], rng.choice([1, 1, 2])):
            if which == "algo":
                f["algo"] = rng.choice([b"foo", b"\"SHA-256\"", b"sha-256", b"MD5-sess", b"", b"SHA-256 ", b"\"SHA-512-25\\6\""])
            elif which == "qop":
                f["qop"] = rng.choice([b"foo", b"auth-int", b"\"auth\"", b""])
            elif which == "resp":
                f["resp"] = rng.choice([b"a" * n for n in (0, 1, 31, 32, 33, 63, 65, 66, 96, 127, 128, 129, 200, 300)] + [b"zz" * 32, b"\\a" * 64, b"\\a" * 32])
            elif which == "user":
                f["user"] = rng.choice([b"u\\\"x", b"\xc3\xa9", b"a" * 300, b""])
            elif which == "nc":
                f["nc"] = rng.choice([b"ffffffff", b"1", b"zz", b"", b"00000002"])
            elif which == "cnonce":
                f["cnonce"] = rng.choice([b"", b"c" * 200])
        algo, qop, resp, user = f["algo"], f["qop"], f["resp"], f["user"]
        parts = [b'username="' + user + b'"', b'realm="r"', b'nonce="@N@"', b'uri="/auth"', b'response="' + resp + b'"',
                 b"nc=" + f["nc"], b'cnonce="' + f["cnonce"] + b'"']
        if algo:
            parts.append(b"algorithm=" + algo)
        if qop:
            parts.append(b"qop=" + qop)
        if rng.random() < 0.3:
            parts.append(rng.choice([b"userhash=true", b'username*=UTF-8\'\'%c3%a9', b'opaque="' + b"o" * 100 + b'"']))
        rng.shuffle(parts)
        hdr = b"Digest " + rng.choice([b", ", b",", b" ,  "]).join(parts)
        if rng.random() < 0.25:
            hdr = rng.choice([b"Basic " + base64.b64encode(rng.choice([b"u:p", b"nocolon", b":", b"a" * 200 + b":b"])),
                              b"Basic !!!!", b"Basic", b"Digest", b"Digest ,,,", b"Basic QQ== x"])
        if rng.random() < 0.2:
            hdr = mutate(hdr, rng)
        req2 = b"GET /auth HTTP/1.1\r\nHost: h\r\nAuthorization: " + hdr + b"\r\n\r\n"
        L = ["case au%d" % i, "cfg mode=%s mem=%d lvl=%d auth=1" % (rng.choice(["select", "epoll"]), mem, lvl), "start",
             "arrive 0 1", "arrive 1 2", "send 1 " + hx(GOOD), "round",
             "send 0 " + hx(b"GET /auth HTTP/1.1\r\nHost: h\r\n\r\n"), "rounds 6", "arrive 2 3",
             "sendn 2 " + hx(req2), "rounds 12", "send 1 " + hx(GOOD), "rounds 4", "stop"]
        cases.append((L, {"mem": mem, "kind": "auth-api", "how": "whole", "lvl": lvl}))
    # header-heavy, bodies, malformed
    for i in range(n_random):
        mem = rng.choice(mems)
        lvl = rng.randint(-3, 3)
        r = rng.random()
        if r < 0.25:
            data = build_hdr_heavy(rng.choice([mem // 2, mem - 40, mem + 30, mem * 2]), rng)
            kind = "hdrs"
        elif r < 0.5:
            data = build_body(rng.choice(["cl", "chunked"]), rng.choice([0, 1, 10, mem // 4, mem, 3 * mem]), rng)
            if rng.random() < 0.5:
                data += GOOD
            kind = "body"
        else:
            base = rng.choice([build_request(rng.choice([40, mem // 2, mem]), rng.choice(["arg", "argnoeq", "header", "none"]),
                                             rng.choice([b"1.0", b"1.1"]), "next", rng),
                               build_body("chunked", rng.choice([5, 40]), rng),
                               build_body("cl", 12, rng),
                               b"GET /c HTTP/1.1\r\nHost: h\r\nCookie: a=b; c=\"d e\"; f\r\n\r\n"])
            data = mutate(base, rng)
            kind = "mutated"
        how = rng.choice(["whole", "rand", "rand"] + (["bytes"] if len(data) <= 200 else []))
        cases.append((make_case("rn%d" % i, mem, lvl, rng.choice(["select", "epoll"]), data, splits_of(data, how, rng),
                                rng.choice(BEHS), incr=rng.choice([None, None, 64, 256]), resp2=resp_line(rng, 2, mem)),
                      {"mem": mem, "kind": kind, "how": how, "lvl": lvl}))
    return cases


def run_cases(harness, cases):
    """run all cases; a crash ends one process — restart after the crashing case.
    returns list of (case_index, out_lines|None, stderr) """
    res = {}
    i = 0
    while i < len(cases):
        lines = [l for c, _ in cases[i:] for l in c]
        out, rc, err = vlib.run_lines(harness, lines, timeout=1200)
        parts = dlog.split_cases(out)
        for j, p in enumerate(parts):
            res[i + j] = (p["lines"], "")
        if rc == 0:
            break
        crashed = i + max(len(parts) - 1, 0)
        res[crashed] = (parts[-1]["lines"] if parts else [], "rc=%d\n%s" % (rc, err[-3000:]))
        i = crashed + 1
    return res


def judge(case_lines, meta, out_lines, err):
    if err:
        m = re.search(r"(AddressSanitizer|UndefinedBehaviorSanitizer|runtime error|LeakSanitizer|Assertion|panic)[^\n]*", err)
        return "sanitizer", "daemon aborted: " + (m.group(0)[:160] if m else err[:200])
    conns, other = dlog.view(out_lines)
    for l in other:
        if "element-list-changed" in l:
            return "oracle", "the request's element list was corrupted while the reply was produced: " + l[:120]
    for c, v in conns.items():
        # `unstable` lines (a string shown to the handler changed before completion) are C02/C05's
        # business, not a memory-safety violation: the arena memory is still owned by the connection.
        if v.protoerr:
            return "oracle", v.protoerr[0][:160]
    v1 = conns.get(1)
    if v1 is None:
        return "oracle", "bystander connection produced nothing"
    try:
        rs = dlog.parse_responses(v1.wire)
    except dlog.RespError as ex:
        return "oracle", "bystander connection got a malformed reply: %s" % ex
    ok2 = len(rs) == 2 and all(r["complete"] and r["status"] == 200 and r["body"] == b"abcde" for r in rs)
    if meta["mem"] >= 512:
        if not ok2:
            return "oracle", "bystander connection not served correctly (%d replies)" % len(rs)
    elif not ok2:
        # arenas below the usable minimum: a refusal (error reply and/or close) is acceptable, garbage is not
        if any(r.get("complete") and r["status"] < 400 and r["body"] != b"abcde" for r in rs):
            return "oracle", "bystander connection got a wrong reply on a tiny arena"
        if rs and not rs[-1]["complete"] and not (v1.eof or v1.rst):
            return "oracle", "bystander left with an incomplete reply and an open connection"
    v0 = conns.get(0)
    if v0 is not None and v0.wire:
        try:
            rs = dlog.parse_responses(v0.wire, at_eof=v0.eof or v0.rst)
        except dlog.RespError as ex:
            return "oracle", "client got a malformed reply: %s" % ex
        if rs and not rs[-1]["complete"] and not (v0.eof or v0.rst):
            # an incomplete reply with the connection still open and nothing more coming
            return "oracle", "client left with an incomplete reply and an open connection"
    return None, None


class Spec:
    props_module = "Mhd.Props.C01"
    lean_targets = ["Mhd.Props.C01", "drv_mem"]
    required_theorems = ["Mhd.C01.step_wf", "Mhd.C01.run_wf", "Mhd.C01.windows_inside_arena", "Mhd.C01.recv_writes_inside",
                         "Mhd.C01.reqline_parser_no_fault", "Mhd.C01.field_parser_no_fault", "Mhd.C01.pool_blocks_wf",
                         "Mhd.C01.connread_no_fault", "Mhd.C01.connread_parser_view_inside", "Mhd.C01.connread_one_arena", "Mhd.C01.connread_reads_below_fill", "Mhd.C01.body_decoder_within_window",
                         "Mhd.C01.internal_lookups_header_kind_only",
                         "Mhd.C01.connread_full_buffer_is_error", "Mhd.C01.grow_stuck_without_guard"]
    trusted_base = ["Lean 4 kernel; propext/Classical.choice/Quot.sound only",
                    "hand-written model lean/Mhd/Model/ConnMem.lean (buffer layer of connection.c over the pool model of C08)",
                    "hand-written composition lean/Mhd/Model/ConnRead.lean (handle_read / handle_idle INIT..HEADERS_RECEIVED / check_and_grow over ConnMem + the C02 parser models)",
                    "white-box correspondence harness/h_mem.c (calls the real static functions), daemon harness harness/h_daemon.c",
                    "gcc ASan/UBSan as the observer of C-level memory errors"]
    assumptions = ["request line, header section, body (identity / chunked), footers and keep-alive reset: composition proved (connread_no_fault: parser "
                   "preconditions established, every buffer operation accepted) for every framing / keep-alive decision and every take pattern; "
                   "handler outcomes (early reply, MHD_NO at any call, 100-continue) are parameters of the composed model; "
                   "cookie parsing and the reply's write buffer are outside the composed model",
                   "C-level UB that is not an out-of-range index (aliasing, alignment) is only observed by the sanitizers",
                   "the daemon runs in external select/epoll mode in this check; threaded modes are C18"]

    def gen(self, ctx):
        import importlib
        importlib.import_module("props.C08").gen_pool()
        gen_connmem()

    def build(self, ctx):
        self.h_daemon = vlib.build_daemon_harness()
        self.h_poison = vlib.build_daemon_harness(name="h_daemon_poison", extra=POISON)
        self.h_mem = vlib.build_cached("h_mem", vlib.repo_sources() + [os.path.join(vlib.VERIF, "harness/h_mem.c")], self._build_mem)
        self.driver = vlib.driver_path("drv_mem")

    def _build_mem(self):
        objs = vlib.cc_lib_objects("lib_san_h_mem", exclude=("connection.c",))
        vlib.cc("h_mem", [os.path.join(vlib.VERIF, "harness/h_mem.c")], libs=["-lgnutls", "-lpthread"], objs=objs)

    def explore(self, ctx, boost):
        failures = []
        cov = {}
        # (a) buffer-layer correspondence
        import importlib
        memx = importlib.import_module("props._c01mem")
        f2, cov_mem = memx.explore(ctx, self.h_mem, self.driver, boost)
        failures += f2
        # (a2) composed engine: real get_request_line / get_req_headers / check_and_grow vs Mhd.ConnRead after every chunk
        readx = importlib.import_module("props._c01read")
        f3, cov_read = readx.explore(ctx, self.h_mem, self.driver, boost)
        failures += f3
        # (b) daemon under sanitizers
        nrand = (6000 if ctx.tier == "thorough" else 700) * (3 if boost else 1)
        cases = gen_cases(ctx, nrand)
        res = run_cases(self.h_daemon, cases)
        res_p = run_cases(self.h_poison, cases)
        dist = {}
        nontriv = set()
        for i, (lines, meta) in enumerate(cases):
            out, err = res.get(i, ([], "not run"))
            kind, det = judge(lines, meta, out, err if err != "" else "")
            if not kind:
                outp, errp = res_p.get(i, ([], "not run"))
                kind, det = judge(lines, meta, outp, errp)
                if kind:
                    det = "[pool-poisoning build] " + det
            key = "%s/%s" % (meta.get("kind", "sized:" + meta.get("last", "")), meta["how"])
            dist[key] = dist.get(key, 0) + 1
            if any(l.startswith("handler") or l.startswith("wire c=0") for l in out):
                nontriv.add(json.dumps(lines))
            if kind:
                sig = "conn: " + re.sub(r"\d+", "N", det)[:120]
                failures.append(vlib.Failure(kind, sig, det + " | " + json.dumps(meta), lines, "conn"))
        cov = {"evaluations": len(cases) + cov_mem.get("evaluations", 0) + cov_read.get("evaluations", 0),
               "distinct_nontrivial": len(nontriv) + cov_mem.get("distinct_nontrivial", 0) + cov_read.get("distinct_nontrivial", 0),
               "rule": "daemon cases: distinct scripts in which the handler was called or the client got bytes; "
                       "buffer-layer sequences: distinct op scripts with >= 1 successful buffer operation",
               "samples": [cases[0][0], cases[len(cases) // 2][0][:12]],
               "daemon_cases": len(cases), "daemon_builds": ["asan+ubsan", "asan+ubsan+pool red zones/poisoning"], "daemon_case_distribution": dist,
               "buffer_layer": cov_mem, "composed_connread": cov_read, "exhaustive": False}
        return failures, cov


def gen_connmem():
    from extract import c_eval, HEADER, GEN
    # behaviour probe (not a text match): does a mandatory try_grow_read_buffer on a full window always add space?
    # pool 64, increment 7, read buffer 32/32 full, 32 bytes free: small_inc = 7 / 8 = 0 in the code without the guard
    probe = r"""
#include "memorypool.c"
static int probe_grow_min_one (void)
{
  struct MHD_Daemon d; struct MHD_Connection c; int r;
  MHD_init_mem_pools_ ();
  memset (&d, 0, sizeof(d)); memset (&c, 0, sizeof(c));
  d.pool_size = 64; d.pool_increment = 7; c.daemon = &d;
  c.pool = MHD_pool_create (64);
  c.read_buffer = MHD_pool_allocate (c.pool, 32, false);
  c.read_buffer_size = 32; c.read_buffer_offset = 32;
  r = try_grow_read_buffer (&c, true) && (c.read_buffer_size > 32);
  MHD_pool_destroy (c.pool);
  return r;
}
"""
    v = c_eval('#include "MHD_config.h"\n#include "connection.c"\n' + probe,
               [("inc", "%d", "(int) MHD_BUF_INC_SIZE"),
                ("maxh", "%d", "(int) MHD_MAX_REASONABLE_HEADERS_SIZE_"), ("maxt", "%d", "(int) MHD_MAX_REASONABLE_REQ_TARGET_SIZE_"),
                ("minh", "%d", "(int) MHD_MIN_REASONABLE_HEADERS_SIZE_"), ("mint", "%d", "(int) MHD_MIN_REASONABLE_REQ_TARGET_SIZE_"),
                ("minm", "%d", "(int) MHD_MIN_REASONABLE_REQ_METHOD_SIZE_"), ("minc", "%d", "(int) MHD_MIN_REASONABLE_REQ_CHUNK_LINE_LENGTH_"),
                ("sh", "%d", "(int) MHD_PROC_RECV_HEADERS"), ("sc", "%d", "(int) MHD_PROC_RECV_COOKIE"),
                ("sbn", "%d", "(int) MHD_PROC_RECV_BODY_NORMAL"), ("sbc", "%d", "(int) MHD_PROC_RECV_BODY_CHUNKED"),
                ("sf", "%d", "(int) MHD_PROC_RECV_FOOTERS"),
                ("c413", "%d", "(int) MHD_HTTP_CONTENT_TOO_LARGE"), ("c414", "%d", "(int) MHD_HTTP_URI_TOO_LONG"),
                ("c431", "%d", "(int) MHD_HTTP_REQUEST_HEADER_FIELDS_TOO_LARGE"), ("c501", "%d", "(int) MHD_HTTP_NOT_IMPLEMENTED"),
                ("hostlen", "%d", "(int) MHD_STATICSTR_LEN_ (MHD_HTTP_HEADER_HOST)"),
                ("rqhdr", "%d", "(int) sizeof (struct MHD_HTTP_Req_Header)"),
                ("growmin", "%d", "probe_grow_min_one ()"),
                ("chdr", "%d", "(int) MHD_CHUNK_HEADER_REASONABLE_LEN")],
               extra=["-O1", "-ffunction-sections", "-fdata-sections", "-Wl,--gc-sections"])
    out = HEADER % "src/microhttpd/internal.h, connection.c" + "namespace Mhd.Gen.ConnMem\n" \
        + "def bufIncSize : Nat := %s\n" % v["inc"] \
        + "def maxReasonableHeaders : Nat := %s\ndef maxReasonableTarget : Nat := %s\n" % (v["maxh"], v["maxt"]) \
        + "def minReasonableHeaders : Nat := %s\ndef minReasonableTarget : Nat := %s\n" % (v["minh"], v["mint"]) \
        + "def minReasonableMethod : Nat := %s\ndef minReasonableChunkLine : Nat := %s\n" % (v["minm"], v["minc"]) \
        + "def stageHeaders : Nat := %s\ndef stageCookie : Nat := %s\ndef stageBodyNormal : Nat := %s\n" % (v["sh"], v["sc"], v["sbn"]) \
        + "def stageBodyChunked : Nat := %s\ndef stageFooters : Nat := %s\n" % (v["sbc"], v["sf"]) \
        + "def httpContentTooLarge : Nat := %s\ndef httpUriTooLong : Nat := %s\n" % (v["c413"], v["c414"]) \
        + "def httpHeaderFieldsTooLarge : Nat := %s\ndef httpNotImplemented : Nat := %s\n" % (v["c431"], v["c501"]) \
        + "def hostNameLen : Nat := %s\n" % v["hostlen"] \
        + "/-- `sizeof (struct MHD_HTTP_Req_Header)`: one pool allocation per request element -/\ndef reqHeaderSize : Nat := %s\n" % v["rqhdr"] \
        + "def chunkHeaderReasonableLen : Nat := %s\n" % v["chdr"] \
        + "/-- behaviour probe of `try_grow_read_buffer` (pool 64, increment 7, window 32/32 full, required): a mandatory\n" \
          "    grow always adds at least one byte (the `0 == small_inc` guard, fix F32) -/\n" \
          "def growMinOne : Bool := %s\n" % ("true" if v["growmin"] == "1" else "false") \
        + "end Mhd.Gen.ConnMem\n"
    return vlib.write_if_changed(os.path.join(GEN, "ConnMem.lean"), out)


def replay(ctx, path):
    r = json.load(open(path))
    sp = Spec(); sp.gen(ctx); vlib.lake_build(sp.lean_targets); sp.build(ctx)
    if r.get("engine") == "conn":
        out, rc, err = vlib.run_lines(sp.h_daemon, r["input"])
        print("\n".join(out[-40:])); print(err[-2000:])
        return 1 if rc != 0 else 0
    import importlib
    if any(l.startswith("crinit") for l in r["input"]):
        return importlib.import_module("props._c01read").replay_one(sp.h_mem, sp.driver, r["input"])
    return importlib.import_module("props._c01mem").replay_one(sp.h_mem, sp.driver, r["input"])
