"""C11 — suspend/resume freezes and later continues a connection losslessly.  Engine `susp`.

(A) gen_susp(): lean/Mhd/Gen/Susp.lean — which `suspended` guards the code has (the Lean model is
    parameterised by them and the theorems are proved for the values found *now*), the event-loop-info and
    epoll-state bits.  The guards are determined semantically where possible: the real code is asked
    (harness ops `probe read|write|idle <c>` call the entry points on a suspended connection directly, `wb`
    prints the flags, scripted suspends show the retry loop / first-call exit / resume short-cut / F10
    traversal); the source pattern is the fallback and is reported next to the probe result.  A harmless
    rewrite of a guard line therefore does not flip a flag, removing the guard does.
    Keep-alive pipelines: `req c r` / `beh c r` declare request r of connection c; the model (Conn.later / Conn.done,
    `nextRequest` = connection_reset with reuse) and the real daemon are compared over the whole connection.
(B) correspondence: harness/h_susp.c (real daemon, socketpairs, scripted rounds, per-descriptor I/O log by
    interposing recv/send/sendmsg/writev/sendfile, suspend points in all four callback kinds, resume from the
    callback / before the suspend / after k rounds / from a second thread / by the script) vs
    lean/Driver/Susp.lean (executable model, same scripts): per connection the exact sequence of callbacks
    (phase, bytes offered, bytes taken, reader position and result, suspend effectiveness, resume, completion)
    is predicted and diffed for the external select / epoll modes; with a racing second thread or an internal
    polling thread only the canonical projection is compared.
(iii) independent oracle over the harness log only (knows nothing about the model):
    * between `suspend c … eff=1` and the start of the daemon round that follows the matching `resume c`: no
      handler / reader / io / completed line for c, no `frozen-violation` (white-box snapshot of the processing
      state taken at the end of the suspending round changed), a suspend is effective iff no resume is pending;
    * the canonical projection of the run on c (upload bytes consumed by the handler, reply head and body
      received by the client, completion code) equals the one of the same script with all suspends erased
      (both are run), the upload equals what the client sent, the reply body what the application supplied,
      reader positions are contiguous.
"""
import itertools, json, os, re
import vlib, extract

PAT = lambda rid, off: 97 + (rid * 7 + off) % 26


def hx(b):
    b = b if isinstance(b, bytes) else b.encode("latin1")
    return b.hex() if b else "-"


def unhx(s):
    return b"" if s in ("-", "~") else bytes.fromhex(s)


# ------------------------------------------------------------------ (A) translator

GUARDS = [
    # name, file, function, regex that must match inside the function body
    ("idleLoopGuard", "connection.c", "MHD_connection_handle_idle", r"while\s*\(\s*!\s*connection->suspended\s*\)"),
    ("idleFirstCallGuard", "connection.c", "MHD_connection_handle_idle",
     r"call_connection_handler\s*\(connection\);\s*/\*\s*first call\s*\*/\s*if\s*\(MHD_CONNECTION_HEADERS_PROCESSED\s*!=\s*connection->state\)\s*continue;\s*if\s*\(connection->suspended\)\s*continue;"),
    ("idleEpollGuard", "connection.c", "MHD_connection_handle_idle", r"if\s*\(\s*\(\s*!\s*connection->suspended\s*\)\s*&&\s*MHD_D_IS_USING_EPOLL_"),
    ("readGuard", "connection.c", "MHD_connection_handle_read", r"\(connection->suspended\)\s*\)\s*return;"),
    ("writeGuard", "connection.c", "MHD_connection_handle_write", r"if\s*\(connection->suspended\)\s*return;"),
    ("eliGuard", "connection.c", "MHD_connection_update_event_loop_info", r"if\s*\(connection->suspended\)\s*return;"),
    ("activityGuard", "connection.c", "MHD_update_last_activity_", r"if\s*\(connection->suspended\)\s*return;"),
    ("timedOutGuard", "connection.c", "connection_check_timedout", r"if\s*\(c->suspended\)\s*return false;"),
    ("bodyRetryGuard", "connection.c", "process_request_body", r"while\s*\(\s*instant_retry\s*&&\s*!\s*connection->suspended\s*\)"),
    ("writeReaderGuard", "connection.c", "MHD_connection_handle_write",
     r"try_ready_normal_body\s*\(connection\)\)\s*\{[^}]*\}\s*if\s*\(connection->suspended\)"),
    ("suspendResumingShortcut", "daemon.c", "internal_suspend_connection_", r"if\s*\(connection->resuming\)\s*\{[^}]*connection->resuming\s*=\s*false;[^}]*return;"),
    ("resumeSetsBoth", "daemon.c", "MHD_resume_connection", r"connection->resuming\s*=\s*true;\s*daemon->resuming\s*=\s*true;"),
    ("resumeMarksReady", "daemon.c", "resume_suspended_connections",
     r"MHD_EPOLL_STATE_IN_EREADY_EDLL\s*\\?\s*\|\s*MHD_EPOLL_STATE_READ_READY\s*\|\s*MHD_EPOLL_STATE_WRITE_READY"),
    ("resumeRestartsTimerNormal", "daemon.c", "resume_suspended_connections",
     r"if\s*\(0\s*!=\s*pos->connection_timeout_ms\)\s*pos->last_activity\s*=\s*MHD_monotonic_msec_counter\s*\(\);"),
    ("resumeRestartsTimerManual", "daemon.c", "resume_suspended_connections",
     r"if\s*\(0\s*!=\s*pos->connection_timeout_ms\)\s*pos->last_activity\s*=\s*MHD_monotonic_msec_counter\s*\(\);\s*if\s*\(pos->connection_timeout_ms\s*==\s*daemon->connection_timeout_ms\)"),
    ("setTimeoutSkipsSuspended", "connection.c", "MHD_set_connection_option",
     r"if\s*\(\s*!\s*connection->suspended\)\s*\{[^{}]*XDLL_remove[^{}]*XDLL_remove[^{}]*connection->connection_timeout_ms\s*=[^{}]*XDLL_insert[^{}]*\}\s*else\s*\{[^{}]*connection->connection_timeout_ms\s*=[^{}]*\}"),
    ("selectReadsPrevAfterCall", "daemon.c", "internal_run_from_select", r"for\s*\(pos\s*=\s*daemon->connections_tail;\s*NULL\s*!=\s*pos;\s*pos\s*=\s*pos->prev\)"),
]


def func_body(text, name):
    """text of the C function `name` (definition, not prototype), comments kept"""
    for m in re.finditer(r"^%s\s*\(" % re.escape(name), text, re.M):
        i = text.find("{", m.end())
        semi = text.find(";", m.end())
        if i < 0 or (0 <= semi < i):
            continue
        depth, j = 0, i
        while j < len(text):
            if text[j] == "{":
                depth += 1
            elif text[j] == "}":
                depth -= 1
                if depth == 0:
                    return text[i:j + 1]
            j += 1
    return None


def source_guards():
    """{guard name: present?} for the current source tree"""
    from extract import src
    srcs = {"connection.c": src("src/microhttpd/connection.c"), "daemon.c": src("src/microhttpd/daemon.c")}
    out = {}
    for name, f, fn, rx in GUARDS:
        body = func_body(srcs[f], fn)
        if body is None:
            raise RuntimeError("function %s not found in %s" % (fn, f))
        out[name] = re.search(rx, re.sub(r"\s+", " ", body)) is not None
    return out


PROBE_HEAD_GET = b"GET /g HTTP/1.1\r\nHost: x\r\n\r\n"
PROBE_HEAD_CH = b"POST /u HTTP/1.1\r\nHost: x\r\nTransfer-Encoding: chunked\r\n\r\n3\r\nabc\r\n4\r\ndefg\r\n2\r\nhi\r\n0\r\n\r\n"


def probe_script():
    def case(name, beh, req=PROBE_HEAD_GET, extra=(), mode="select", nconn=1, beh1=None):
        L = ["case " + name, "cfg mode=%s suspend=1" % mode, "resp 1 kind=cb-unknown size=10 cbmax=4", "resp 2 kind=cb-known size=10 cbmax=4"]
        L.append("beh 0 0 " + beh)
        if nconn == 2:
            L.append("beh 1 0 " + beh1)
        L.append("start")
        for c in range(nconn):
            L.append("arrive %d %d" % (c, c + 1))
        for c in range(nconn):
            L.append("send %d %s" % (c, hx(req)))
        L += ["round"] * 4 + list(extra) + ["round"] * 8 + ["stop"]
        return L
    none = "fs=- u=all us=- ls=- rs=- rd=0 l=r1"
    S = []
    S += case("final", "fs=- u=all us=- ls=n rs=- rd=0 l=r1", extra=["wb 0", "probe read 0", "probe idle 0", "wb 0", "resume 0", "wb 0"])
    S += case("write", "fs=- u=all us=- ls=- rs=0:n rd=1 l=r1", extra=["round", "round", "probe write 0", "resume 0"])
    S += case("retry", "fs=- u=all us=0:n ls=- rs=- rd=0 l=r1", req=PROBE_HEAD_CH, extra=["resume 0"])
    S += case("first", "fs=d0 u=all us=- ls=- rs=- rd=0 l=r1")
    S += case("shortcut", "fs=p u=all us=- ls=- rs=- rd=0 l=r1")
    S += case("known", "fs=- u=all us=- ls=- rs=1:n rd=1 l=r2", extra=["round", "round", "round", "resume 0"])
    S += case("prev", "fs=n u=all us=- ls=- rs=- rd=0 l=r1", nconn=2, beh1=none, extra=["resume 0"])
    return S


def probe_script_epoll():
    """a connection suspended while its (stale) event-loop info says PROCESS: an unguarded epoll update would
    queue the suspended connection in the eready list (and the later resume would panic) — run separately"""
    req = b"POST /u HTTP/1.1\r\nHost: x\r\nContent-Length: 9\r\n\r\nabcdefghi"
    return ["case epoll", "cfg mode=epoll suspend=1", "resp 1 kind=cb-unknown size=10 cbmax=4",
            "beh 0 0 fs=- u=2,all us=1:n ls=- rs=- rd=0 l=r1", "start", "arrive 0 1", "send 0 " + hx(req)] + ["round"] * 5 + \
           ["wb 0", "probe idle 0", "wb 0", "resume 0"] + ["round"] * 8 + ["stop"]


def probe_script_timer(override):
    """a connection suspended (mid-upload) for longer than its timeout on the virtual clock, then resumed: the white-box
    view after the resuming round shows whether the inactivity timer was restarted.  override None = daemon default
    (default-timeout list), else the connection's own timeout in seconds (manual-timeout list)"""
    req = b"POST /u HTTP/1.1\r\nHost: x\r\nContent-Length: 9\r\n\r\nabc"
    L = ["case timer", "cfg mode=select suspend=1 timeout=5", "resp 1 kind=cb-unknown size=10 cbmax=4",
         "beh 0 0 fs=- u=all us=0:n ls=- rs=- rd=0 l=r1"]
    if override is not None:
        L.append("cto 0 %d" % override)
    return L + ["start", "arrive 0 1", "send 0 " + hx(req), "round", "round", "tick-if-susp 0 7000", "round", "wb 0", "resume 0",
                "round", "wb 0", "round", "stop"]


def probe_script_settimeout():
    """MHD_set_connection_option (TIMEOUT) on a suspended connection: the white-box view shows whether it was linked
    into a timeout list (the harness takes it out again, so the run can go on)"""
    req = b"GET /g HTTP/1.1\r\nHost: x\r\n\r\n"
    return ["case sett", "cfg mode=select suspend=1 timeout=5", "resp 1 kind=cb-unknown size=10 cbmax=4",
            "beh 0 0 fs=n u=all us=- ls=- rs=- rd=0 l=r1", "start", "arrive 0 1", "send 0 " + hx(req), "round", "round",
            "wb 0", "settimeout 0 2", "resume 0", "round", "round", "round", "stop"]


def probe_guards():
    """behavioural determination of the guards (semantic route): the real code is asked"""
    h = vlib.build_daemon_harness(name="h_susp", src="harness/h_susp.c", ldextra=["-ldl"])
    out, rc, err = vlib.run_lines(h, probe_script(), timeout=120)
    if rc != 0:
        raise RuntimeError("guard probe run failed (rc=%d): %s" % (rc, err[-600:]))
    cs = split_cases(out)
    g = {}

    def probes(name):
        return [dict(KV.findall(l)) for l in cs.get(name, []) if l.startswith("probe ")]
    pf = {p["fn"]: p for p in probes("final")}
    if "read" in pf and pf["read"]["suspended"] == "1":
        g["readGuard"] = pf["read"]["io"] == "0"
    if "idle" in pf and pf["idle"]["suspended"] == "1":
        g["idleLoopGuard"] = pf["idle"]["cb"] == "0" and pf["idle"]["state"].split("->")[0] == pf["idle"]["state"].split("->")[1]
        if g["idleLoopGuard"]:
            a, b = pf["idle"]["eli"].split("->")
            g["eliGuard"] = a == b
    wbs = [dict(KV.findall(l)) for l in cs.get("final", []) if l.startswith("wb ")]
    if len(wbs) == 3 and wbs[1]["suspended"] == "1":
        g["resumeSetsBoth"] = wbs[2]["resuming"] == "1" and wbs[2]["dresuming"] == "1" and wbs[1]["resuming"] == "0"
    pw = probes("write")
    if pw and pw[0]["suspended"] == "1":
        g["writeGuard"] = pw[0]["io"] == "0"
    lg = cs.get("retry", [])
    if any(l.startswith("suspend ") and "eff=1" in l for l in lg):
        k = next(i for i, l in enumerate(lg) if l.startswith("suspend "))
        r = next((i for i, l in enumerate(lg) if l.startswith("resume ")), len(lg))
        g["bodyRetryGuard"] = not any(l.startswith("handler ") for l in lg[k:r])
    lg = cs.get("first", [])
    if any(l.startswith("suspend ") and "eff=1" in l for l in lg):
        g["idleFirstCallGuard"] = any("phase=refirst" in l for l in lg)
    lg = cs.get("shortcut", [])
    sp = [l for l in lg if l.startswith("suspend ")]
    if sp:
        g["suspendResumingShortcut"] = "eff=0" in sp[0]
    lg = cs.get("known", [])
    if any(l.startswith("suspend ") and "eff=1" in l for l in lg):
        k = next(i for i, l in enumerate(lg) if l.startswith("suspend "))
        r = next((i for i, l in enumerate(lg) if l.startswith("resume ") and i > k), len(lg))
        g["writeReaderGuard"] = not any(l.startswith("io ") and " send " in l for l in lg[k:r])
    lg = cs.get("prev", [])
    if any(l.startswith("suspend c=0") and "eff=1" in l for l in lg):
        k = next(i for i, l in enumerate(lg) if l.startswith("suspend c=0"))
        e = next(i for i, l in enumerate(lg) if i > k and l == "round-end")
        b = max(i for i, l in enumerate(lg) if i < k and l == "round-begin")
        g["selectReadsPrevAfterCall"] = not any(l.startswith("handler c=1") for l in lg[b:e])
    out, rc, err = vlib.run_lines(h, probe_script_settimeout(), timeout=120)
    wbs = [dict(KV.findall(l)) for l in out if l.startswith("wb ")]
    if wbs and wbs[0].get("suspended") == "1" and any(l.startswith("settimeout ") and "susp=1" in l for l in out):
        g["setTimeoutSkipsSuspended"] = not any(l.startswith("tolist-violation") for l in out)
    for name, ov in (("resumeRestartsTimerNormal", None), ("resumeRestartsTimerManual", 2)):
        out, rc, err = vlib.run_lines(h, probe_script_timer(ov), timeout=120)
        wbs = [dict(KV.findall(l)) for l in out if l.startswith("wb ")]
        ticked = any(l.startswith("ticked ") for l in out)
        if ticked and wbs and wbs[0].get("suspended") == "1" and wbs[0].get("age") == "7000":
            # second `wb` missing = the connection was closed by the round that resumed it
            g[name] = len(wbs) >= 2 and wbs[1].get("suspended") == "0" and wbs[1].get("age") == "0" and \
                not any(l.startswith("completed ") and "code=2" in l for l in out)     # 2 = MHD_REQUEST_TERMINATED_TIMEOUT_REACHED
    out, rc, err = vlib.run_lines(h, probe_script_epoll(), timeout=120)
    wbs = [dict(KV.findall(l)) for l in out if l.startswith("wb ")]
    if len(wbs) >= 2 and wbs[0]["suspended"] == "1" and int(wbs[0]["eli"]) & 4:
        in_eready = 4      # MHD_EPOLL_STATE_IN_EREADY_EDLL, cross-checked against Gen below
        g["idleEpollGuard"] = (int(wbs[1]["ep"]) & in_eready) == 0
    return g


def effective_guards():
    """the value of every guard: what the code *does* where a behavioural probe exists (a harmless
    rewrite of a guard line does not flip it), the source pattern otherwise"""
    sg = source_guards()
    pg = probe_guards()
    eff = dict(sg)
    eff.update(pg)
    return eff, sg, pg


def gen_susp():
    from extract import c_eval, src, HEADER, GEN
    v = c_eval('#include "MHD_config.h"\n#include "platform.h"\n#include "microhttpd.h"\n#include "internal.h"\n',
               [("eliRead", "%d", "(int) MHD_EVENT_LOOP_INFO_READ"), ("eliWrite", "%d", "(int) MHD_EVENT_LOOP_INFO_WRITE"),
                ("eliProcess", "%d", "(int) MHD_EVENT_LOOP_INFO_PROCESS"), ("eliProcessRead", "%d", "(int) MHD_EVENT_LOOP_INFO_PROCESS_READ"),
                ("eliCleanup", "%d", "(int) MHD_EVENT_LOOP_INFO_CLEANUP"),
                ("epReadReady", "%d", "(int) MHD_EPOLL_STATE_READ_READY"), ("epWriteReady", "%d", "(int) MHD_EPOLL_STATE_WRITE_READY"),
                ("epInEready", "%d", "(int) MHD_EPOLL_STATE_IN_EREADY_EDLL"), ("epInSet", "%d", "(int) MHD_EPOLL_STATE_IN_EPOLL_SET"),
                ("epSuspended", "%d", "(int) MHD_EPOLL_STATE_SUSPENDED")])
    out = [HEADER % "src/microhttpd/{connection.c,daemon.c,internal.h}", "namespace Mhd.Gen.Susp"]
    for k in ("eliRead", "eliWrite", "eliProcess", "eliProcessRead", "eliCleanup",
              "epReadReady", "epWriteReady", "epInEready", "epInSet", "epSuspended"):
        out.append("def %s : Nat := %s" % (k, v[k]))
    out.append("/-! presence of the `suspended` guards (true = the guard is there).  `probe` = determined by asking the")
    out.append("    real code (harness/h_susp.c, ops `probe` / `wb` and scripted suspends); `pattern` = found in the source text -/")
    eff, sg, pg = effective_guards()
    for name, f, fn, rx in GUARDS:
        how = ("probe=%s pattern=%s" % (pg[name], sg[name])) if name in pg else ("pattern=%s" % sg[name])
        out.append("/-- %s: %s (%s) -/\ndef %s : Bool := %s" % (f, fn, how, name, "true" if eff[name] else "false"))
    out.append("end Mhd.Gen.Susp\n")
    return vlib.write_if_changed(os.path.join(GEN, "Susp.lean"), "\n".join(out))


# ------------------------------------------------------------------ scripts

HEADS = {
    "cl": b"POST /u HTTP/1.1\r\nHost: x\r\nContent-Length: %d\r\n\r\n",
    "ch": b"POST /u HTTP/1.1\r\nHost: x\r\nTransfer-Encoding: chunked\r\n\r\n",
    "get": b"GET /g HTTP/1.1\r\nHost: x\r\n\r\n",
}


class Plan:
    """application behaviour for the request of one connection"""

    def __init__(self, fs=(), us=None, ls=(), rs=None, takes=("all",), rd=0, rid=1, zero_at=()):
        self.fs, self.ls = list(fs), list(ls)
        self.us, self.rs = dict(us or {}), dict(rs or {})
        self.takes, self.rd, self.rid = list(takes), rd, rid
        self.zero_at = set(zero_at)      # upload calls that consume nothing (only where the call suspends)

    def erased(self):
        return Plan(takes=self.takes, rid=self.rid)

    def take_list(self):
        if not self.zero_at:
            return list(self.takes)
        return ["0" if j in self.zero_at else self.takes[j % len(self.takes)] for j in range(8)]

    def nsusp(self):
        return len(self.fs) + len(self.ls) + len(self.us) + len(self.rs)

    def beh(self):
        f = lambda l: ",".join(l) if l else "-"
        g = lambda d: ",".join("%d:%s" % (i, a) for i, a in sorted(d.items())) if d else "-"
        return "fs=%s u=%s us=%s ls=%s rs=%s rd=%d l=r%d" % (f(self.fs), ",".join(map(str, self.take_list())), g(self.us),
                                                              f(self.ls), g(self.rs), self.rd, self.rid)

    def acts(self):
        return self.fs + self.ls + list(self.us.values()) + list(self.rs.values())


class ConnSpec:
    def __init__(self, shape, seg, plan, chunks=(b"abc", b"defg", b"hi"), second=None):
        self.shape, self.seg, self.plan, self.chunks = shape, seg, plan, [bytes(c) for c in chunks]
        self.second = second      # a pipelined second request: its bytes travel with the last piece of the first

    def erased(self):
        return ConnSpec(self.shape, self.seg, self.plan.erased(), self.chunks, self.second.erased() if self.second else None)

    def all_bytes(self):
        return b"".join(self.pieces())

    def chain(self):
        """this request and the pipelined ones behind it, in order"""
        return [self] + (self.second.chain() if self.second else [])

    def body(self):
        return b"".join(self.chunks) if self.shape != "get" else b""

    def head(self):
        return HEADS[self.shape] % len(self.body()) if self.shape == "cl" else HEADS[self.shape]

    def pieces(self):
        """list of byte strings the client sends, one per step"""
        p = self._pieces1()
        if self.second:
            p[-1] = p[-1] + self.second.all_bytes()
        return p

    def _pieces1(self):
        if self.shape == "get":
            return [self.head()]
        if self.shape == "cl":
            parts = list(self.chunks)
        else:
            parts = [b"%x\r\n%s\r\n" % (len(c), c) for c in self.chunks]
            parts[-1] += b"0\r\n\r\n"
        if self.seg == "one":
            return [self.head() + b"".join(parts)]
        if self.seg == "two":
            return [self.head() + parts[0], b"".join(parts[1:])]
        return [self.head()] + parts


class Case:
    def __init__(self, name, mode, conns, resps, extra_resume=(), rounds=None, tcfg=None, late=False, sett=None):
        # sett = (when, seconds): MHD_set_connection_option (TIMEOUT) for connection 0 from outside a callback,
        # when = "before" the suspension / "while" suspended / "after" the resume (timer family only)
        self.sett = sett
        self.name, self.mode, self.conns, self.resps = name, mode, conns, resps
        # tcfg = (daemon default timeout s, per-connection timeout s of connection 0 or None, ms the virtual clock advances
        # while connection 0 is suspended); late: the last piece of the request is sent only after the first resume
        self.tcfg, self.late = tcfg, late
        self.extra_resume = list(extra_resume)     # [(after_step_round_index, conn)] explicit `resume` ops
        self.rounds = rounds

    def erased(self):
        return Case(self.name + "~base", self.mode, [c.erased() for c in self.conns], self.resps, rounds=self.total_rounds(),
                    tcfg=self.tcfg, late=self.late, sett=self.sett)

    def total_rounds(self):
        if self.rounds is not None:
            return self.rounds
        n = 12
        for c in self.conns:
            n += 2 * len(c.pieces())
            for q in c.chain():
                for a in q.plan.acts():
                    n += 3 + (int(a[1:]) if a[0] == "d" else 0)
            n += 10 * (len(c.chain()) - 1)
        if self.extra_resume:
            n += 8 + max(r for r, _ in self.extra_resume)
        return n

    def lines(self):
        L = ["case " + self.name, "cfg mode=%s suspend=1" % self.mode + (" timeout=%d" % self.tcfg[0] if self.tcfg else "")]
        for rid, (kind, size, cbmax) in sorted(self.resps.items()):
            L.append("resp %d kind=%s size=%d cbmax=%d" % (rid, kind, size, cbmax))
        for i, c in enumerate(self.conns):
            body = {"cl": "cl:%d" % len(c.body()), "ch": "ch", "get": "none"}[c.shape]
            L.append("req %d 0 head=%d body=%s" % (i, len(c.head()), body))
            L.append("beh %d 0 %s" % (i, c.plan.beh()))
            for r, q in enumerate(c.chain()[1:], 1):
                body = {"cl": "cl:%d" % len(q.body()), "ch": "ch", "get": "none"}[q.shape]
                L.append("req %d %d head=%d body=%s" % (i, r, len(q.head()), body))
                L.append("beh %d %d %s" % (i, r, q.plan.beh()))
        if self.tcfg and self.tcfg[1] is not None:
            L.append("cto 0 %d" % self.tcfg[1])
        L.append("start")      # the application's scripts are fixed before the daemon starts
        for i, c in enumerate(self.conns):
            L.append("arrive %d %d" % (i, i + 1))
        pcs = [c.pieces() for c in self.conns]
        used = 0
        total = self.total_rounds()
        if self.tcfg:
            # timer family: the clock runs only while connection 0 is suspended (far beyond every timeout in play);
            # the explicit resume follows two rounds later; several cycles, so that every suspend point is served
            st = (lambda w: ["settimeout 0 %d" % self.sett[1]] if (self.sett and self.sett[0] == w) else [])
            cyc = ["tick-if-susp 0 %d" % self.tcfg[2]] + st("while") + ["round", "round", "resume 0", "round", "round"] + st("after")
            held = pcs[0][-1] if (self.late and len(pcs[0]) > 1) else None
            L += ["round"] + st("before")        # the connection is known to the application after its first round
            for piece in (pcs[0][:-1] if held is not None else pcs[0]):
                L += ["send 0 %s" % hx(piece), "round", "round"]
            L += cyc * 2
            if held is not None:
                L += ["send 0 %s" % hx(held), "round", "round"]
            L += cyc * 3 + ["round"] * 6 + ["stop"]
            return L
        for step in range(max(len(p) for p in pcs)):
            for i, p in enumerate(pcs):
                if step < len(p):
                    L.append("send %d %s" % (i, hx(p[step])))
            L += ["round", "round"]
            used += 2
        er = sorted(self.extra_resume)
        while used < total:
            while er and er[0][0] <= used:
                L.append("resume %d" % er.pop(0)[1])
            L.append("round")
            used += 1
        L.append("stop")
        return L


# ------------------------------------------------------------------ placements

POINTS = ["F0", "F1", "U0", "U1", "U2", "L0", "L1", "R0", "R1", "R2"]
PREREQ = {"F1": "F0", "L1": "L0"}


def placements(maxn):
    out = []
    for n in range(0, maxn + 1):
        for combo in itertools.combinations(POINTS, n):
            if all(PREREQ.get(p, p) in combo or p not in PREREQ for p in combo):
                out.append(combo)
    return out


def plan_for(combo, act, takes, rd=0, rid=1):
    """act: one action for all points or a function point->action"""
    a = act if callable(act) else (lambda p: act)
    fs = [a(p) for p in ("F0", "F1") if p in combo]
    ls = [a(p) for p in ("L0", "L1") if p in combo]
    us = {int(p[1]): a(p) for p in combo if p[0] == "U"}
    rs = {int(p[1]): a(p) for p in combo if p[0] == "R"}
    return Plan(fs=fs, us=us, ls=ls, rs=rs, takes=takes, rd=rd, rid=rid)


SHAPES = [("cl", "one", ("3",)), ("cl", "pieces", ("all",)), ("ch", "one", ("all",)), ("ch", "pieces", ("2", "all"))]
RESPS = {1: ("cb-unknown", 10, 4), 2: ("cb-known", 10, 4)}


def gen_cases(ctx, tier, boost=False):
    rng = ctx.rng
    # a content reader that suspends *and* returns data: with a known-size reply the block is sent by the
    # same MHD_connection_handle_write call unless the source has the guard (finding FC11b); explored for
    # chunked replies always, for known-size replies only when the source claims to handle it
    rd_known_ok = effective_guards()[0].get("writeReaderGuard", False)
    cases = []
    maxn = 3 if tier == "thorough" else 2
    modes = ["select", "epoll"]     # MHD_USE_POLL exists only with an internal thread (see the random part)
    delays = ["i", "d0", "d2"]
    k = 0
    allp = placements(maxn)
    for combo in allp:
        for (shape, seg, takes) in SHAPES:
            for dl in delays:
                # 3-point placements in the thorough tier: one delay per shape (rotating) keeps the run in budget
                if len(combo) == 3 and delays[(k + len(shape)) % 3] != dl:
                    continue
                for mode in modes:
                    for nconn in (1, 2):
                        if nconn == 2 and len(combo) == 3 and mode != "select":
                            continue
                        conns = [ConnSpec(shape, seg, plan_for(combo, dl, takes))]
                        if nconn == 2:
                            c2 = rng.choice(allp)
                            d2 = rng.choice(delays)
                            s2 = rng.choice(SHAPES)
                            conns.append(ConnSpec(s2[0], s2[1], plan_for(c2, d2, s2[2], rid=rng.choice([1, 2])),
                                                  chunks=(b"qrs", b"tuvw", b"xy")))
                        cases.append(Case("p%d" % k, mode, conns, RESPS))
                        k += 1
    # a second request pipelined behind the first: its bytes sit in the read buffer while the first is suspended
    for combo in allp:
        for (shape, seg, takes) in (SHAPES[0], SHAPES[2], SHAPES[3]):
            for dl in delays:
                if len(combo) == 3 and delays[(k + len(shape)) % 3] != dl:
                    continue
                for mode in modes:
                    second = ConnSpec("get", "one", Plan(rid=2)) if (k % 2) else \
                        ConnSpec("cl", "one", plan_for(rng.choice(allp), rng.choice(delays), ("all",), rid=1), chunks=(b"QR", b"S", b"TU"))
                    cases.append(Case("q%d" % k, mode, [ConnSpec(shape, seg, plan_for(combo, dl, takes), second=second)], RESPS))
                    k += 1
    # timer family: suspended longer than the inactivity timeout (virtual clock), daemon default timeout x the connection's own
    # timeout (none = default-timeout list, != default = manual-timeout list, == default, 0 = never), every single suspend point
    TCFG = [(5, None), (5, 2), (0, 2), (5, 5), (5, 0)]
    for combo in [cb for cb in allp if len(cb) == 1 or cb in (("F0", "F1"), ("L0", "L1"))]:
        for (shape, seg, takes) in SHAPES:
            for (dflt, own) in TCFG:
                for mode in modes:
                    for late in ((False, True) if seg == "pieces" else (False,)):
                        cases.append(Case("t%d" % k, mode, [ConnSpec(shape, seg, plan_for(combo, "n", takes, rid=1 + k % 2))], RESPS,
                                          tcfg=(dflt, own, 7000), late=late))
                        k += 1
    # MHD_set_connection_option (TIMEOUT) from outside the callbacks: before the suspension / while suspended / after the resume x
    # new value {= daemon default, != default, 0} x every single suspend point; the clock still runs only during the suspension
    for combo in [cb for cb in allp if len(cb) == 1 or cb in (("F0", "F1"), ("L0", "L1"))]:
        for (shape, seg, takes) in SHAPES:
            for when in ("before", "while", "after"):
                for val in (5, 2, 0):
                    for mode in modes:
                        cases.append(Case("s%d" % k, mode, [ConnSpec(shape, seg, plan_for(combo, "n", takes, rid=1 + k % 2))], RESPS,
                                          tcfg=(5, None, 7000), sett=(when, val)))
                        k += 1
    # race orders, explicit resume, mixed actions, take-nothing-and-suspend, reader that returns data, known-size replies
    nrand = (3000 if tier == "thorough" else 500) * (3 if boost else 1)
    acts = ["i", "d0", "d1", "d2", "d3", "p", "t"]
    for _ in range(nrand):
        mode = rng.choice(modes)
        if tier == "thorough" and rng.random() < 0.2:
            mode = rng.choice(["poll-thr", "select-thr", "epoll-thr"])
        nconn = rng.choice([1, 1, 2, 2, 3])
        conns, extra = [], []
        for i in range(nconn):
            shape, seg, takes = rng.choice(SHAPES + [("get", "one", ("all",)), ("ch", "two", ("all",)), ("cl", "two", ("2", "5", "all"))])
            combo = rng.choice(allp)
            amap = {p: rng.choice(acts if not mode.endswith("-thr") else acts + ["t", "t", "t"]) for p in combo}
            if rng.random() < 0.15 and combo:
                p = rng.choice(combo)
                amap[p] = "n"
                r0 = rng.randint(6, 12)
                # a resume that comes before the suspend cancels the next suspend instead: repeat it until the `n` point is served
                extra += [(r0 + 7 * j, i) for j in range(5)]
            takes = list(takes)
            plan = plan_for(combo, lambda p: amap[p], takes, rid=rng.choice([1, 1, 2]))
            if plan.rs and rng.random() < 0.3 and (plan.rid == 1 or rd_known_ok):
                plan.rd = 1
            if plan.us and rng.random() < 0.3 and shape != "get" and plan.us[sorted(plan.us)[0]][0] in "din":
                # back-pressure pattern: the suspending upload call consumes nothing
                plan.zero_at = {sorted(plan.us)[0]}
            second = None
            if rng.random() < 0.15:
                c2 = rng.choice(allp)
                second = ConnSpec(rng.choice(["get", "cl", "ch"]), "one", plan_for(c2, lambda p: rng.choice(acts), ("all",), rid=rng.choice([1, 2])),
                                  chunks=(b"mn", b"opq", b"r"))
                if second.plan.rs and second.plan.rid == 2 and not rd_known_ok:
                    second.plan.rd = 0
                if rng.random() < 0.4:
                    c3 = rng.choice(allp)
                    second.second = ConnSpec(rng.choice(["get", "cl", "ch"]), "one", plan_for(c3, lambda p: rng.choice(acts), ("all",), rid=rng.choice([1, 2])),
                                             chunks=(b"st", b"u", b"vwx"))
                    if second.second.plan.rs and second.second.plan.rid == 2 and not rd_known_ok:
                        second.second.plan.rd = 0
            conns.append(ConnSpec(shape, seg, plan, chunks=[bytes([65 + 7 * i + j for j in range(n)]) for n in (3, 4, 2)], second=second))
        cases.append(Case("r%d" % k, mode, conns, RESPS, extra_resume=extra))
        k += 1
    return cases


# ------------------------------------------------------------------ log parsing / (iii) oracle

def split_cases(lines):
    out, cur, name = {}, None, None
    for l in lines:
        if l.startswith("case "):
            name = l.split()[1]
            cur = out.setdefault(name, [])
        elif cur is not None:
            cur.append(l)
    return out


KV = re.compile(r"(\w+)=(\S+)")


def dechunk(b):
    out, p = b"", 0
    while True:
        e = b.find(b"\r\n", p)
        if e < 0:
            return out, False
        try:
            n = int(b[p:e], 16)
        except ValueError:
            return out, False
        p = e + 2
        if n == 0:
            return out, b[p:p + 2] == b"\r\n" and p + 2 == len(b)
        if p + n + 2 > len(b):
            return out + b[p:p + n], False
        out += b[p:p + n]
        p += n + 2


def parse_reply(w):
    """-> (head bytes, body bytes, complete?)"""
    e = w.find(b"\r\n\r\n")
    if e < 0:
        return w, b"", False
    head, rest = w[:e + 4], w[e + 4:]
    low = head.lower()
    if b"transfer-encoding: chunked" in low:
        body, done = dechunk(rest)
        return head, body, done
    m = re.search(rb"content-length: (\d+)", low)
    if m:
        n = int(m.group(1))
        return head, rest[:n], len(rest) == n
    return head, rest, False


def parse_replies(w):
    """all replies on one connection, in order: [(head, body, complete?)]"""
    out, p = [], 0
    while p < len(w):
        e = w.find(b"\r\n\r\n", p)
        if e < 0:
            out.append((w[p:], b"", False))
            break
        head = w[p:e + 4]
        low = head.lower()
        p = e + 4
        if b"transfer-encoding: chunked" in low:
            body, done = b"", False
            while True:
                le = w.find(b"\r\n", p)
                if le < 0:
                    break
                try:
                    n = int(w[p:le], 16)
                except ValueError:
                    break
                if n == 0:
                    if w[le + 2:le + 4] == b"\r\n":
                        done, p = True, le + 4
                    break
                if le + 2 + n + 2 > len(w):
                    body += w[le + 2:le + 2 + n]
                    p = len(w)
                    break
                body += w[le + 2:le + 2 + n]
                p = le + 2 + n + 2
            out.append((head, body, done))
            if not done:
                break
        else:
            m = re.search(rb"content-length: (\d+)", low)
            n = int(m.group(1)) if m else 0
            out.append((head, w[p:p + n], bool(m) and p + n <= len(w)))
            p += n
            if p > len(w):
                break
    return out


class ReqView:
    def __init__(self):
        self.uploaded = b""
        self.first = self.refirst = self.final = self.queued = 0
        self.completed = None
        self.readers = []


class ConnView:
    """what the log says about one connection"""

    def __init__(self):
        self.events = []        # strict sequence for the model diff
        self.reqs = {}
        self.wire = b""
        self.violations = []
        self.nsusp = self.ncancel = 0

    def rq(self, r):
        return self.reqs.setdefault(r, ReqView())

    def canon(self):
        reps = parse_replies(self.wire)
        out = {"replies": len(reps), "requests": len(self.reqs)}
        for r, q in sorted(self.reqs.items()):
            out["first%d" % r] = min(q.first, 1)
            out["uploaded%d" % r] = q.uploaded.hex()
            out["final%d" % r] = min(q.final, 1)
            out["queued%d" % r] = q.queued
            out["completed%d" % r] = q.completed
        for j, (head, body, done) in enumerate(reps):
            out["reply_head%d" % j] = head.decode("latin1")
            out["reply_body%d" % j] = body.hex()
            out["reply_complete%d" % j] = done
        return out


def analyse(lines, nconn, threaded=False):
    """independent oracle, pass 1: per-connection views + `quiet while suspended`.
    Application-level view of one connection: A(ctive), S(uspended, no resume issued yet),
    R(esume issued, the daemon has not started its next round yet).  A resume issued in state A
    stays pending and cancels the next suspend (MHD documents resume as safe at any time)."""
    views = [ConnView() for _ in range(nconn)]
    state = ["A"] * nconn
    pend = [False] * nconn          # a resume was issued while the connection was not suspended
    last_up = [None] * nconn
    for ln, l in enumerate(lines):
        w = l.split()
        if not w:
            continue
        if w[0] == "round-begin":
            state = ["A" if s == "R" else s for s in state]
            continue
        d = dict(KV.findall(l))
        c = int(d["c"]) if "c" in d and d["c"].isdigit() else None
        if c is None or c >= nconn:
            if w[0] in ("protocol-error", "bad-op", "fdset-failed", "start-failed", "panic"):
                for v in views:
                    v.violations.append("harness: " + l)
            continue
        v = views[c]
        q = v.rq(int(d["r"])) if "r" in d and d["r"].isdigit() else None
        if w[0] in ("handler", "reader", "took", "queued", "io", "completed"):
            if state[c] == "S" or (state[c] == "R" and not threaded):
                v.violations.append("%s while suspended: `%s`" % (w[0] if w[0] != "io" else "socket I/O", l[:100]))
        if w[0] == "handler":
            ph = d["phase"]
            if ph == "first":
                q.first += 1
            elif ph == "refirst":
                q.refirst += 1
            elif ph == "final":
                q.final += 1
            last_up[c] = unhx(d["up"]) if ph == "upload" else None
            if ph != "upload":
                v.events.append("handler %s" % ph)
        elif w[0] == "took":
            n = int(d["n"])
            q.uploaded += last_up[c][:n]
            v.events.append("handler upload up=%s took=%d" % (hx(last_up[c]), n))
        elif w[0] == "queued":
            q.queued += 1
            v.events.append("queued")
        elif w[0] == "reader":
            ret = l.split("->")[1].strip()
            q.readers.append((int(d["pos"]), ret))
            v.events.append("reader j=%s pos=%s ret=%s" % (d["j"], d["pos"], ret))
        elif w[0] == "suspend":
            eff = d["eff"] == "1"
            if not threaded:
                if state[c] != "A":
                    v.violations.append("suspend issued by a callback of a connection that is not active: `%s`" % l)
                elif eff != (not pend[c]):
                    v.violations.append("suspend effectiveness %d but a resume %s pending: `%s`" % (eff, "was" if pend[c] else "was not", l))
            pend[c] = False
            if eff:
                state[c] = "S"
                v.nsusp += 1
            else:
                v.ncancel += 1
            v.events.append("suspend eff=%d" % eff)
        elif w[0] == "resume":
            if w[-1] == "stop":
                state[c] = "A"
                continue
            if state[c] == "S":
                state[c] = "R"
            elif state[c] == "A":
                pend[c] = True
            v.events.append("resume")
        elif w[0] == "resumed":
            state[c] = "A"
        elif w[0] == "wire":
            v.wire += unhx(w[2])
        elif w[0] == "completed":
            if q is not None:
                q.completed = int(d["code"])
            v.events.append("completed code=%s" % d["code"])
        elif w[0] == "settimeout":
            v.events.append("settimeout sec=%s susp=%s" % (d.get("sec"), d.get("susp")))
            if d.get("susp") == "1":
                v.nsett_susp = getattr(v, "nsett_susp", 0) + 1
        elif w[0] == "tolist-violation":
            v.violations.append("timeout lists: " + l)
        elif w[0] == "frozen-violation":
            v.violations.append("processing state changed while suspended: " + l[:160])
        elif w[0] in ("protocol-error", "double-suspend"):
            v.violations.append(l)
    return views


def judge(case, hlines, blines):
    """oracle verdicts for one case; hlines = log of the run, blines = log of the same script with the suspends erased"""
    n = len(case.conns)
    thr = case.mode.endswith("-thr")
    hv, bv = analyse(hlines, n, thr), analyse(blines, n, thr)
    errs = []
    for i, c in enumerate(case.conns):
        v, b = hv[i], bv[i]
        if case.tcfg:
            # the clock advanced only while the connection was suspended: it has never been idle since a resume, so any
            # termination for inactivity (code 2 = MHD_REQUEST_TERMINATED_TIMEOUT_REACHED) closes it too early
            for r, q in sorted(v.reqs.items()):
                if q.completed == 2:
                    errs.append(("timer", "conn %d request %d closed for inactivity (TIMEOUT_REACHED) although the clock only advanced while it "
                                          "was suspended (daemon timeout %ss, connection timeout %s)" %
                                 (i, r, case.tcfg[0], "default" if case.tcfg[1] is None else "%ss" % case.tcfg[1])))
        for e in v.violations:
            errs.append(("quiet", "conn %d: %s" % (i, e)))
        for e in b.violations:
            errs.append(("baseline", "conn %d (no suspends): %s" % (i, e)))
        hc, bc = v.canon(), b.canon()
        specs = c.chain()
        if bc["replies"] != len(specs) or any(not bc.get("reply_complete%d" % r) or bc.get("completed%d" % r) != 0 for r in range(len(specs))):
            errs.append(("baseline", "conn %d: the run without suspends did not complete: %r" % (i, bc)))
            continue
        if hc != bc:
            diff = {k: (hc.get(k), bc.get(k)) for k in set(hc) | set(bc) if hc.get(k) != bc.get(k)}
            errs.append(("stutter", "conn %d: projection differs from the run without suspends: %r" % (i, diff)))
        # and against what the client sent / the application supplies
        for r, cs in enumerate(specs):
            kind, size, cbmax = case.resps[cs.plan.rid]
            want = bytes(PAT(cs.plan.rid, j) for j in range(size))
            q = v.rq(r)
            if hc.get("uploaded%d" % r) != cs.body().hex():
                errs.append(("lossless", "conn %d request %d: handler consumed %s, client sent %s" % (i, r, hc.get("uploaded%d" % r), cs.body().hex())))
            if hc.get("reply_body%d" % r) != want.hex():
                errs.append(("lossless", "conn %d request %d: client received body %s, application supplied %s" % (i, r, hc.get("reply_body%d" % r), want.hex())))
            if q.first != 1 or q.queued != 1:
                errs.append(("lossless", "conn %d request %d: %d first calls, %d replies queued" % (i, r, q.first, q.queued)))
            # reader positions: contiguous, never backwards
            pos = 0
            for pp, ret in q.readers:
                if pp != pos:
                    errs.append(("lossless", "conn %d request %d: reader called at pos %d, expected %d" % (i, r, pp, pos)))
                    break
                if ret.isdigit():
                    pos += int(ret)
    return errs, hv, bv


# ------------------------------------------------------------------ runner / Spec

def _sig(s):
    s = re.sub(r"`[^`]*`", "L", s)
    s = re.sub(r"\{.*\}", "D", s)
    s = re.sub(r"\b[0-9a-f]{6,}\b", "H", s)
    s = re.sub(r"\d+", "N", s)
    return s[:140]


class Spec:
    props_module = "Mhd.Props.C11"
    lean_targets = ["Mhd.Props.C11", "drv_susp"]
    required_theorems = ["Mhd.C11.guards_present", "Mhd.C11.lists_consistent", "Mhd.C11.suspended_not_traversed",
                         "Mhd.C11.no_lost_resume", "Mhd.C11.suspended_entry_points_return", "Mhd.C11.suspended_frozen",
                         "Mhd.C11.quiet_while_suspended", "Mhd.C11.resume_reenters", "Mhd.C11.race_both_orders",
                         "Mhd.C11.upload_lossless", "Mhd.C11.reply_lossless", "Mhd.C11.upload_complete",
                         "Mhd.C11.stutter_equivalence", "Mhd.C11.pipeline_order", "Mhd.C11.epoll_no_lost_wakeup",
                         "Mhd.C11.eready_traversal_visits", "Mhd.C11.no_block_while_pending",
                         "Mhd.C11.resume_any_point_of_round", "Mhd.C11.timer_guards_present",
                         "Mhd.C11.resume_restarts_timer_all_lists", "Mhd.C11.no_timeout_while_suspended",
                         "Mhd.C11.no_early_timeout_after_resume", "Mhd.C11.manual_restart_witness",
                         "Mhd.C11.set_timeout_while_suspended_keeps_lists", "Mhd.C11.timeout_lists_consistent",
                         "Mhd.C11.set_timeout_guard_witness",
                         "Mhd.C11.instant_retry_witness", "Mhd.C11.reader_data_witness"]
    trusted_base = ["Lean 4 kernel", "axioms: propext, Classical.choice, Quot.sound at most (audited per theorem)",
                    "hand-written model lean/Mhd/Model/Susp*.lean tied to daemon.c / connection.c by this run's correspondence",
                    "tools/props/C11.py gen_susp (guard presence table, event-loop-info and epoll-state bits regenerated)",
                    "harness/h_susp.c (libc interposition for the I/O log), gcc, ASan/UBSan, Linux socketpair/select/epoll"]
    assumptions = ["well-formed requests of three shapes (no body, Content-Length, chunked), request head not split across sends; "
                   "keep-alive pipelines of such requests (the model leaves the last scripted request of a connection in `finished`)",
                   "the application is legal: consumes at most what is offered, suspends only from its callbacks, "
                   "resumes each suspended connection eventually, does not call MHD_stop_daemon with suspended connections",
                   "no socket errors, no timeouts (connection timeout 0), non-TLS, no thread-per-connection",
                   "sends complete fully (replies are far below the socket buffer size)"]

    def gen(self, ctx):
        gen_susp()

    def build(self, ctx):
        self.harness = vlib.build_daemon_harness(name="h_susp", src="harness/h_susp.c", ldextra=["-ldl"])
        self.driver = vlib.driver_path("drv_susp")

    def run_harness(self, cases, failures):
        """-> {case name: [log lines]}"""
        out = {}
        B = 400
        for i in range(0, len(cases), B):
            sub = cases[i:i + B]
            lines = [l for c in sub for l in c.lines()]
            hout, hrc, herr = vlib.run_lines(self.harness, lines, timeout=420)
            got = split_cases(hout)
            out.update(got)
            if hrc != 0:
                bad = next((c for c in sub if c.name not in got), sub[-1])
                # the case after the last complete one is the culprit when the process died
                names = [c.name for c in sub if c.name in got]
                if names:
                    bad = next((c for c in sub if c.name == names[-1]), bad)
                m = re.search(r"(ERROR: \w+Sanitizer: [\w-]+|runtime error: [^\n]{0,80}|SEGV[^\n]{0,40}|Fatal error[^\n]{0,80}|TIMEOUT)", herr)
                failures.append(vlib.Failure("sanitizer", "susp: harness aborted: " + _sig(m.group(1) if m else "rc=%d" % hrc),
                                             herr[-2500:], bad.lines(), "susp"))
                for c in sub:
                    out.setdefault(c.name, None)
        return out

    def run_driver(self, cases):
        if not os.path.exists(self.driver):
            return {}
        lines = [l for c in cases for l in c.lines()]
        mout, mrc, merr = vlib.run_lines(self.driver, lines, timeout=900)
        return split_cases(mout)

    def check(self, cases, failures, stats, with_model=True):
        base = {}
        for c in cases:
            b = c.erased()
            key = json.dumps(b.lines()[1:])
            if key not in base:
                b.name = "b%d" % len(base)
                base[key] = b
        blogs = self.run_harness(list(base.values()), failures)
        hlogs = self.run_harness(cases, failures)
        mlogs = self.run_driver(cases) if with_model else {}
        for c in cases:
            b = base[json.dumps(c.erased().lines()[1:])]
            hl, bl = hlogs.get(c.name), blogs.get(b.name)
            stats["cases"] += 1
            if hl is None or bl is None:
                continue
            errs, hv, bv = judge(c, hl, bl)
            for v in hv:
                stats["suspends"] += v.nsusp
                stats["cancelled_suspends"] += v.ncancel
            stats["mode_" + c.mode] = stats.get("mode_" + c.mode, 0) + 1
            if c.tcfg:
                stats["timer_cases"] = stats.get("timer_cases", 0) + 1
                if c.sett:
                    stats["settimeout_cases"] = stats.get("settimeout_cases", 0) + 1
                    stats["settimeout_%s" % c.sett[0]] = stats.get("settimeout_%s" % c.sett[0], 0) + 1
                    if any(l.startswith("settimeout ") and "susp=1" in l for l in hl):
                        stats["settimeout_applied_while_suspended"] = stats.get("settimeout_applied_while_suspended", 0) + 1
                if any(l.startswith("ticked ") for l in hl):
                    stats["timer_cases_clock_ran_while_suspended"] = stats.get("timer_cases_clock_ran_while_suspended", 0) + 1
                    lst = "never" if c.tcfg[1] == 0 else ("manual_list" if (c.tcfg[1] is not None and c.tcfg[1] != c.tcfg[0]) else "default_list")
                    stats["timer_ticked_" + lst] = stats.get("timer_ticked_" + lst, 0) + 1
            for cl in c.conns:
                stats["shape_%s_%s" % (cl.shape, cl.seg)] = stats.get("shape_%s_%s" % (cl.shape, cl.seg), 0) + 1
                for a in [a for q in cl.chain() for a in q.plan.acts()]:
                    stats["act_" + a[0]] = stats.get("act_" + a[0], 0) + 1
            errs = [e for e in errs if e[0] != "baseline"] or errs
            if errs and c.mode.endswith("-thr"):
                # internal-thread modes are paced by wall-clock sleeps in the harness: on a loaded machine a round can be
                # cut short.  A rejected threaded case is re-run alone (case + its baseline); it is reported only if it
                # is rejected every time.  Both counters are part of the coverage, so flakiness stays visible.
                stats["thr_rejected_first_run"] = stats.get("thr_rejected_first_run", 0) + 1
                for _ in range(3):
                    again = self.run_harness([b, c], failures)
                    hl2, bl2 = again.get(c.name), again.get(b.name)
                    if hl2 is None or bl2 is None:
                        break
                    errs2, hv2, bv2 = judge(c, hl2, bl2)
                    errs2 = [e for e in errs2 if e[0] != "baseline"] or errs2
                    if not errs2:
                        errs, hl, bl, hv, bv = [], hl2, bl2, hv2, bv2
                        stats["thr_recovered_on_rerun"] = stats.get("thr_recovered_on_rerun", 0) + 1
                        break
            if errs:
                kind, det = errs[0]
                failures.append(vlib.Failure("oracle", "susp/%s: %s" % (kind, _sig(det)), "; ".join(e[1] for e in errs[:4]),
                                             c.lines(), "susp"))
                stats["oracle_rejects"] += 1
                continue
            pipelined = any(cl.second for cl in c.conns)
            if pipelined:
                stats["pipelined_cases"] = stats.get("pipelined_cases", 0) + 1
                stats["pipelined_requests"] = stats.get("pipelined_requests", 0) + sum(len(cl.chain()) for cl in c.conns if cl.second)
                stats["pipelined_suspends_in_later_requests"] = stats.get("pipelined_suspends_in_later_requests", 0) + \
                    sum(q.plan.nsusp() for cl in c.conns for q in cl.chain()[1:])
            if not with_model:
                continue
            ml = mlogs.get(c.name)
            if ml is None:
                failures.append(vlib.Failure("diff", "susp: model driver gave no output", "", c.lines(), "susp"))
                continue
            mv = analyse(ml, len(c.conns))
            racy = c.mode.endswith("-thr") or any(a == "t" for cl in c.conns for q in cl.chain() for a in q.plan.acts())
            for i in range(len(c.conns)):
                mf = [l for l in ml if l.startswith("fault") or l.startswith("bad-op")]
                if mf:
                    failures.append(vlib.Failure("model", "susp: model " + _sig(mf[0]), mf[0], c.lines(), "susp"))
                    stats["model_faults"] += 1
                    break
                hc, mc = hv[i].canon(), mv[i].canon()
                for k in [k for k in list(hc) + list(mc) if k.startswith("reply_head")]:
                    hc.pop(k, None), mc.pop(k, None)
                if hc != mc:
                    failures.append(vlib.Failure("diff", "susp: canonical projection: model/code differ",
                                                 "conn %d: code %r model %r" % (i, hc, mc), c.lines(), "susp"))
                    stats["diffs"] += 1
                    break
                if not racy and hv[i].events != mv[i].events:
                    j = next((k for k in range(min(len(hv[i].events), len(mv[i].events))) if hv[i].events[k] != mv[i].events[k]),
                             min(len(hv[i].events), len(mv[i].events)))
                    det = "conn %d event %d: code `%s` model `%s`" % (
                        i, j, hv[i].events[j] if j < len(hv[i].events) else "<end>", mv[i].events[j] if j < len(mv[i].events) else "<end>")
                    failures.append(vlib.Failure("diff", "susp: callback order: model/code differ (%s)" % c.mode, det, c.lines(), "susp"))
                    stats["diffs"] += 1
                    break
                if not racy:
                    stats["strict_equal"] += 1
                    if pipelined and i == 0:
                        stats["pipelined_strict_equal_" + c.mode] = stats.get("pipelined_strict_equal_" + c.mode, 0) + 1
            else:
                if not racy and c.mode == "select" and not c.tcfg:
                    # MHD_get_timeout after every round (0 = do not block: pending data, pending resume, non-empty eready list)
                    hh, mh = [l for l in hl if l.startswith("hint ")], [l for l in ml if l.startswith("hint ")]
                    if hh[:len(mh)] != mh:
                        j = next((k for k in range(min(len(hh), len(mh))) if hh[k] != mh[k]), min(len(hh), len(mh)))
                        failures.append(vlib.Failure("diff", "susp: timeout hint after a round: model/code differ (%s)" % c.mode,
                                                     "round %d: code `%s` model `%s`" % (j, hh[j] if j < len(hh) else "<end>", mh[j] if j < len(mh) else "<end>"),
                                                     c.lines(), "susp"))
                        stats["diffs"] += 1
                    else:
                        stats["hint_sequences_equal"] = stats.get("hint_sequences_equal", 0) + 1
                        stats["hint_zero_rounds"] = stats.get("hint_zero_rounds", 0) + sum(1 for l in mh if l == "hint 0")

    def explore(self, ctx, boost):
        failures = []
        stats = {"cases": 0, "oracle_rejects": 0, "diffs": 0, "model_faults": 0, "suspends": 0, "cancelled_suspends": 0, "strict_equal": 0}
        corpus = []
        cdir = os.path.join(vlib.VERIF, "corpus", "susp")
        # corpus first (raw scripts: judged by the quiet-oracle only)
        ncorp = 0
        if os.path.isdir(cdir):
            for f in sorted(os.listdir(cdir)):
                ls = [l for l in open(os.path.join(cdir, f)).read().splitlines() if l.strip() and not l.startswith("#")]
                hout, hrc, herr = vlib.run_lines(self.harness, ls)
                ncorp += 1
                for name, lg in split_cases(hout).items():
                    nconn = 1 + max([int(x.split()[1]) for x in ls if x.startswith("arrive ")] or [0])
                    for v in analyse(lg, nconn):
                        for e in v.violations:
                            failures.append(vlib.Failure("oracle", "susp/quiet: " + _sig(e), e, ls, "susp"))
        cases = gen_cases(ctx, ctx.tier, boost)
        B = 1500
        for i in range(0, len(cases), B):
            self.check(cases[i:i + B], failures, stats, with_model=os.path.exists(self.driver))
            if len(failures) > 30:
                break
        ctx.note("%d cases, %d failures" % (stats["cases"], len(failures)))
        maxn = 3 if ctx.tier == "thorough" else 2
        maxn = 3 if ctx.tier == "thorough" else 2
        stats["rd_cases"] = sum(1 for c in cases for cl in c.conns if cl.plan.rd)
        stats["two_or_more_connections"] = sum(1 for c in cases if len(c.conns) > 1)
        stats["placements"] = len(placements(maxn))
        cov = {"evaluations": stats["cases"], "distinct_nontrivial": len({json.dumps(c.lines()[1:]) for c in cases if any(cl.plan.nsusp() for cl in c.conns)}),
               "rule": "a case = one scripted daemon run (1..3 connections) judged against the same script with all suspends erased; "
                       "distinct = different scripts with at least one suspend point",
               "bounded_exhaustive": "all placements of <= %d suspend points out of %s (F=first call cycles, U=upload call i, L=final call cycles, "
                                     "R=content reader call j) x 4 request shapes x resume delays {in the callback, next round, +3 rounds} x "
                                     "modes %s x {1, 2} connections" % (maxn, POINTS, "select/epoll (external)"),
               "random": "mixed actions per point (incl. resume-before-suspend `p`, second-thread resume `t`, explicit resume), 1..3 connections"
                         + (", internal-thread modes" if ctx.tier == "thorough" else ""),
               "exhaustive": False, "corpus": ncorp, "outcomes": stats,
               "guards": {k: v for k, v in effective_guards()[0].items()},
               "pipelines": "a second (random part: also a third) request pipelined behind the first one: its bytes arrive with the last piece of the "
                            "first and sit in the read buffer while the first is suspended; suspend points in every request; model and code "
                            "compared on the exact callback sequence of the whole connection (counts: pipelined_*)",
               "timer": "virtual clock advanced by 7 s only while the connection is suspended x daemon timeout {0, 5 s} x own timeout {none, 2 s, "
                        "= default, 0} x every single suspend point (+ F0F1, L0L1) x 4 shapes x select/epoll x {all data before, last piece after the "
                        "resume}; oracle: never TIMEOUT_REACHED, projection = run without suspends (counts: timer_*)",
               "settimeout": "MHD_set_connection_option(TIMEOUT) from outside the callbacks {before the suspension, while suspended, after the resume} "
                             "x new value {= default, != default, 0} x every single suspend point (+ F0F1, L0L1) x 4 shapes x select/epoll; "
                             "white-box membership count of the connection in both timeout lists after every such call and every round "
                             "(`tolist-violation`), (counts: settimeout_*)",
               "timeout_hint": "select mode: MHD_get_timeout64 after every round (0 / none) equals Daemon.hintZero of the model (hint_*)",
               "strength": {"callback order per connection (select/epoll external)": "bounded-exhaustive over placements + random; exact diff",
                            "canonical projection (all modes)": "every case, against the run without suspends and against the model",
                            "guard table": "behavioural probes + source pattern, every run"},
               "samples": [cases[len(cases) // 3].lines()[:14], cases[-1].lines()[:14]] if cases else []}
        return failures, cov


def replay(ctx, path):
    r = json.load(open(path))
    sp = Spec(); sp.gen(ctx); vlib.lake_build(sp.lean_targets); sp.build(ctx)
    lines = r["input"]
    hout, hrc, herr = vlib.run_lines(sp.harness, lines)
    print("\n".join(l for l in hout if not l.startswith(("hint", "conns", "ok"))))
    nconn = 1 + max([int(x.split()[1]) for x in lines if x.startswith("arrive ")] or [0])
    bad = 0
    for name, lg in split_cases(hout).items():
        for i, v in enumerate(analyse(lg, nconn)):
            for e in v.violations:
                print("ORACLE conn %d: %s" % (i, e))
                bad += 1
    if os.path.exists(sp.driver):
        mout, mrc, merr = vlib.run_lines(sp.driver, lines)
        print("--- model ---")
        print("\n".join(mout))
    print("detail:", r.get("detail", ""))
    return 1 if (bad or hrc != 0 or r.get("kind") == "oracle") else 0
