"""C13 — Digest nonces: issued-only, expiring, each nonce count usable once.  Engine `nonce`.

Translator (A): constants of digestauth.c / internal.h -> lean/Mhd/Gen/Nonce.lean.
Correspondence (B): harness/h_nonce.c (the real check_nonce_nc, calculate_add_nonce,
get_nonce_timestamp, fast_simple_hash, MHD_digest_auth_check3 on a fabricated
connection, virtual clock) against lean/Driver/Nonce.lean on the same scripts.
Oracle: a set-of-used-counters reference of the property, evaluated on the
harness output only (knows nothing about the Lean model or the (nc, nmask)
representation).
"""
import hashlib, itertools, json, multiprocessing, os, random, re
import vlib, extract

U32, U48, U64 = 1 << 32, 1 << 48, 1 << 64


# ------------------------------------------------------------------ (A) Gen

def gen_nonce():
    from extract import c_eval, src, prev_value, HEADER, GEN
    v = c_eval('#include "MHD_config.h"\n#include "digestauth.c"\n',
               [("reuse", "%d", "(int) REUSE_TIMEOUT"), ("tsbin", "%d", "(int) TIMESTAMP_BIN_SIZE"),
                ("maxlen", "%d", "(int) MAX_DIGEST_NONCE_LENGTH"),
                ("bufsz", "%zu", "sizeof (((struct MHD_NonceNc *) 0)->nonce)"),
                ("std_md5", "%d", "(int) NONCE_STD_LEN (MD5_DIGEST_SIZE)"),
                ("std_sha", "%d", "(int) NONCE_STD_LEN (SHA256_SHA512_256_DIGEST_SIZE)"),
                ("jb", "%d", "(int) DAUTH_JUMPBACK_MAX"),
                ("deft", "%d", "(int) MHD_DAUTH_DEF_TIMEOUT_"), ("defnc", "%d", "(int) MHD_DAUTH_DEF_MAX_NC_"),
                ("ncbits", "%zu", "8 * sizeof (((struct MHD_NonceNc *) 0)->nc)"),
                ("maskbits", "%zu", "8 * sizeof (((struct MHD_NonceNc *) 0)->nmask)"),
                ("tmobits", "%zu", "8 * sizeof (unsigned int)"),
                ("trimmax", "%llu", "(unsigned long long) TRIM_TO_TIMESTAMP (UINT64_MAX)")],
               extra=["-ffunction-sections", "-fdata-sections", "-Wl,--gc-sections"])
    if int(v["trimmax"]) != (1 << (8 * int(v["tsbin"]))) - 1:
        raise RuntimeError("TRIM_TO_TIMESTAMP is no longer the TIMESTAMP_BIN_SIZE*8-bit mask")
    m = re.search(r"nc\s*>=\s*UINT32_MAX\s*-\s*(\d+)", src("src/microhttpd/digestauth.c"))
    guard = m.group(1) if m else prev_value("Nonce.lean", "ncGuardSub", "64")
    rows = [("reuseTimeout", v["reuse"], "`REUSE_TIMEOUT` (seconds)"),
            ("timestampBinSize", v["tsbin"], "`TIMESTAMP_BIN_SIZE` (bytes of the timestamp embedded in a nonce)"),
            ("maxNonceLen", v["maxlen"], "`MAX_DIGEST_NONCE_LENGTH`"),
            ("nonceBufSize", v["bufsz"], "`sizeof (((struct MHD_NonceNc *) 0)->nonce)`"),
            ("stdLenMd5", v["std_md5"], "`NONCE_STD_LEN (MD5_DIGEST_SIZE)`"),
            ("stdLenSha", v["std_sha"], "`NONCE_STD_LEN (SHA256_SHA512_256_DIGEST_SIZE)`"),
            ("jumpbackMax", v["jb"], "`DAUTH_JUMPBACK_MAX`"),
            ("defTimeout", v["deft"], "`MHD_DAUTH_DEF_TIMEOUT_` (seconds)"),
            ("defMaxNc", v["defnc"], "`MHD_DAUTH_DEF_MAX_NC_`"),
            ("ncBits", v["ncbits"], "bits of `struct MHD_NonceNc.nc`"),
            ("maskBits", v["maskbits"], "bits of `struct MHD_NonceNc.nmask`"),
            ("ncGuardSub", guard, "the `K` of `if (nc >= UINT32_MAX - K) return STALE` in check_nonce_nc"),
            ("timeoutBits", v["tmobits"],
             "bits of `unsigned int` (type of `nonce_timeout`, multiplied by 1000 before the comparison)")]
    out = HEADER % "src/microhttpd/digestauth.c, internal.h" + "namespace Mhd.Gen.Nonce\n" \
        + "".join("/-- %s -/\ndef %s : Nat := %s\n" % (doc, n, val) for n, val, doc in rows) \
        + "end Mhd.Gen.Nonce\n"
    return vlib.write_if_changed(os.path.join(GEN, "Nonce.lean"), out)


def gen_noncegen():
    """constants of calculate_add_nonce_with_retry: which pseudo-random source the configured build
    uses for the back-jump of the second time stamp, and the two constants of that branch"""
    from extract import c_eval, src, HEADER, GEN
    v = c_eval('#include "MHD_config.h"\n#include "digestauth.c"\n'
               '#ifdef HAVE_RANDOM\n#define VERIF_RSRC 0\n#elif defined(HAVE_RAND)\n#define VERIF_RSRC 1\n'
               '#else\n#define VERIF_RSRC 2\n#endif\n',
               [("rsrc", "%d", "(int) VERIF_RSRC")],
               extra=["-ffunction-sections", "-fdata-sections", "-Wl,--gc-sections"])
    rsrc = int(v["rsrc"])
    text = src("src/microhttpd/digestauth.c")
    m = re.search(r"calculate_add_nonce_with_retry \(struct MHD_Connection.*?\n}\n", text, re.S)
    if not m:
        raise RuntimeError("calculate_add_nonce_with_retry not found")
    body = m.group(0)
    pats = [r"#ifdef HAVE_RANDOM\s+base1 = \(\(uint64_t\) random \(\)\) \^ UINT64_C \((0x[0-9a-fA-F]+)\);\s+base4 = (0x[0-9a-fA-F]+);",
            r"#elif defined\(HAVE_RAND\)\s+base1 = \(\(uint64_t\) rand \(\)\) \^ UINT64_C \((0x[0-9a-fA-F]+)\);\s+base4 = (0x[0-9a-fA-F]+);"]
    if rsrc > 1:
        raise RuntimeError("calculate_add_nonce_with_retry: this build has neither random() nor rand(): the back-jump "
                           "depends on a stack address, lean/Mhd/Model/NonceGen.lean (jumpBack) must be revised")
    mm = re.search(pats[rsrc], body)
    shape = [r"base2 = \(\(uint32_t\) \(base1 >> 32\)\) \^ \(\(uint32_t\) base1\);\s+"
             r"base2 = _MHD_ROTL32 \(base2, \(\(\(base4 >> 4\) \^ base4\) % 32\)\);\s+"
             r"base3 = \(\(uint16_t\) \(base2 >> 16\)\) \^ \(\(uint16_t\) base2\);\s+"
             r"base4 = \(\(uint8_t\) \(base3 >> 8\)\) \^ \(\(uint8_t\) base3\);\s+"
             r"/\* Use up to 127 ms difference \*/\s+"
             r"timestamp2 -= \(base4 & DAUTH_JUMPBACK_MAX\);\s+"
             r"if \(timestamp1 == timestamp2\)\s+timestamp2 -= (\d+);"]
    ms = re.search(shape[0], body)
    if not mm or not ms:
        raise RuntimeError("calculate_add_nonce_with_retry: the back-jump computation no longer has the shape "
                           "modelled in lean/Mhd/Model/NonceGen.lean (jumpBack / retryTime)")
    out = HEADER % "src/microhttpd/digestauth.c (calculate_add_nonce_with_retry), MHD_config.h" \
        + "namespace Mhd.Gen.NonceGen\n" \
        + "/-- pseudo-random source of the configured build: 0 = `random ()`, 1 = `rand ()` -/\n" \
        + "def retrySource : Nat := %d\n" % rsrc \
        + "/-- the constant xor-ed to the pseudo-random value (`base1`) -/\n" \
        + "def retryXor : Nat := %d\n" % int(mm.group(1), 16) \
        + "/-- the initial `base4` -/\ndef retryBase4 : Nat := %d\n" % int(mm.group(2), 16) \
        + "/-- the fallback difference when the jump is 0 (`timestamp2 -= 2`) -/\n" \
        + "def retryFallback : Nat := %d\n" % int(ms.group(1)) \
        + "end Mhd.Gen.NonceGen\n"
    return vlib.write_if_changed(os.path.join(GEN, "NonceGen.lean"), out)


# ------------------------------------------------------- independent oracle

def fsh(data):
    """fast_simple_hash, re-stated (the oracle must know which nonces share a slot)"""
    if not data:
        return 0
    h = data[0]
    for d in data[1:]:
        h = (((h << 7) | (h >> 25)) & 0xFFFFFFFF) ^ d
    return h


HEXD = b"0123456789abcdefABCDEF"
STD = {0: 44, 1: 76, 2: 76}
HASHES = {0: hashlib.md5, 1: hashlib.sha256, 2: lambda b=b"": hashlib.new("sha512_256", b)}
REUSE_MS = 30000
DEF_TIMEOUT, DEF_MAXNC = 90, 1000
GUARD = U32 - 1 - 64
# what harness/h_nonce.c sets up before any `daemon` / `rq` line
DEF_RND = b"verif-fixed-seed".hex()
DEF_ADDR = "020010927f0000010000000000000000"
DEF_RQ = (1, "GET", "2f", "none", DEF_ADDR)
RESTORE = [["daemon", 0, DEF_RND], ["rq", 1, "GET", "2f", "none", DEF_ADDR]]


def nonce_ts(n):
    """timestamp a presented nonce carries, or None if it has no valid one"""
    if len(n) not in (44, 76):
        return None
    tail = n[-12:]
    if any(c not in HEXD for c in tail):
        return None
    return int(tail.decode(), 16)


def response_for(algo, nonce, nctxt):
    H = HASHES[algo]
    ha1 = H(b"user:realm:pass").hexdigest().encode()
    ha2 = H(b"GET:/").hexdigest().encode()
    return H(ha1 + b":" + nonce + b":" + nctxt + b":cn:auth:" + ha2).hexdigest()


class Oracle:
    """The property over what the real code answered.  Per table slot: the nonce
    registered last, the time it was made for, the *set* of counts accepted since
    (no window representation here).  Rules:
      R1 a count of a registered nonce is accepted iff it is new, non-zero, below
         the guard and at most 64 behind the highest accepted one;
      R2 a nonce that is not the one registered last in its slot is never accepted
         (never issued, or evicted); R2c says whether that is reported stale or wrong;
      R3 registration: empty slot / used nonce / unused nonce older than 30 s gives
         way, the same nonce or a fresh unused one does not;
      R4 the public check adds: nc text must be 1..32 hex digits fitting 64 bits and
         non-zero, nc above max_nc is stale, malformed nonce is wrong, a nonce older
         than the timeout is stale;
      R5 an issued nonce has the documented format (hex, length, embedded time)."""

    def __init__(self, slot_hash=None):
        self.n = 0
        self.now = 0
        self.slots = {}
        # which slot a nonce lives in is taken from what the real fast_simple_hash said
        # (op `hash`), so that another hash function is not a property violation
        self.slot_hash = slot_hash or {}
        self.bind, self.rnd, self.req = 0, DEF_RND, DEF_RQ
        self.gen_full, self.gen_bound = {}, {}

    def idx(self, nonce):
        h = self.slot_hash.get(nonce)
        return (fsh(nonce) if h is None else h) % self.n

    def window(self, nonce, t, c):
        """expected answer of the nonce-nc map for (nonce, its time, count) + rule name"""
        if len(nonce) > 76:
            return "wrong", "too-long"
        if self.n == 0:
            return "stale", "no-table"
        if c >= GUARD:
            return "stale", "guard"
        cur = self.slots.get(self.idx(nonce))
        if cur is not None and cur["nonce"] == nonce:
            hi = max(cur["used"]) if cur["used"] else 0
            if c != 0 and c not in cur["used"] and c + 64 >= hi:
                cur["used"].add(c)
                return "ok", "fresh-count"
            return "stale", ("replay" if c in cur["used"] or c == 0 else "behind-window")
        if 0 in nonce:
            return None, "nul-in-nonce"      # outside the property's domain, see assumptions
        if cur is None:
            return "wrong", "empty-slot"
        if len(cur["nonce"]) > len(nonce):
            return "stale", "other-longer"
        if len(cur["nonce"]) < len(nonce):
            return "not-ok", "other-shorter"
        d = ((t - cur["ts"]) % U64) % U48
        if d <= REUSE_MS:
            return "stale", "other-recent"
        if d <= (U48 - 1) // 2:
            return "stale", "other-older"
        return "wrong", "other-newer"

    def policy(self, nonce, ts):
        """R3: may `nonce`, made for time `ts`, take its slot?  (expected answer, rule name)"""
        cur = self.slots.get(self.idx(nonce))
        if cur is None:
            return "added", "add-empty"
        if cur["nonce"][:len(nonce)] == nonce:
            return "refused", "add-same"
        if cur["used"]:
            return "added", "add-evict-used"
        if ((ts - cur["ts"]) % U64) % U48 > REUSE_MS:
            return "added", "add-evict-old"
        return "refused", "add-fresh-unused-kept"

    def bound_view(self, algo, ts, realm):
        """(everything the nonce may depend on, what the configured binding option *promises* it depends on)"""
        mthd, tok, url, args, addr = self.req
        ab = b"" if addr == "-" else bytes.fromhex(addr)
        ip = ab[4:8] if len(ab) == 16 else ab[8:24] if len(ab) == 28 else b""
        mclass = ("other", tok) if mthd == 1000 else ("std", 1 if mthd == 2 else mthd)      # HEAD counts as GET
        full = (algo, ts % U48, self.rnd, self.bind, mthd, tok, url, args, addr, realm)
        b = self.bind
        bound = (algo, ts % U48, self.rnd, self.bind,
                 (mclass, url) if b & 2 else None, args if b & 4 else None, realm if b & 1 else None, ip if b & 8 else None)
        return full, bound

    def gen_checks(self, nonce, algo, ts, realm):
        """R5 format + R6 binding: the same inputs give the same nonce; a different *bound* input a different one"""
        if len(nonce) != STD[algo] or any(c not in b"0123456789abcdef" for c in nonce) \
                or int(nonce[-12:].decode(), 16) != ts % U48:
            return "generated nonce does not have the documented format / embedded time"
        full, bound = self.bound_view(algo, ts, realm)
        if self.gen_full.setdefault(full, nonce) != nonce:
            return "nonce generation is not a function of its inputs"
        prev = self.gen_bound.get(nonce)
        if prev is not None and prev != bound and self.bind != 0:
            return "the same nonce for different bound inputs (bind=%d): %r / %r" % (self.bind, prev, bound)
        self.gen_bound.setdefault(nonce, bound)
        return None

    def feed(self, op, out):
        """returns (error or None, branch label)"""
        k = op[0]
        if k == "daemon":
            self.bind = int(op[1]) | (2 if int(op[1]) & 4 else 0)
            self.rnd = op[2]
            return (None if out == "ok" else "daemon refused"), "daemon"
        if k == "rq":
            self.req = (int(op[1]), op[2], op[3], op[4], op[5])
            return (None if out == "ok" else "rq refused"), "rq"
        if k == "gen":
            algo, ts, realm = int(op[1]), int(op[2]), op[3]
            w = out.split()
            if len(w) != 2 or w[0] not in ("added", "refused"):
                return "calculate_add_nonce: " + out, "gen-bad"
            nonce = bytes.fromhex(w[1])
            e = self.gen_checks(nonce, algo, ts, realm)
            if e:
                return e, "gen-format"
            tag = "gen/bind%d/" % self.bind
            if self.n == 0:
                return (None if w[0] == "refused" else "registered without a table"), tag + "add-no-table"
            exp, why = self.policy(nonce, ts)
            if w[0] == "added":
                self.slots[self.idx(nonce)] = {"nonce": nonce, "ts": ts, "used": set()}
            if w[0] != exp:
                return "registration policy: expected %s (%s), code says %s" % (exp, why, w[0]), tag + why
            return None, tag + why
        if k == "genr":
            algo, t2, realm = int(op[1]), int(op[2]), op[4]
            w = out.split()
            if len(w) != 2 or w[0] not in ("true", "false"):
                return "calculate_add_nonce_with_retry: " + out, "genr-bad"
            nonce = bytes.fromhex(w[1])
            if len(nonce) != STD[algo] or any(c not in b"0123456789abcdef" for c in nonce):
                return "generated nonce does not have the documented format", "genr-format"
            nts = int(nonce[-12:].decode(), 16)
            first = nts == self.now % U48
            if not first:
                back = (self.now - nts) % U48
                if not ((t2 != self.now and nts == t2 % U48) or (t2 == self.now and 1 <= back <= 127)):
                    return "second attempt: time stamp %d is neither the second clock value nor 1..127 ms back" % nts, "genr-ts"
            ts_full = self.now if first else (t2 if t2 != self.now else (self.now - ((self.now - nts) % U48)) % U64)
            e = self.gen_checks(nonce, algo, ts_full, realm)
            if e:
                return e, "genr-format"
            why = "genr/" + ("first" if first else "second") + "/" + w[0]
            if self.n == 0:
                return (None if (w[0] == "false" and first) else "no table, but answered " + out[:20]), why + "/no-table"
            exp, pw = self.policy(nonce, ts_full)
            if w[0] == "true":
                self.slots[self.idx(nonce)] = {"nonce": nonce, "ts": ts_full, "used": set()}
                if exp != "added":
                    return "retry registered a nonce whose slot was not available (%s)" % pw, why
                return None, why + "/" + pw
            # false: the first nonce is handed out unregistered; its slot was not available
            if not first:
                return "retry failed but did not hand out the first nonce", why
            if exp != "refused":
                return "retry answered false although the slot of the first nonce was available (%s)" % pw, why
            return None, why + "/" + pw
        if k == "table":
            self.n = int(op[1]); self.slots = {}
            return (None if out == "ok" else "table refused"), "table"
        if k == "clock":
            self.now = int(op[1])
            return (None if out == "ok" else "clock refused"), "clock"
        if k == "add":
            ts, algo, nonce = int(op[1]), int(op[2]), bytes.fromhex(op[4])
            if out not in ("added", "refused"):
                return "calculate_add_nonce: " + out, "add-bad"
            if len(nonce) != STD[algo] or any(c not in b"0123456789abcdef" for c in nonce) \
                    or int(nonce[-12:].decode(), 16) != ts % U48:
                return "issued nonce does not have the documented format / embedded time", "add-format"
            if self.n == 0:
                return (None if out == "refused" else "registered without a table"), "add-no-table"
            i = self.idx(nonce)
            cur = self.slots.get(i)
            if cur is None:
                exp, why = "added", "add-empty"
            elif cur["nonce"][:len(nonce)] == nonce:
                exp, why = "refused", "add-same"
            elif cur["used"]:
                exp, why = "added", "add-evict-used"
            elif ((ts - cur["ts"]) % U64) % U48 > REUSE_MS:
                exp, why = "added", "add-evict-old"
            else:
                exp, why = "refused", "add-fresh-unused-kept"
            if out == "added":
                self.slots[i] = {"nonce": nonce, "ts": ts, "used": set()}
            if out != exp:
                return "registration policy: expected %s (%s), code says %s" % (exp, why, out), why
            return None, why
        if k in ("check", "checkt", "auth"):
            if k == "check":
                nonce, c = bytes.fromhex(op[1]), int(op[2])
                t = nonce_ts(nonce)
                if t is None:
                    return (None if out == "wrong" else "malformed nonce answered " + out), "fmt-wrong"
                exp, why = self.window(nonce, t, c)
            elif k == "checkt":
                nonce, t, c = bytes.fromhex(op[1]), int(op[2]), int(op[3])
                exp, why = self.window(nonce, t, c)
            else:
                # the entry point's documented meaning of its arguments: every one takes the nonce
                # lifetime in seconds (0 = daemon default); only the *3 functions take a max_nc
                # (0 = daemon default), the legacy ones always use the daemon default
                api, algo, tmo, mx = op[1], int(op[2]), int(op[3]), int(op[4])
                nonce = b"" if op[5] == "-" else bytes.fromhex(op[5])
                txt = b"" if op[6] == "-" else op[6].encode()
                tmo = tmo or DEF_TIMEOUT
                mx = (mx or DEF_MAXNC) if api in ("c3", "d3") else DEF_MAXNC
                if len(txt) == 0 or len(txt) > 32:
                    exp, why = "hdr", "nc-len"
                elif len(nonce) == 0 or len(nonce) > 2 * STD[algo]:
                    exp, why = "wrong", "nonce-len"
                elif any(ch not in HEXD for ch in txt) or int(txt.decode(), 16) >= U64:
                    exp, why = "hdr", "nc-text"
                elif int(txt.decode(), 16) == 0:
                    exp, why = "hdr", "nc-zero"
                elif int(txt.decode(), 16) > mx:
                    exp, why = "stale", "above-max-nc"
                elif len(nonce) != STD[algo] or nonce_ts(nonce) is None:
                    exp, why = "wrong", "fmt-wrong"
                elif ((self.now - nonce_ts(nonce)) % U64) % U48 > (tmo * 1000) % U32:
                    exp, why = "stale", "expired"
                else:
                    exp, why = self.window(nonce, nonce_ts(nonce), int(txt.decode(), 16))
            if k == "auth":
                why = op[1] + "/" + why
                if op[1] not in ("c3", "d3"):
                    # legacy entry points answer MHD_YES / MHD_INVALID_NONCE / MHD_NO
                    if out not in ("yes", "invalid", "no"):
                        return "legacy entry point answered " + out, why
                    out = {"yes": "ok", "invalid": "invalid", "no": "hdr"}[out]
                    if exp in ("stale", "wrong", "not-ok"):
                        exp = "invalid"
            if exp is None:
                # outside the property's domain (NUL byte in the presented nonce): not judged, but
                # if the code accepted it the count is gone from that slot's window
                if out == "ok" and self.n:
                    cur = self.slots.get(self.idx(nonce))
                    if cur is not None:
                        cur["used"].add(int(op[2]) if k == "check" else int(op[3]) if k == "checkt"
                                        else int(op[6], 16))
                return None, why
            if exp == "not-ok":
                return (None if out in ("stale", "wrong") else "non-registered nonce answered " + out), why
            if out != exp:
                if out == "ok":
                    return "ACCEPTED but must be %s (%s)" % (exp, why), why
                if exp == "ok":
                    return "REFUSED (%s) a fresh count inside the window" % out, why
                return "expected %s (%s), code says %s" % (exp, why, out), why
            return None, why
        if k == "hash":
            d = b"" if op[1] == "-" else bytes.fromhex(op[1])
            return (None if re.match(r"hash \d+$", out) else "hash: " + out), "hash"
        if k in ("ts", "tsz"):
            d = b"" if op[1] == "-" else bytes.fromhex(op[1])
            if k == "tsz":
                d = d.split(b"\0")[0]
            t = nonce_ts(d)
            exp = "invalid" if t is None else "ts %d" % t
            return (None if out == exp else "timestamp: expected %s got %s" % (exp, out)), k
        if k == "state":
            # only a consistency statement: counts accepted are recorded
            m = re.match(r"n=(\d+)", out)
            if not m or int(m.group(1)) != self.n:
                return "state: table size", "state"
            return None, "state"
        return None, "other"


# ------------------------------------------------------------- generators
# A symbolic nonce is ("N", ts, algo, salthex); scripts are resolved by asking
# the real code (op `mknonce`) which nonce it makes for it.

def sym(ts, algo, salt):
    return ("N", ts % U64, algo, salt)


class Resolver:
    def __init__(self, harness):
        self.h = harness
        self.cache = {}

    def resolve(self, syms):
        syms = list(syms)
        gtodo = sorted({s for s in syms if s[0] == "G" and s not in self.cache}, key=repr)
        if gtodo:
            # ("G", bind, rnd, rq-tuple, algo, ts, realm): the nonce the real calculate_add_nonce makes under that
            # configuration for that request (no table: it returns right after calculate_nonce)
            lines = ["table 0"]
            for g in gtodo:
                lines += ["daemon %d %s" % (g[1], g[2]), "rq " + " ".join(str(x) for x in g[3]),
                          "gen %d %d %s" % (g[4], g[5], g[6])]
            out, rc, err = vlib.run_lines(self.h, lines)
            if rc != 0 or len(out) != len(lines):
                raise vlib.BuildError("gen pre-query failed rc=%s: %s" % (rc, err[-800:]))
            for i, g in enumerate(gtodo):
                o = out[3 + 3 * i]
                if not o.startswith("refused "):
                    raise vlib.BuildError("gen pre-query: " + o)
                self.cache[g] = o.split()[1]
        todo = sorted({s for s in syms if s[0] == "N" and s not in self.cache})
        if todo:
            out, rc, err = vlib.run_lines(self.h, ["table 0"] + ["mknonce %d %d %s" % (s[1], s[2], s[3]) for s in todo])
            if rc != 0 or len(out) != len(todo) + 1:
                raise vlib.BuildError("mknonce pre-query failed rc=%s: %s" % (rc, err[-800:]))
            for s, o in zip(todo, out[1:]):
                if not o.startswith("nonce "):
                    raise vlib.BuildError("mknonce: " + o)
                self.cache[s] = o.split()[1]

    def hexof(self, s):
        return self.cache[s]

    def real_hash(self, hexes):
        out, rc, err = vlib.run_lines(self.h, ["hash " + x for x in hexes])
        if rc != 0 or len(out) != len(hexes) or not all(o.startswith("hash ") for o in out):
            raise vlib.BuildError("hash pre-query failed: " + err[-500:])
        return [int(o.split()[1]) for o in out]


def subst(seq, rs):
    """replace symbolic nonces in a planned sequence; `auth` gets its response computed"""
    out = []
    for op in seq:
        o = []
        for w in op:
            if isinstance(w, tuple) and w[0] in ("N", "G"):
                o.append(rs.hexof(w))
            elif isinstance(w, tuple) and w[0] == "M":      # mutated nonce: ("M", sym, fn)
                o.append(w[2](bytes.fromhex(rs.hexof(w[1]))).hex() or "-")
            elif isinstance(w, tuple) and w[0] == "F":      # built from several: ("F", fn, sym...)
                o.append(w[1](*[bytes.fromhex(rs.hexof(x)) for x in w[2:]]).hex() or "-")
            else:
                o.append(str(w))
        if o[0] == "auth" and o[7] == "?":
            nb = b"" if o[5] == "-" else bytes.fromhex(o[5])
            o[7] = response_for(int(o[2]), nb, b"" if o[6] == "-" else o[6].encode())
        out.append(o)
    return out


def syms_of(seq):
    for op in seq:
        for w in op:
            if isinstance(w, tuple) and w[0] in ("N", "G"):
                yield w
            elif isinstance(w, tuple) and w[0] == "M":
                yield w[1]
            elif isinstance(w, tuple) and w[0] == "F":
                for x in w[2:]:
                    yield x


def add_op(s):
    return ["add", s[1], s[2], s[3], s]


EXH_COUNTS = [1, 2, 3, 63, 64, 65, 66, 129, GUARD - 1, GUARD]


def exh_alphabet(A, B, C):
    al = [add_op(A), add_op(B), add_op(C)]
    for n in (A, B):
        for c in EXH_COUNTS:
            al.append(["check", n, c])
    return al


def exh_sequence(al, size, idx, k, first):
    ops = [["table", size], ["clock", 1000]] + ([al[first]] if first is not None else [])
    for _ in range(k):
        ops.append(al[idx % len(al)])
        idx //= len(al)
    ops.append(["state"])
    return ops


def mut_flip(i):
    def f(b):
        j = i % len(b)
        return b[:j] + bytes([b[j] ^ 1]) + b[j + 1:]
    return f


def mut_upper_ts(b):
    return b[:-12] + b[-12:].upper()


def mut_trunc(k):
    return lambda b: b[:max(1, len(b) - k)]


def mut_extend(k):
    return lambda b: b + b"0" * k


def mut_nonhex_ts(i):
    def f(b):
        j = len(b) - 1 - (i % 12)
        return b[:j] + b"g" + b[j + 1:]
    return f


def gen_random_seq(rng):
    size = rng.choice([0, 1, 1, 2, 2, 3, 4])
    base = rng.choice([1000, 1000, 5000000, U48 - 20000, U48 + 7, U64 - 40000, 3 * U48 - 100])
    now = base
    ops = [["table", size], ["clock", now]]
    nonces = []          # symbolic, with a private guess of the counts used (to aim, not to judge)
    hi = {}
    nsalt = 0
    for _ in range(rng.randint(8, 40)):
        r = rng.random()
        if r < 0.16 or not nonces:
            algo = rng.choice([0, 0, 1, 2])
            ts = (now - rng.choice([0, 0, 0, 1, 2, 127])) % U64
            s = sym(ts, algo, "%02x" % (nsalt % 200))
            nsalt += rng.choice([0, 1, 1])
            ops.append(add_op(s))
            nonces.append(s)
            hi.setdefault(s, 0)
        elif r < 0.30:
            now = (now + rng.choice([1, 5, 500, 4000, 5000, 5001, 6000, 29999, 30000, 30001, 60000, 89999, 90000, 90001, 200000,
                                      U48 - 5, U48 // 2, U48 // 2 + 30000])) % U64
            ops.append(["clock", now])
        elif r < 0.80:
            s = rng.choice(nonces[-4:])
            h = hi[s]
            c = rng.choice([h + 1, h + 1, h + 1, h + 2, h + 63, h + 64, h + 65, h + 66, h + 200, max(h - 1, 0),
                            max(h - 63, 0), max(h - 64, 0), max(h - 65, 0), h, 0, 1, rng.randint(0, 140),
                            GUARD - 1, GUARD, GUARD - 66, U32 - 1, U32, U32 + 1, U64 - 1])
            kind = rng.random()
            if kind < 0.55:
                ops.append(["check", s, c])
            elif kind < 0.65:
                ops.append(["checkt", s, rng.choice([s[1] % U48, now % U48, (s[1] + 40000) % U48, 0, U64 - 1]), c])
            else:
                mx = rng.choice([0, 0, 5, 70, 1000, U32 - 1])
                txt = rng.choice(["%08x" % (c % U32), "%x" % c, ("%x" % c).upper(), "%032x" % c])
                api = rng.choice(apis_for(s[2]))
                tmo = rng.choice([0, 0, 1, 5, 5, 30, 90, 300, 4294967, 4294968, U32 - 1])
                ops.append(["auth", api, s[2], tmo, mx if api in ("c3", "d3") else 0, s, txt, "?"])
            if c < GUARD:
                hi[s] = max(h, c)
        elif r < 0.92:
            s = rng.choice(nonces)
            mut = rng.choice([mut_flip(rng.randint(0, 80)), mut_upper_ts, mut_trunc(rng.choice([1, 12, 32, 40])),
                              mut_extend(rng.choice([1, 32, 33, 80, 200])), mut_nonhex_ts(rng.randint(0, 11))])
            c = rng.choice([1, 2, hi[s] + 1])
            if rng.random() < 0.5:
                ops.append(["check", ("M", s, mut), c])
            else:
                al = rng.choice([s[2], s[2], (s[2] + 1) % 3])
                ops.append(["auth", rng.choice(apis_for(al)), al, 0, 0, ("M", s, mut), "%08x" % c, "?"])
        else:
            s = rng.choice(nonces)
            bad = rng.choice(["-", "g", "0x1", "1 ".strip() + "z", "0" * 33, "1" + "0" * 16, "f" * 16, "f" * 17,
                              "00000000", "0"])
            api = rng.choice(apis_for(s[2]))
            ops.append(["auth", api, s[2], 0, rng.choice([0, U32 - 1]) if api in ("c3", "d3") else 0, s, bad, "?"])
        if rng.random() < 0.08:
            ops.append(["state"])
    ops.append(["state"])
    return ops


API_ALL = ["c3", "d3", "c2", "c1", "dg2", "dg1"]


def apis_for(algo):
    """entry points usable with a client algorithm (see apiAllowed in the driver / harness)"""
    return {0: API_ALL, 1: ["c3", "d3", "c2", "dg2"], 2: ["c3", "d3", "c2"]}[algo]


def gen_lifetime(rng):
    """every public entry point with a requested lifetime different from the daemon default and a
    max_nc different from the lifetime: the clock crosses the requested lifetime but not the
    default (and vice versa), and counts go above the lifetime value"""
    algo = rng.choice([0, 0, 1, 2])
    api = rng.choice(apis_for(algo))
    tmo = rng.choice([1, 2, 5, 5, 7, 20, 200])        # seconds; default is 90
    mx = rng.choice([0, 3, 9, 50, 2000]) if api in ("c3", "d3") else 0
    t0 = rng.choice([1000, 123456789, U48 - 3000])
    size = rng.choice([1, 2, 4])
    N = sym(t0, algo, "%02x" % rng.randint(0, 60))
    ops = [["table", size], ["clock", t0], add_op(N)]
    nc = 0
    for dt in [0, tmo * 1000 - 1000, tmo * 1000, tmo * 1000 + 1, tmo * 1000 + 1000, 89000, 90000, 90001]:
        if dt < 0:
            continue
        nc += rng.choice([1, 1, 2])
        ops.append(["clock", (t0 + dt) % U64])
        ops.append(["auth", api, algo, tmo, mx, N, "%08x" % nc, "?"])
    t1 = (t0 + 100000) % U64
    M = sym(t1, algo, "%02x" % rng.randint(0, 60))
    ops += [["clock", t1], add_op(M)]
    for c in sorted({1, tmo, tmo + 1, tmo + 15, 20, mx or 1, (mx or 1) + 1, 64, 999, 1000, 1001} - {0}):
        ops.append(["auth", api, algo, tmo, mx, M, "%x" % c, "?"])
    ops.append(["state"])
    return ops


def gen_directed(rng):
    """left-over bytes behind a short nonce in a slot that held a long one: presented
    nonces that continue into the left-over (with and without the NUL), re-registration,
    and the two orders of eviction"""
    size = rng.choice([1, 1, 2])
    t0 = rng.choice([1000, 777777, U48 - 10])
    L = sym(t0, rng.choice([1, 2]), "%02x" % rng.randint(0, 40))           # 76 chars
    S = sym((t0 + rng.choice([1, 40000, 100000])) % U64, 0, "%02x" % rng.randint(0, 40))   # 44 chars
    alias0 = ("F", lambda s, l: s + b"\0" + l[45:], S, L)
    aliasx = ("F", lambda s, l: s + b"x" + l[45:], S, L)
    alias1 = ("F", lambda s, l: s + b"\0" + l[45:75] + b"0", S, L)
    ops = [["table", size], ["clock", t0], add_op(L), ["check", L, 1], ["check", L, 2], ["clock", S[1]],
           add_op(S), ["state"], ["check", S, 1]]
    tail = [["check", alias0, 2], ["check", aliasx, 2], ["check", alias1, 2], ["check", L, 3], ["check", S, 2],
            ["auth", "c3", 1, 0, 0, alias0, "00000003", "?"], ["auth", "d3", 1, 0, 0, aliasx, "00000003", "?"],
            ["auth", "c2", 1, 0, 0, L, "00000004", "?"], ["checkt", alias0, 5, 4], add_op(S), add_op(L), ["check", L, 1],
            ["check", S, 5], ["check", ("M", L, mut_trunc(32)), 1], ["check", ("M", S, mut_extend(32)), 1]]
    rng.shuffle(tail)
    return ops + tail + [["state"]]


BINDS = [0, 1, 2, 4, 6, 8, 3, 9, 10, 12, 15]
GEN_METHODS = [(1, "GET"), (2, "HEAD"), (3, "POST"), (4, "PUT"), (1000, "PATCH"), (1000, "M-SEARCH")]


def rnd_sockaddr(rng):
    k = rng.random()
    if k < 0.15:
        return "-"
    port = rng.choice([80, 4242, 65535])
    if k < 0.65:
        return "0200%04x%s%s" % (port, bytes(rng.choice([[127, 0, 0, 1], [10, 0, 0, 2], [192, 168, 1, 9]])).hex(), "00" * 8)
    ip6 = bytes([0x20, 0x01, 0x0d, 0xb8] + [0] * 11 + [rng.choice([1, 2])])
    return "0a00%04x%s%s%s" % (port, "00000000", ip6.hex(), "00000000")


def rnd_argspec(rng):
    n = rng.choice([0, 0, 1, 2, 3])
    if n == 0:
        return "none"
    hx_ = lambda b: b.hex() or "-"
    parts = []
    for _ in range(n):
        k = bytes(rng.choice(b"abk\0=&") for _ in range(rng.choice([0, 1, 2])))
        if rng.random() < 0.3:
            parts.append(hx_(k))
        else:
            parts.append(hx_(k) + "=" + hx_(bytes(rng.choice(b"vw\0 %") for _ in range(rng.choice([0, 1, 3])))))
    return ",".join(parts)


def gen_generation(rng):
    """nonce *generation* by the real calculate_add_nonce / calculate_add_nonce_with_retry on a scripted daemon
    configuration (binding option, random seed) and request (method, url, GET arguments, client address), compared
    byte for byte with the model's derivation (C16 hash specification composed); the generated nonce is then
    presented (accepted), one input at a time is changed and the nonce generated again (oracle: equal iff no bound
    input changed ... see Oracle.gen_checks), retry with / without a clock step and scripted random()"""
    size = rng.choice([0, 1, 2, 2, 4])
    t0 = rng.choice([1000, 5000000, U48 - 50, U48 + 77, U64 - 90, 77])
    bind = rng.choice(BINDS)
    rndhex = rng.choice(["-", "00", "7365", bytes(rng.randrange(256) for _ in range(rng.choice([1, 8, 32, 70]))).hex()])
    algo = rng.choice([0, 1, 2])
    realm = rng.choice(["72", "7265616c6d", "-", "723a78", "c3a4"])
    m = rng.choice(GEN_METHODS)
    url = rng.choice(["2f", "2f61", "2f612f62", bytes(rng.choice(b"/ab:%c3") for _ in range(rng.choice([1, 5, 60, 200]))).hex()])
    rq = [m[0], m[1], url, rnd_argspec(rng), rnd_sockaddr(rng)]
    eb = bind | (2 if bind & 4 else 0)
    ops = [["table", size], ["clock", t0], ["daemon", bind, rndhex], ["rq"] + rq, ["gen", algo, t0, realm]]
    G = ("G", bind, rndhex, tuple(rq), algo, t0, realm)
    if size:
        ops += [["check", G, 1], ["check", G, 1], ["check", G, 3], ["gen", algo, t0, realm]]
    # one input at a time changed, same time stamp
    variants = []
    for _ in range(rng.randint(3, 7)):
        r2 = list(rq)
        realm2 = realm
        what = rng.choice(["url", "args", "addr", "method", "realm", "same", "algo"])
        if what == "url":
            r2[2] = rq[2] + "62"
        elif what == "args":
            r2[3] = "6b=76" if rq[3] != "6b=76" else "6b=77"
        elif what == "addr":
            r2[4] = rnd_sockaddr(rng)
        elif what == "method":
            m2 = rng.choice(GEN_METHODS)
            r2[0], r2[1] = m2
        elif what == "realm":
            realm2 = realm + "78" if realm != "-" else "78"
        a2 = (algo + 1) % 3 if what == "algo" else algo
        variants += [["rq"] + r2, ["gen", a2, t0, realm2]]
        G2 = ("G", bind, rndhex, tuple(r2), a2, t0, realm2)
        if size and rng.random() < 0.5:
            variants.append(["check", G2, rng.choice([1, 2])])
    ops += variants
    # the retry: registered nonce in the way / not, clock moved / not, several random() values
    ops += [["rq"] + rq, ["table", size], ["clock", t0]]
    for _ in range(rng.randint(2, 5)):
        t2 = rng.choice([t0, t0, (t0 + 1) % U64, (t0 + 130) % U64])
        ops.append(["genr", algo, t2, rng.choice([0, 1, 12345, 0x7fffffff, rng.randrange(1 << 31)]), realm if realm != "-" else "72"])
        if rng.random() < 0.3:
            ops.append(["gen", algo, t0, realm if realm != "-" else "72"])
    ops.append(["state"])
    return ops + [list(x) for x in RESTORE]


def gen_pure(rng, count):
    """pure-function probes: fast_simple_hash and get_nonce_timestamp"""
    ops = [["hash", "-"]] + [["hash", "%02x" % b] for b in range(256)]
    for _ in range(count):
        n = rng.choice([1, 2, 3, 4, 5, 8, 33, 44, 76, 77, 100])
        ops.append(["hash", bytes(rng.randrange(256) for _ in range(n)).hex()])
    for _ in range(count):
        ln = rng.choice([1, 12, 43, 44, 44, 44, 45, 75, 76, 76, 76, 77])
        body = bytearray(rng.choice(b"0123456789abcdefABCDEF") for _ in range(ln))
        if rng.random() < 0.5:
            body[rng.randrange(ln)] = rng.choice(b"gG/:@`x \x00\xff")
        if rng.random() < 0.2 and ln >= 12:
            body[ln - 1 - rng.randrange(12)] = rng.choice(b"gG/:@`")
        ops.append([rng.choice(["ts", "tsz"]), bytes(body).hex()])
    return ops


# ------------------------------------------------------------------ running

def run_batch(harness, driver, seqs, engine="nonce"):
    """seqs: resolved sequences (lists of word lists).  returns (failures, stats)"""
    failures, stats = [], {}
    lines = [" ".join(o) for s in seqs for o in s]
    nonces = sorted({o[{"add": 4, "check": 1, "checkt": 1, "auth": 5}[o[0]]] for s in seqs for o in s
                     if o[0] in ("add", "check", "checkt", "auth")})
    pre = [["hash", x] for x in nonces]
    seqs = ([pre] if pre else []) + list(seqs)
    lines = [" ".join(o) for o in pre] + lines
    hout, hrc, herr = vlib.run_lines(harness, lines)
    mout, mrc, merr = vlib.run_lines(driver, lines)
    slot_hash = {}
    if hrc == 0 and len(hout) >= len(pre):
        for x, o in zip(nonces, hout):
            if o.startswith("hash "):
                slot_hash[b"" if x == "-" else bytes.fromhex(x)] = int(o.split()[1])
    if hrc != 0:
        pos, k = len(hout), 0
        for s in seqs:
            if k + len(s) > pos:
                # re-run that sequence alone to confirm and to get a clean report
                o2, rc2, e2 = vlib.run_lines(harness, [" ".join(o) for o in s])
                failures.append(vlib.Failure("sanitizer", "nonce: harness aborted (sanitizer / crash)",
                                             (e2 if rc2 != 0 else herr)[-1500:], [" ".join(o) for o in s], engine))
                break
            k += len(s)
        return failures, stats
    if mrc != 0 or len(mout) != len(lines):
        failures.append(vlib.Failure("model", "nonce: model driver failed", (merr or "")[-500:], lines[:50], engine))
        return failures, stats
    k = 0
    for s in seqs:
        orc = Oracle(slot_hash)
        bad = None
        for j, o in enumerate(s):
            h, m = hout[k + j], mout[k + j]
            try:
                e, why = orc.feed(o, h)
            except (IndexError, KeyError, ValueError) as ex:
                e, why = "oracle cannot follow: %s -> %s (%r)" % (" ".join(o), h, ex), "oracle-error"
            key = o[0] + ":" + why + ":" + h.split()[0]
            stats[key] = stats.get(key, 0) + 1
            if e:
                bad = ("oracle", e, j)
                break
            if h != m:
                bad = ("diff", "op `%s`: code says '%s', model says '%s'" % (" ".join(o)[:200], h[:200], m[:200]), j)
                break
        if bad:
            kind, det, j = bad
            if kind == "oracle":
                sig = "nonce: " + re.sub(r"\d+", "N", det)[:120]
            else:
                sig = "nonce: model/code differ on " + s[j][0]
            failures.append(vlib.Failure(kind, sig, det, [" ".join(o) for o in s[:j + 1]], engine))
        k += len(s)
    return failures, stats


def merge_stats(a, b):
    for k, v in b.items():
        a[k] = a.get(k, 0) + v


def _worker(job):
    """one shard, run in a forked process.  job = (kind, harness, driver, args)"""
    kind, harness, driver, args = job
    rs = Resolver(harness)
    if kind == "exh":
        size, k, first, lo, hi_, triple = args
        rs.resolve(triple)
        al = exh_alphabet(*triple)
        planned = [exh_sequence(al, size, i, k, first) for i in range(lo, hi_)]
    elif kind == "rnd":
        seed, count = args
        rng = random.Random(seed)
        planned = [gen_random_seq(rng) for _ in range(count)] + [gen_directed(rng) for _ in range(max(4, count // 20))] \
            + [gen_lifetime(rng) for _ in range(max(12, count // 8))] \
            + [gen_generation(rng) for _ in range(max(20, count // 4))]
        rs.resolve([x for s in planned for x in syms_of(s)])
    else:
        seed, count = args
        rng = random.Random(seed)
        planned = [gen_pure(rng, count)]
    seqs = [subst(s, rs) for s in planned]
    fl, st = [], {}
    B = 4000
    for i in range(0, len(seqs), B):
        f, s = run_batch(harness, driver, seqs[i:i + B])
        fl += f
        merge_stats(st, s)
        if len(fl) > 10:
            break
    return ([(f.kind, f.signature, f.detail, f.input, f.engine) for f in fl[:10]], st, len(seqs),
            sum(len(s) for s in seqs), [" ".join(o) for o in seqs[len(seqs) // 2]] if seqs else [])


def pick_triple(rs, size):
    """A (44 chars, t=1000), B (44 chars, t=1005: fresh while A is unused), C (76 chars,
    t=31001: A's reuse timeout is over).  With 2 slots: B in the other slot, C in A's."""
    cands = lambda ts, algo: [sym(ts, algo, "%02x" % i) for i in range(24)]
    ca, cb, cc = cands(1000, 0), cands(1005, 0), cands(31001, 1)
    rs.resolve(ca + cb + cc)
    allc = ca + cb + cc
    hv = dict(zip(allc, rs.real_hash([rs.hexof(s) for s in allc])))
    ix = lambda s: hv[s] % max(size, 1)
    A = ca[0]
    B = next((s for s in cb if size < 2 or ix(s) != ix(A)), cb[0])
    C = next((s for s in cc if ix(s) == ix(A)), cc[0])
    return (A, B, C)


class Spec:
    props_module = "Mhd.Props.C13"
    lean_targets = ["Mhd.Props.C13", "drv_nonce"]
    required_theorems = ["Mhd.C13.window_refines", "Mhd.C13.window_exact", "Mhd.C13.run_refines",
                         "Mhd.C13.at_most_once", "Mhd.C13.at_most_once_single", "Mhd.C13.never_issued",
                         "Mhd.C13.accepted_counts_bounded", "Mhd.C13.ok_only_if_registered_last",
                         "Mhd.C13.window_complete", "Mhd.C13.window_complete_present",
                         "Mhd.C13.expired_is_stale", "Mhd.C13.above_max_nc_is_stale",
                         "Mhd.C13.evicted_classification", "Mhd.C13.never_registered_slot_is_wrong",
                         "Mhd.C13.registration_policy", "Mhd.C13.issued_nonce_timestamp", "Mhd.C13.no_fault",
                         "Mhd.C13.api_is_present", "Mhd.C13.api_args", "Mhd.C13.expired_is_stale_api",
                         "Mhd.C13.above_max_nc_is_stale_api", "Mhd.C13.window_complete_api",
                         "Mhd.C13.generated_nonce_wellformed", "Mhd.C13.generated_nonce_passes_format_checks",
                         "Mhd.C13.generated_nonce_expires", "Mhd.C13.generation_is_run_step",
                         "Mhd.C13.generated_then_verified", "Mhd.C13.generated_then_verified_later",
                         "Mhd.C13.generated_then_expired", "Mhd.C13.bound_same_inputs_accepted",
                         "Mhd.C13.bound_inputs_differ_rejected", "Mhd.C13.bound_uri_rejected",
                         "Mhd.C13.bound_uri_params_rejected", "Mhd.C13.bound_realm_rejected",
                         "Mhd.C13.bound_client_ip_rejected", "Mhd.C13.unbound_not_rechecked",
                         "Mhd.C13.nonce_length_matches_algorithm", "Mhd.C13.retry_timestamp_differs",
                         "Mhd.C13.retry_outcome", "Mhd.C13.nonce_table_accessed_only_under_lock"]
    trusted_base = ["Lean 4 kernel", "axioms: propext, Classical.choice, Quot.sound at most (audited per theorem)",
                    "hand-written models lean/Mhd/Model/Nonce.lean, NonceGen.lean and calcNonce / nonceInput of "
                    "lean/Mhd/Model/Dauth.lean, tied to digestauth.c by this run's correspondence (generated nonces are "
                    "compared byte for byte)",
                    "the hash specifications lean/Mhd/Model/Hash/Spec*.lean (C16 proves the C implementation computes them)",
                    "tools/props/C13.py gen_nonce (REUSE_TIMEOUT, nonce lengths, field widths, nc guard regenerated), "
                    "gen_noncegen (retry constants, shape of the back-jump computation)",
                    "tools/locktable.py (clang AST -> lean/Mhd/Gen/Locks.lean: accesses to struct MHD_NonceNc members with "
                    "the mutexes held on all paths; its fixpoints are re-checked in Lean by contextOk) and that a pthread "
                    "mutex provides mutual exclusion",
                    "harness/h_nonce.c (fabricated daemon/connection, virtual clock), gcc, ASan/UBSan",
                    "the set-based reference oracle in tools/props/C13.py"]
    assumptions = ["presentations are serialised by nnc_lock (the model step is the critical section): theorem "
                   "nonce_table_accessed_only_under_lock over the regenerated lock table; dynamic validation of the locking "
                   "(TSan) is C18's",
                   "where a statement needs two hash values to differ (bound_*_rejected) that is an explicit hypothesis about "
                   "the two concrete inputs; no cryptographic claim",
                   "a presented nonce contains no NUL byte (HTTP field values cannot; the harness can, and such "
                   "inputs are compared model-vs-code but not judged by the oracle)",
                   "the pseudo-random source of calculate_add_nonce_with_retry is random() / rand() (regenerated; the "
                   "stack-address fallback of builds without both is refused by the generator)",
                   "the Authorization header parser is bypassed in the `auth` op (C14)"]

    def gen(self, ctx):
        gen_nonce()
        gen_noncegen()
        import locktable
        world, info, data = locktable.generate()
        # the two critical sections end on every path: nnc_lock is not held (not even possibly) when they return
        self.lock_info = {"functions": info.get("functions"), "events": info.get("events"), "table_changed": info.get("changed")}
        for fn in ("check_nonce_nc", "calculate_add_nonce"):
            sm = world.summary(fn)
            held = sorted(set(sm.exitMay) | set(sm.exitMust)) if sm is not None else ["<no summary>"]
            self.lock_info[fn + "_exit_may_hold"] = held
            if held:
                raise vlib.BuildError("%s may return with %s held" % (fn, held))

    def build(self, ctx):
        objs = vlib.cc_lib_objects("lib_nonce", exclude=["digestauth.c", "mhd_mono_clock.c"])
        self.harness = vlib.cc("h_nonce", [os.path.join(vlib.VERIF, "harness/h_nonce.c")], objs=objs,
                               libs=["-lgnutls", "-lpthread"])
        self.driver = vlib.driver_path("drv_nonce")

    def explore(self, ctx, boost):
        thorough = ctx.tier == "thorough"
        failures, stats = [], {}
        rs = Resolver(self.harness)
        # corpus first
        cdir = os.path.join(vlib.VERIF, "corpus", "nonce")
        corpus = []
        if os.path.isdir(cdir):
            for f in sorted(os.listdir(cdir)):
                corpus.append([l.split() for l in open(os.path.join(cdir, f)).read().splitlines()
                               if l.strip() and not l.startswith("#")])
        if corpus:
            # `@N:<ts>:<algo>:<salt>` = the nonce the real code makes for that (so that the corpus
            # survives a change of the nonce derivation)
            def tok(w):
                if w.startswith("@N:"):
                    a = w.split(":")
                    return sym(int(a[1]), int(a[2]), a[3])
                return w
            planned = [[[tok(w) for w in op] for op in seq] for seq in corpus]
            rs.resolve([x for sq in planned for x in syms_of(sq)])
            corpus = [subst(sq, rs) for sq in planned]
            f, s = run_batch(self.harness, self.driver, corpus)
            failures += f
            merge_stats(stats, s)
        jobs = []
        # bounded-exhaustive: all sequences of k operations after `add A`, plus all
        # sequences of k operations from the empty table
        NAL = 3 + 2 * len(EXH_COUNTS)
        k_after = 5 if thorough else 4          # total length 6 / 5
        k_free = 4 if thorough else 3
        exh_total = 0
        for size in (1, 2):
            tr = pick_triple(rs, size)
            for (k, first) in ((k_after, 0), (k_free, None)):
                tot = NAL ** k
                exh_total += tot
                shard = max(20000, tot // (4 * vlib.NCPU) + 1)
                for lo in range(0, tot, shard):
                    jobs.append(("exh", self.harness, self.driver, (size, k, first, lo, min(tot, lo + shard), tr)))
        nrand = (100000 if thorough else 10000) * (3 if boost else 1)
        per = max(250, nrand // (4 * vlib.NCPU))
        nrj = (nrand + per - 1) // per
        for _ in range(nrj):
            jobs.append(("rnd", self.harness, self.driver, (ctx.rng.getrandbits(48), per)))
        jobs.append(("pure", self.harness, self.driver, (ctx.rng.getrandbits(48), 20000 if thorough else 3000)))
        evals = lines = 0
        samples = []
        with multiprocessing.get_context("fork").Pool(vlib.NCPU) as pool:
            for (fl, st, nseq, nlines, sample) in pool.imap(_worker, jobs, chunksize=1):
                failures += [vlib.Failure(*f) for f in fl]
                merge_stats(stats, st)
                evals += nseq
                lines += nlines
                if sample and len(samples) < 3 and (not samples or len(sample) != len(samples[-1])):
                    samples.append(sample[:12])
        ok_like = sum(v for k, v in stats.items() if (k.endswith(":ok") or k.endswith(":yes"))
                      and k.split(":")[0] in ("check", "checkt", "auth"))
        cov = {"evaluations": evals + len(corpus), "operations": lines,
               "distinct_nontrivial": len(stats),
               "rule": "sequences run on the real code and the Lean model, compared line by line, each judged by the "
                       "set-based oracle; distinct_nontrivial = number of distinct (operation, oracle rule that "
                       "decided it, answer of the code) triples that occurred (listed in `branches`); "
                       "bounded-exhaustive: on 1- and 2-slot tables all sequences of %d operations after `add A` "
                       "and all sequences of %d operations from the empty table over a %d-operation alphabet "
                       "(add A/B/C, check A/B with counts %s); random: %d sequences of 8..40 operations, table "
                       "sizes 0..4, clock steps across REUSE_TIMEOUT, the nonce lifetime and the 48/64-bit wrap"
                       % (k_after, k_free, NAL, EXH_COUNTS, nrj * per),
               "samples": samples, "branches": dict(sorted(stats.items())),
               "accepted_presentations": ok_like,
               "exhaustive_sequences": exh_total, "random_sequences": nrj * per, "corpus": len(corpus),
               "generation": {"sequences": nrj * max(20, per // 4),
                              "gen_ops (calculate_add_nonce, nonce bytes model = code)": sum(v for k, v in stats.items() if k.startswith("gen:")),
                              "genr_ops (calculate_add_nonce_with_retry)": sum(v for k, v in stats.items() if k.startswith("genr:")),
                              "by_bind_option": {b: sum(v for k, v in stats.items() if k.startswith("gen:gen/bind%d/" % b))
                                                 for b in sorted({x | (2 if x & 4 else 0) for x in BINDS})},
                              "retry_second_attempt_used": sum(v for k, v in stats.items() if k.startswith("genr:genr/second")),
                              "algorithms": "MD5, SHA-256, SHA-512/256 (uniform)"},
               "lock_table": getattr(self, "lock_info", None),
               "correspondence": {"check_nonce_nc": "bounded-exhaustive (see rule) + random",
                                  "calculate_add_nonce/is_slot_available": "bounded-exhaustive + random",
                                  "calculate_nonce (all binding options x 3 algorithms x methods / urls / GET arguments / "
                                  "IPv4, IPv6, no address / seeds / realms), calculate_add_nonce_with_retry (scripted clock "
                                  "and random())": "random (gen / genr ops), nonce bytes compared model vs code",
                                  "get_nonce_timestamp": "random %d strings (+ every call above)" % (20000 if thorough else 3000),
                                  "fast_simple_hash": "exhaustive for lengths 0 and 1, random for longer",
                                  "digest_auth_check_all(_inner) vetting sequence": "random (auth op)",
                                  "public entry points MHD_digest_auth_check3/_check_digest3/_check2/_check/"
                                  "_check_digest2/_check_digest (argument mapping, result folding)":
                                      "random + directed lifetime/max_nc sequences per entry point"},
               "exhaustive": False}
        return failures, cov


def replay(ctx, path):
    r = json.load(open(path))
    sp = Spec(); sp.gen(ctx); vlib.lake_build(sp.lean_targets); sp.build(ctx)
    if "input" not in r:
        print("replay file names a proof / correspondence problem:", r.get("no_longer_checks"))
        return 1
    seq = [l.split() for l in r["input"]]
    fl, st = run_batch(sp.harness, sp.driver, [seq])
    hout, _, _ = vlib.run_lines(sp.harness, r["input"])
    mout, _, _ = vlib.run_lines(sp.driver, r["input"])
    for l, h, m in zip(r["input"], hout, mout):
        print("%-60s code=%-10s model=%s" % (l[:60], h[:40], m[:40]))
    for f in fl:
        print(f.kind, f.signature, f.detail)
    print("oracle/diff verdict:", "FAIL" if fl else "pass")
    return 1 if fl else 0
