"""C14 — Authorization header decoding (gen_auth.c, basicauth.c, digestauth.c info API).  Engine `auth`."""
import base64, itertools, json, os, re
import vlib, extract

# --------------------------------------------------------------------------- (A) translator


def _lst(bs):
    return "[" + ", ".join(str(b) for b in bs) + "]"


def _fn_body(text, name):
    """text of the C function `name` (from its name at line start to the closing brace at column 0)"""
    m = re.search(r"^%s \(.*?^\}" % re.escape(name), text, re.S | re.M)
    return m.group(0) if m else ""


def _flat(body):
    body = re.sub(r"/\*.*?\*/", " ", body, flags=re.S)
    body = body.replace("\\\n", " ")
    return re.sub(r"\s+", " ", body)


def _chains(body, var):
    """(quoted chain, token chain) of `if (EQ (…, TOKENS)) return CONST;` in source order"""
    fl = _flat(body)
    v = re.escape(var)
    q = re.findall(r"MHD_str_equal_caseless_quoted_s_bin_n \(%s->value\.str, %s->value\.len, ([\w \"-]+?)\)\) return (\w+);" % (v, v), fl)
    t = re.findall(r"MHD_str_equal_caseless_s_bin_n_ \(([\w \"-]+?), %s->value\.str, %s->value\.len\)\) return (\w+);" % (v, v), fl)
    return q, t


def gen_auth():
    """regenerate lean/Mhd/Gen/Auth.lean from the current source tree"""
    from extract import c_eval, src, HEADER, GEN
    ga = src("src/microhttpd/gen_auth.c")
    da = src("src/microhttpd/digestauth.c")
    old = ""
    try:
        old = open(os.path.join(GEN, "Auth.lean")).read()
    except OSError:
        pass

    def prev_line(name):
        m = re.search(r"^def %s : .*$" % re.escape(name), old, re.M)
        return m.group(0) if m else None

    # --- syntactic part: the if-chains and the parameter-name table (not nameable from C)
    aq, at = _chains(_fn_body(ga, "get_rq_dauth_algo"), "algo_param")
    qq, qt = _chains(_fn_body(ga, "get_rq_dauth_qop"), "qop_param")
    pd = _flat(_fn_body(ga, "parse_dauth_params"))
    tkdef = dict(re.findall(r"struct _MHD_cstr_w_len (\w+) = _MHD_S_STR_W_LEN \(\"([^\"]*)\"\)", pd))
    m = re.search(r"tk_names\[\] = \{(.*?)\};", pd)
    tk_order = re.findall(r"&(\w+)", m.group(1)) if m else []
    slots = re.findall(r"params\[(\d+) ?\] = &\(?(?:pdauth->)?(\w+)\)?;", pd)
    uh = re.findall(r"MHD_str_equal_caseless_quoted_s_bin_n \(userhash\.value\.str, userhash\.value\.len, (\"\w+\")\)", pd)
    uh2 = re.findall(r"MHD_str_equal_caseless_s_bin_n_ \((\"\w+\"), userhash\.value\.str, userhash\.value\.len\)", pd)
    extp = re.search(r"#define MHD_DAUTH_EXT_PARAM_PREFIX\s+(\"[^\"]*\")", da)
    unq = re.search(r"char unq\[(\d+)\];", da)
    prints = [("digestBase", "%s", "_MHD_AUTH_DIGEST_BASE"), ("basicBase", "%s", "_MHD_AUTH_BASIC_BASE"),
              ("authHeader", "%s", "MHD_HTTP_HEADER_AUTHORIZATION"),
              ("headerKind", "%d", "(int) MHD_HEADER_KIND"),
              ("invalidNc", "%u", "(unsigned) MHD_DIGEST_AUTH_INVALID_NC_VALUE"),
              ("algoInvalid", "%d", "(int) MHD_DIGEST_AUTH_ALGO3_INVALID"),
              ("algoMd5", "%d", "(int) MHD_DIGEST_AUTH_ALGO3_MD5"),
              ("algoMd5Sess", "%d", "(int) MHD_DIGEST_AUTH_ALGO3_MD5_SESSION"),
              ("algoSha256", "%d", "(int) MHD_DIGEST_AUTH_ALGO3_SHA256"),
              ("algoSha256Sess", "%d", "(int) MHD_DIGEST_AUTH_ALGO3_SHA256_SESSION"),
              ("algoSha512", "%d", "(int) MHD_DIGEST_AUTH_ALGO3_SHA512_256"),
              ("algoSha512Sess", "%d", "(int) MHD_DIGEST_AUTH_ALGO3_SHA512_256_SESSION"),
              ("qopInvalid", "%d", "(int) MHD_DIGEST_AUTH_QOP_INVALID"),
              ("qopNone", "%d", "(int) MHD_DIGEST_AUTH_QOP_NONE"),
              ("qopAuth", "%d", "(int) MHD_DIGEST_AUTH_QOP_AUTH"),
              ("qopAuthInt", "%d", "(int) MHD_DIGEST_AUTH_QOP_AUTH_INT"),
              ("unMissing", "%d", "(int) MHD_DIGEST_AUTH_UNAME_TYPE_MISSING"),
              ("unStandard", "%d", "(int) MHD_DIGEST_AUTH_UNAME_TYPE_STANDARD"),
              ("unExtended", "%d", "(int) MHD_DIGEST_AUTH_UNAME_TYPE_EXTENDED"),
              ("unUserhash", "%d", "(int) MHD_DIGEST_AUTH_UNAME_TYPE_USERHASH"),
              ("unInvalid", "%d", "(int) MHD_DIGEST_AUTH_UNAME_TYPE_INVALID"),
              ("tokMd5", "%s", "_MHD_MD5_TOKEN"), ("tokSha256", "%s", "_MHD_SHA256_TOKEN"),
              ("tokSha512", "%s", "_MHD_SHA512_256_TOKEN"), ("tokSess", "%s", "_MHD_SESS_TOKEN"),
              ("tokAuth", "%s", "MHD_TOKEN_AUTH_"), ("tokAuthInt", "%s", "MHD_TOKEN_AUTH_INT_"),
              ("b64", "%s", "b64probe ()"), ("hexmap", "%s", "hexprobe ()")]
    chains = {"algoQuotedChain": aq, "algoTokenChain": at, "qopQuotedChain": qq, "qopTokenChain": qt}
    for cn, ch in chains.items():
        for j, (tok, const) in enumerate(ch):
            prints.append(("%s_%d_t" % (cn, j), "%s", tok))
            prints.append(("%s_%d_c" % (cn, j), "%d", "(int) " + const))
    for j, s in enumerate(uh[:1] + uh2[:1]):
        prints.append(("uh_%d" % j, "%s", s))
    if extp:
        prints.append(("extPrefix", "%s", extp.group(1)))
    prelude = r'''
#include "MHD_config.h"
#include "mhd_str.c"
#include "internal.h"
#include "digestauth.h"
#include "basicauth.h"
static char b64buf[2048];
/* the decoding table of MHD_base64_to_bin_n, observed through the function:
   per input byte c: 0..63 value, 64 invalid, 65 padding */
static char hexbuf[2048];
static const char *hexprobe (void)
{
  char *w = hexbuf;
  for (int c = 0; c < 256; c++)
  {
    int v = toxdigitvalue ((char) c);
    w += sprintf (w, "%d ", (v < 0) ? 16 : v);
  }
  return hexbuf;
}
static const char *b64probe (void)
{
  char *w = b64buf;
  for (int c = 0; c < 256; c++)
  {
    char in[4]; uint8_t out[3]; int v;
    in[0] = (char) c; in[1] = 'A'; in[2] = 'A'; in[3] = 'A';
    if (3 == MHD_base64_to_bin_n (in, 4, out, 3)) v = out[0] >> 2;
    else
    {
      in[0] = 'A'; in[1] = 'A'; in[2] = (char) c; in[3] = (char) c;
      v = (1 == MHD_base64_to_bin_n (in, 4, out, 3)) ? 65 : 64;
    }
    w += sprintf (w, "%d ", v);
  }
  return b64buf;
}
'''
    v = c_eval(prelude, prints)

    def S(k):
        return _lst(v[k].encode("latin-1"))

    lines = [HEADER % "src/microhttpd/{gen_auth.c,digestauth.c,digestauth.h,basicauth.h,mhd_str.c} + src/include/microhttpd.h",
             "namespace Mhd.Gen.Auth"]
    for k in ("digestBase", "basicBase", "authHeader", "tokMd5", "tokSha256", "tokSha512", "tokSess", "tokAuth", "tokAuthInt"):
        lines.append("def %s : List UInt8 := %s" % (k, S(k)))
    for k in ("headerKind", "invalidNc", "algoInvalid", "algoMd5", "algoMd5Sess", "algoSha256", "algoSha256Sess", "algoSha512",
              "algoSha512Sess", "qopInvalid", "qopNone", "qopAuth", "qopAuthInt", "unMissing", "unStandard", "unExtended",
              "unUserhash", "unInvalid"):
        lines.append("def %s : Nat := %s" % (k, v[k]))
    # chains (syntactic, fall back to the committed value when the source pattern is gone)
    expect = {"algoQuotedChain": 6, "algoTokenChain": 6, "qopQuotedChain": 2, "qopTokenChain": 2}
    for cn, ch in chains.items():
        if len(ch) >= 1 and (len(ch) == expect[cn] or not prev_line(cn)):
            items = ", ".join("(%s, %s)" % (_lst(v["%s_%d_t" % (cn, j)].encode("latin-1")), v["%s_%d_c" % (cn, j)])
                              for j in range(len(ch)))
            lines.append("def %s : List (List UInt8 × Nat) := [%s]" % (cn, items))
        else:
            lines.append(prev_line(cn) or "def %s : List (List UInt8 × Nat) := []" % cn)
    # parameter names in tk_names[] order, and the slot each one is stored in
    if tk_order and all(t in tkdef for t in tk_order) and len(slots) == len(tk_order):
        lines.append("def paramNames : List (List UInt8) := [%s]" % ", ".join(_lst(tkdef[t].encode()) for t in tk_order))
        sl = [n for _, n in sorted(((int(a), b) for a, b in slots))]
        lines.append("def paramSlots : List String := [%s]" % ", ".join('"%s"' % s for s in sl))
    else:
        lines.append(prev_line("paramNames") or "def paramNames : List (List UInt8) := []")
        lines.append(prev_line("paramSlots") or "def paramSlots : List String := []")
    if "uh_0" in v and "uh_1" in v:
        lines.append("def userhashTrueQuoted : List UInt8 := %s" % S("uh_0"))
        lines.append("def userhashTrueToken : List UInt8 := %s" % S("uh_1"))
    else:
        lines.append(prev_line("userhashTrueQuoted") or "def userhashTrueQuoted : List UInt8 := []")
        lines.append(prev_line("userhashTrueToken") or "def userhashTrueToken : List UInt8 := []")
    lines.append("def extPrefix : List UInt8 := %s" % S("extPrefix") if "extPrefix" in v
                 else (prev_line("extPrefix") or "def extPrefix : List UInt8 := []"))
    lines.append("def ncUnqBuf : Nat := %s" % unq.group(1) if unq else (prev_line("ncUnqBuf") or "def ncUnqBuf : Nat := 16"))
    # first / last `return` of the two recognisers (value absent / nothing matched)
    for fn, var, pre in (("get_rq_dauth_algo", "algo_param", "algo"), ("get_rq_dauth_qop", "qop_param", "qop")):
        fl = _flat(_fn_body(ga, fn))
        m1 = re.search(r"if \(NULL == %s->value\.str\) return (\w+);" % var, fl)
        m2 = re.findall(r"return (\w+);", fl)
        for nm, const in ((pre + "Absent", m1.group(1) if m1 else None), (pre + "NoMatch", m2[-1] if m2 else None)):
            val = None
            if const:
                try:
                    val = c_eval('#include "MHD_config.h"\n#include "internal.h"\n', [("x", "%d", "(int) " + const)])["x"]
                except RuntimeError:
                    val = None
            lines.append("def %s : Nat := %s" % (nm, val) if val is not None else (prev_line(nm) or "def %s : Nat := 0" % nm))
    hexmap = [int(x) for x in v["hexmap"].split()]
    assert len(hexmap) == 256
    lines.append("/-- toxdigitvalue per input byte: 0..15 value, 16 = not a hexadecimal digit -/")
    lines.append("def hexmap : List Nat := %s" % _lst(hexmap))
    b64 = [int(x) for x in v["b64"].split()]
    assert len(b64) == 256
    lines.append("/-- decoding table of MHD_base64_to_bin_n per input byte: 0..63 value, 64 invalid, 65 padding -/")
    lines.append("def b64map : List Nat := %s" % _lst(b64))
    lines.append("end Mhd.Gen.Auth")
    return vlib.write_if_changed(os.path.join(GEN, "Auth.lean"), "\n".join(lines) + "\n")


# --------------------------------------------------------------------------- independent oracle
# RFC 7235 / 7616 / 7617 / 5987 reference reader of credentials.  It knows nothing about
# the Lean model and nothing about MHD's scanner; it states what a recipient that follows
# the grammar obtains, and is consulted only for header values that are inside the grammar
# (for all other inputs only the corruption rule and the structural sanity rules apply).

ALPHA = bytes(range(65, 91)) + bytes(range(97, 123))
DIGIT = b"0123456789"
TCHAR = frozenset(b"!#$%&'*+-.^_`|~" + DIGIT + ALPHA)
QDTEXT = frozenset([9, 32, 0x21] + list(range(0x23, 0x5C)) + list(range(0x5D, 0x7F)) + list(range(0x80, 0x100)))
QPAIR = frozenset([9, 32] + list(range(0x21, 0x7F)) + list(range(0x80, 0x100)))
ATTR_CHAR = frozenset(ALPHA + DIGIT + b"!#$&+-.^_`|~")
HEXD = frozenset(b"0123456789abcdefABCDEF")
OWS = b" \t"

ALGO = {b"md5": 65, b"md5-sess": 129, b"sha-256": 66, b"sha-256-sess": 130, b"sha-512-256": 68, b"sha-512-256-sess": 132}
ALGO_CONST_CHECK = {"MHD_DIGEST_AUTH_ALGO3_MD5": 65}   # values are those of microhttpd.h (public ABI)
QOP = {b"auth": 2, b"auth-int": 4}
UT_MISSING, UT_INVALID, UT_USERHASH, UT_STANDARD, UT_EXTENDED = 0, 1, 2, 4, 8
KNOWN = [b"nonce", b"opaque", b"algorithm", b"response", b"username", b"username*", b"realm", b"uri", b"qop",
         b"cnonce", b"nc", b"userhash"]


def ref_split_elements(s):
    """top-level comma split of a #rule list; None if a quoted-string is broken"""
    out, cur, i, n, start = [], bytearray(), 0, len(s), 0
    spans = []
    inq = False
    while i < n:
        c = s[i]
        if inq:
            if c == 0x5C:
                if i + 1 >= n or s[i + 1] not in QPAIR:
                    return None
                i += 2
                continue
            if c == 0x22:
                inq = False
            elif c not in QDTEXT:
                return None
            i += 1
            continue
        if c == 0x22:
            inq = True
        elif c == 0x2C:
            spans.append((start, i))
            start = i + 1
        i += 1
    if inq:
        return None
    spans.append((start, n))
    return spans


def ref_auth_param(s, a, b):
    """element s[a:b] (OWS-trimmed by the caller) as  token BWS "=" BWS ( token / quoted-string ).
    returns (name_lower, sem_value, raw_start, raw_len, is_quoted_form) or None"""
    i = a
    while i < b and s[i] in TCHAR:
        i += 1
    if i == a:
        return None
    name = bytes(s[a:i]).lower()
    while i < b and s[i] in OWS:
        i += 1
    if i >= b or s[i] != 0x3D:
        return None
    i += 1
    while i < b and s[i] in OWS:
        i += 1
    if i >= b:
        return None
    if s[i] == 0x22:
        j = i + 1
        sem = bytearray()
        while j < b and s[j] != 0x22:
            if s[j] == 0x5C:
                if j + 1 >= b:
                    return None
                sem.append(s[j + 1]); j += 2
            else:
                sem.append(s[j]); j += 1
        if j >= b or j + 1 != b:
            return None
        return name, bytes(sem), i + 1, j - (i + 1), True
    j = i
    while j < b and s[j] in TCHAR:
        j += 1
    if j != b or j == i:
        return None
    return name, bytes(s[i:j]), i, j - i, False


def ref_digest(s, dups=False):
    """s = the text after the scheme and its separator.  Returns None when s is not a
    #auth-param list of the grammar or repeats a parameter (dups=True: the last occurrence counts instead);
    else dict name -> (sem, raw_start, raw_len, quoted_form)"""
    if any(c == 0 for c in s):
        return None
    spans = ref_split_elements(s)
    if spans is None:
        return None
    res = {}
    for a, b in spans:
        while a < b and s[a] in OWS:
            a += 1
        while b > a and s[b - 1] in OWS:
            b -= 1
        if a == b:
            continue
        p = ref_auth_param(s, a, b)
        if p is None:
            return None
        if p[0] in res and not dups:
            return None
        res[p[0]] = p[1:]
    return res


def ref_pct(s):
    """strict percent-decoding of RFC 5987 value-chars; None if a '%' is not followed by two HEXDIG
    or a character is outside attr-char"""
    out, i = bytearray(), 0
    while i < len(s):
        if s[i] == 0x25:
            if i + 3 > len(s) or s[i + 1] not in HEXD or s[i + 2] not in HEXD:
                return None
            out.append(int(bytes(s[i + 1:i + 3]), 16)); i += 3
        elif s[i] in ATTR_CHAR:
            out.append(s[i]); i += 1
        else:
            return None
    return bytes(out)


def ref_view(params):
    """what the information API must report for in-grammar parameters (dict of plain values)"""
    v = {}
    g = lambda k: params[k][0] if k in params else None
    a = g(b"algorithm")
    v["algo"] = 65 if a is None else ALGO.get(a.lower(), 0)
    q = g(b"qop")
    v["qop"] = 1 if q is None else QOP.get(q.lower(), 0)
    uh = g(b"userhash")
    v["uh"] = 1 if (uh is not None and uh.lower() == b"true") else 0
    un, ux = g(b"username"), g(b"username*")
    user = uhh = uhb = None
    if un is not None and ux is not None:
        ut = UT_INVALID
    elif un is not None:
        if v["uh"]:
            uhh = un
            if len(un) % 2 == 0 and all(c in HEXD for c in un):
                ut = UT_USERHASH
                uhb = bytes.fromhex(un.decode()) if un else None
            else:
                ut = UT_INVALID
        else:
            ut, user = UT_STANDARD, un
    elif ux is not None and params[b"username*"][3]:
        ut = None                # ext-value written as quoted-string: outside the RFC 7616 grammar, no expectation
    elif ux is not None:
        ut = UT_INVALID
        if not v["uh"]:
            # ext-value = charset "'" [ language ] "'" value-chars ; only UTF-8 is defined by RFC 7616
            parts = ux.split(b"'", 2)
            if len(parts) != 3 or not all((c in ALPHA or c in DIGIT or c == 0x2D) for c in parts[1]) \
                    or not all((c in ATTR_CHAR or c == 0x25) for c in parts[2]) or not parts[0]:
                ut = None            # outside the RFC 5987 grammar: no expectation on the user name
            elif parts[0].lower() == b"utf-8":
                dec = ref_pct(parts[2])
                if dec is not None:
                    ut, user = UT_EXTENDED, dec
    else:
        ut = UT_MISSING
    v.update(ut=ut, user=user, uhh=uhh, uhb=uhb)
    v["opaque"], v["realm"] = g(b"opaque"), g(b"realm")
    v["cnl"] = params[b"cnonce"][2] if b"cnonce" in params else 0
    nc = g(b"nc")
    v["nc"] = 0
    if nc and all(c in HEXD for c in nc) and int(nc, 16) <= 0xFFFFFFFF:
        v["nc"] = int(nc, 16)
    return v


def b64_canonical(tok):
    try:
        d = base64.b64decode(tok, validate=True)
    except Exception:
        return None
    return d if base64.b64encode(d) == tok else None


def ref_basic(value):
    """expected result of the Basic API for a whole Authorization value: None or (user, password|None)"""
    if value[:5].lower() != b"basic":
        return None
    rest = value[5:]
    if rest and rest[0] not in OWS:
        return None
    toks = rest.replace(b"\t", b" ").split(b" ")
    toks = [t for t in toks if t]
    if len(toks) != 1:
        return None
    d = b64_canonical(toks[0])
    if not d:
        return None
    if b":" in d:
        u, p = d.split(b":", 1)
        return u, p
    return d, None


def ref_scheme(value, scheme):
    """text after the scheme token and one separator, or None"""
    n = len(scheme)
    if value[:n].lower() != scheme.lower():
        return None
    if len(value) == n:
        return b""
    if value[n] not in OWS:
        return None
    return value[n + 1:]


def hx(b):
    return bytes(b).hex() if b else "-"


def unhx(s):
    return b"" if s == "-" else bytes.fromhex(s)


def c_unquote(b):
    out, i = bytearray(), 0
    while i < len(b):
        if b[i] == 0x5C:
            i += 1
            if i >= len(b):
                return b""
        out.append(b[i]); i += 1
    return bytes(out)


def parse_dparse_line(line, s):
    """harness `dparse` output -> None (fail) | dict(slots={idx:(sem, off, len, q)}, uh, algo, qop) ; raises on sanity violation"""
    w = line.split()
    if w[0] == "fail":
        return None
    if w[0] != "ok" or len(w) != 16:
        raise ValueError("unparsable harness line: " + line)
    slots = {}
    for k in range(12):
        t = w[1 + k]
        if t in ("-", "*"):
            continue
        off, ln, q = (int(x) for x in t.split(":"))
        if off + ln > len(s):
            raise ValueError("slice %d+%d outside the %d-byte string" % (off, ln, len(s)))
        raw = s[off:off + ln]
        if q and b"\\" not in raw:
            raise ValueError("quoted flag without a backslash")
        slots[k] = (c_unquote(raw) if q else raw, off, ln, q)
    d = dict(x.split("=") for x in w[13:])
    return {"slots": slots, "uh": int(d["uh"]), "algo": int(d["algo"]), "qop": int(d["qop"])}


def oracle_dparse(s, line):
    """in-grammar rule for the white-box parser: accepted, every observable parameter equals the reference"""
    try:
        got = parse_dparse_line(line, s)
    except ValueError as ex:
        return str(ex)
    ref = ref_digest(s)
    if ref is None:
        return None
    return compare_with_ref(got, ref)


def compare_with_ref(got, ref):
    """the parser's answer `got` (parse_dparse_line) against the reference reader's `ref` for an in-grammar string"""
    if got is None:
        return "in-grammar credentials rejected"
    for k, name in enumerate(KNOWN):
        if k in (2, 11):
            continue
        exp = ref[name][0] if name in ref else None
        have = got["slots"][k][0] if k in got["slots"] else None
        if exp != have:
            return "parameter %s: expected %r, parser delivered %r" % (name.decode(), exp, have)
        if exp is not None and (ref[name][1], ref[name][2]) != (got["slots"][k][1], got["slots"][k][2]):
            return "parameter %s: raw slice differs from the reference" % name.decode()
    v = ref_view(ref)
    for f in ("algo", "qop", "uh"):
        if v[f] != got[f]:
            nm = {"algo": "algorithm", "qop": "qop", "uh": "userhash"}[f]
            val = ref[nm.encode()][0] if nm.encode() in ref else None
            form = "absent" if val is None else ("quoted+escaped" if (ref[nm.encode()][3] and ref[nm.encode()][2] != len(val))
                                                 else ("quoted" if ref[nm.encode()][3] else "token"))
            return "%s %r (%s form): expected constant %d, got %d" % (nm, val, form, v[f], got[f])
    return None


def fmt_opt(b):
    return "none" if b is None else hx(b)


def oracle_info(value, line):
    """in-grammar rule for the public Digest API on a connection carrying `Authorization: value`"""
    rest = ref_scheme(value, b"Digest")
    if rest is None:
        return None if line.startswith("info none") else "Digest information returned for a non-Digest header"
    ref = ref_digest(rest)
    if ref is None:
        return None
    if line.startswith("info none"):
        return "in-grammar credentials rejected by the information API"
    v = ref_view(ref)
    # documented limit of get_rq_nc: a backslash-escaped nc longer than 16 raw bytes is reported invalid
    if b"nc" in ref and ref[b"nc"][3] and ref[b"nc"][2] != len(ref[b"nc"][0]) and ref[b"nc"][2] > 16:
        v["nc"] = None
    m = re.match(r"info algo=(\d+) ut=(\d+) user=(\S+) uhh=(\S+) uhb=(\S+) opaque=(\S+) realm=(\S+) qop=(\d+) cnl=(\d+) nc=(\d+) \| (.*)$", line)
    if not m:
        return "unparsable harness line"
    got = dict(algo=int(m.group(1)), ut=int(m.group(2)), user=m.group(3), uhh=m.group(4), uhb=m.group(5),
               opaque=m.group(6), realm=m.group(7), qop=int(m.group(8)), cnl=int(m.group(9)), nc=int(m.group(10)))
    exp = dict(algo=v["algo"], opaque=fmt_opt(v["opaque"]), realm=fmt_opt(v["realm"]), qop=v["qop"], cnl=v["cnl"])
    if v["ut"] is not None:
        exp.update(ut=v["ut"], user=fmt_opt(v["user"]), uhb=fmt_opt(v["uhb"]))
        if v["ut"] != UT_INVALID:
            exp["uhh"] = fmt_opt(v["uhh"])
    if v["nc"] is not None:
        exp["nc"] = v["nc"]
    for k, e in exp.items():
        if got[k] != e:
            return "info.%s: expected %s, got %s" % (k, e, got[k])
    un3 = m.group(11)
    if v["ut"] is None:
        return None
    if v["ut"] in (UT_MISSING, UT_INVALID):
        if un3 != "un3 none":
            return "username API returned a structure for a missing/invalid user name"
    else:
        e3 = "un3 ut=%d user=%s uhh=%s uhb=%s algo=%d" % (v["ut"], fmt_opt(v["user"]), fmt_opt(v["uhh"]), fmt_opt(v["uhb"]), v["algo"])
        if un3 != e3:
            return "username API: expected '%s', got '%s'" % (e3, un3)
    return None


def oracle_basic(value, line):
    exp = ref_basic(value)
    e = "basic none" if exp is None else "basic u=%s p=%s" % (hx(exp[0]), fmt_opt(exp[1]))
    if line != e:
        return "Basic credentials: expected '%s', got '%s'" % (e, line)
    return None


def oracle_algo(op, raw, quoted, line):
    """get_rq_dauth_algo / get_rq_dauth_qop on a raw value: the constant must be the one of the
    unescaped value (RFC 7616 tokens, caseless), whatever the quoting"""
    if raw is None:
        exp = 65 if op == "algo" else 1
    else:
        if quoted:
            # value as delivered by the scanner for a quoted-string with complete quoted-pairs only
            i, sem = 0, bytearray()
            while i < len(raw):
                if raw[i] == 0x5C:
                    if i + 1 >= len(raw):
                        return None          # not a value the scanner can deliver
                    sem.append(raw[i + 1]); i += 2
                else:
                    sem.append(raw[i]); i += 1
            sem = bytes(sem)
        else:
            sem = raw
        exp = (ALGO if op == "algo" else QOP).get(sem.lower(), 0)
    got = int(line.split("=")[1])
    if got != exp:
        return "%s value %r (%s): expected constant %d, got %d" % (op, raw, "quoted+escaped" if quoted else "plain", exp, got)
    return None


def oracle_find(words, line):
    """first header of kind HEADER named Authorization (caseless) whose value is the scheme token
    followed by SP/HT or nothing"""
    scheme = b"Basic" if words[1] == "b" else b"Digest"
    exp = "none"
    if words[2] == "1":
        hs = words[3:]
        for i in range(0, len(hs), 3):
            kind, name, val = int(hs[i]), unhx(hs[i + 1]), unhx(hs[i + 2])
            if kind != 1 or name.lower() != b"authorization":
                continue
            r = ref_scheme(val, scheme)
            if r is None:
                continue
            exp = "found %d %d %d" % (i // 3, len(val) - len(r), len(r))
            break
    if line != exp:
        return "header lookup: expected '%s', got '%s'" % (exp, line)
    return None


def first_auth_value(hs, scheme):
    """hs = [(kind, name, value)]: value of the first header of kind HEADER named Authorization (caseless)
    whose value is the scheme token followed by SP / HT / nothing"""
    for kind, name, val in hs:
        if kind == 1 and name.lower() == b"authorization" and ref_scheme(val, scheme) is not None:
            return val
    return None


def oracle_headers(op, hs, line):
    """several request headers: the first matching header alone decides"""
    if op == "b":
        v = first_auth_value(hs, b"Basic")
        if v is None:
            return None if line == "basic none" else "Basic credentials reported without a Basic Authorization header: " + line
        return oracle_basic(v, line)
    v = first_auth_value(hs, b"Digest")
    if v is None:
        return None if line.startswith("info none") else "Digest information reported without a Digest Authorization header"
    return oracle_info(v, line)


def oracle_connq(words, line):
    """pipelined requests on one real connection; inside the URI-log callback (before the header fields are read) there
    are no credentials; in every call of the access handler the answers are those of this request's own headers,
    however often and however early the application asked before"""
    early = words[1] == "1"
    reqs = line.split(" / ")
    if len(reqs) != len(words) - 2:
        return "expected %d requests, the handler saw %d" % (len(words) - 2, len(reqs))
    if "REPEAT-DIFF" in line:
        return "a repeated query gave a different answer"
    for w, r in zip(words[2:], reqs):
        hs = [] if w == "-" else [(1, b"Authorization", unhx(x)) for x in w.split(",")]
        ph = re.findall(r"\[(u|h\d)=([^\]]*)\]", r)
        tags = [t for t, _ in ph]
        if tags != (["u"] if early else []) + ["h1", "h2", "h3"]:
            return "unexpected sequence of callbacks: %s" % " ".join(tags)
        for t, content in ph:
            hb, _, hi = content.partition(" ; ")
            if t == "u":
                if content != "basic none ; info none":
                    return "credentials reported before the header fields were read: " + content
                continue
            err = oracle_headers("b", hs, hb) or oracle_headers("i", hs, hi)
            if err:
                return "handler call %s%s: %s" % (t, " after a query in the URI-log callback" if early else "", err)
    return None


def oracle_layout(value, line):
    """every returned pointer refers to bytes inside the allocated block; regions (strings with NUL) are disjoint"""
    for part in line.split(" | "):
        w = part.split()
        if len(w) < 2 or w[1] in ("none", "null"):
            continue
        if not w[1].startswith("alloc="):
            return "unparsable layout line: " + part
        alloc = int(w[1][6:])
        regs = []
        for t in w[2:]:
            tag, _, v = t.partition("=")
            if v == "-":
                continue
            o, _, ln = v.partition(":")
            o, ln = int(o), int(ln)
            ext = ln if tag == "uhb" else ln + 1
            if o < 0 or o + ext > alloc:
                return "%s: region %d+%d outside the %d allocated bytes" % (tag, o, ext, alloc)
            regs.append((o, o + ext, tag))
        regs.sort()
        for (a0, a1, ta), (b0, b1, tb) in zip(regs, regs[1:]):
            if b0 < a1 and a1 > a0 and b1 > b0:
                return "regions %s and %s overlap" % (ta, tb)
    rest = ref_scheme(value, b"Digest")
    ref = ref_digest(rest) if rest is not None else None
    if ref is not None and line.startswith("lay none"):
        return "in-grammar credentials rejected by the information API"
    return None


def parse_hdr_words(ws):
    return [(int(ws[i]), unhx(ws[i + 1]), unhx(ws[i + 2])) for i in range(0, len(ws), 3)]


def oracle_bparse(s, line):
    """parse_bauth_params: OWS token68 OWS, nothing else; NUL , ; forbidden in the token"""
    t = s.strip(b" \t")
    if not t:
        exp = "ok -"
    elif any(c in b" \t\x00,;" for c in t):
        exp = "fail"
    else:
        exp = "ok %d %d" % (len(s) - len(s.lstrip(b" \t")), len(t))
    if line != exp:
        return "token68 extraction: expected '%s', got '%s'" % (exp, line)
    return None


# --------------------------------------------------------------------------- generators

SLOT = {n: i for i, n in enumerate(KNOWN)}
B64ALPHA = b"ABCDEFGHIJKLMNOPQRSTUVWXYZabcdefghijklmnopqrstuvwxyz0123456789+/"


def rnd_bytes(rng, alphabet, lo, hi):
    return bytes(rng.choice(alphabet) for _ in range(rng.randint(lo, hi)))


def rnd_case(rng, name, mode=None):
    mode = mode if mode is not None else rng.choice(["lower", "upper", "mixed", "lower"])
    if mode == "lower":
        return name
    if mode == "upper":
        return name.upper()
    return bytes((c - 32 if (97 <= c <= 122 and rng.random() < 0.5) else c) for c in name)


def rnd_ws(rng, p=0.35):
    if rng.random() > p:
        return b""
    return rnd_bytes(rng, b" \t ", 1, 3)


def quote(value, mask=None, rng=None, extra=0.2):
    """quoted-string form of a semantic value; '"' and '\\' always escaped, others per mask/rng"""
    out = bytearray(b'"')
    for j, c in enumerate(value):
        must = c in (0x22, 0x5C)
        may = c in QPAIR
        esc = must or (may and ((mask[j] if mask is not None else False) or (rng is not None and rng.random() < extra)))
        if esc:
            out.append(0x5C)
        out.append(c)
    out.append(0x22)
    return bytes(out)


def is_token(v):
    return len(v) > 0 and all(c in TCHAR for c in v)


TEXT_ALPHA = b"abcXYZ019 _-.@/:=,;\"\\\t!#\xc3\xa4\x80\xff"


def rnd_semantic(rng):
    """a semantic parameter set (dict name -> bytes) roughly as a client would send it"""
    p = {}
    nt = rng.choice(["std", "std", "hash", "ext", "both", "none", "exthash"])
    if nt in ("std", "both"):
        p[b"username"] = rnd_bytes(rng, TEXT_ALPHA, 0, 12)
    if nt == "hash":
        p[b"username"] = rnd_bytes(rng, b"0123456789abcdefABCDEF", 0, 8) * 2 if rng.random() < 0.8 else rnd_bytes(rng, b"0123456789abcdefg", 1, 9)
        p[b"userhash"] = rng.choice([b"true", b"TRUE", b"True"])
    if nt in ("ext", "both", "exthash"):
        enc = b"".join((b"%%%02X" % c if (c not in ATTR_CHAR or rng.random() < 0.2) else bytes([c]))
                       for c in rnd_bytes(rng, b"abcJ \xc3\xa4\xb8%'*", 0, 8))
        if rng.random() < 0.1:
            enc += rng.choice([b"%", b"%4", b"%zz", b"%4g"])
        p[b"username*"] = rng.choice([b"UTF-8", b"utf-8", b"UTF-8", b"ISO-8859-1"]) + b"'" + rng.choice([b"", b"en", b"de-CH"]) + b"'" + enc
        if rng.random() < 0.08:
            p[b"username*"] = rng.choice([b"UTF-8", b"UTF-8'", b"UTF-8''", b"UTF-8'e", b"UTF-8'en", b"utf-8'x'", b"UTF-8'' ", b"UTF-9''a"])
        if nt == "exthash":
            p[b"userhash"] = b"true"
    if b"userhash" not in p and rng.random() < 0.2:
        p[b"userhash"] = rng.choice([b"false", b"FALSE", b"yes", b"tru", b"truee"])
    if rng.random() < 0.85:
        p[b"realm"] = rnd_bytes(rng, TEXT_ALPHA, 0, 14)
    if rng.random() < 0.85:
        p[b"nonce"] = rnd_bytes(rng, B64ALPHA + b"=", 0, 24)
    if rng.random() < 0.7:
        p[b"uri"] = b"/" + rnd_bytes(rng, b"abc/?&=%20.,;", 0, 12)
    if rng.random() < 0.8:
        p[b"response"] = rnd_bytes(rng, b"0123456789abcdef", 0, 16) * 2
    if rng.random() < 0.8:
        a = rng.choice(list(ALGO.keys()) + [b"md5", b"sha-256", b"md6", b"sha-512-256-ses", b"md5-sesss", b"-sess", b""])
        p[b"algorithm"] = rnd_case(rng, a.upper(), rng.choice(["upper", "upper", "lower", "mixed"])) if a else a
        if rng.random() < 0.3:
            p[b"algorithm"] = rnd_case(rng, a)
    if rng.random() < 0.7:
        p[b"qop"] = rnd_case(rng, rng.choice([b"auth", b"auth", b"auth-int", b"aut", b"auth-in", b"auth-intx", b"x"]))
    if rng.random() < 0.7:
        p[b"cnonce"] = rnd_bytes(rng, B64ALPHA + b"\"\\ ", 0, 16)
    if rng.random() < 0.7:
        p[b"nc"] = rng.choice([b"%08x" % rng.randint(0, 0xFFFFFFFF), b"00000001", b"%x" % rng.randint(0, 1 << 40),
                               b"0000000A", b"12g4", b"", b"ffffffff", b"100000000", b"0" * 20 + b"7", b"f" * 17])
    if rng.random() < 0.6:
        p[b"opaque"] = rnd_bytes(rng, TEXT_ALPHA, 0, 12)
    for _ in range(rng.choice([0, 0, 1, 2])):
        p[rng.choice([b"foo", b"x-y", b"nonce2", b"Nc1", b"stale", b"domain", b"user", b"qopt"])] = rnd_bytes(rng, TEXT_ALPHA, 0, 8)
    return p


def render_params(rng, sem, spans=None):
    """one grammar-conforming rendering (when the values allow it) of a semantic set"""
    names = list(sem.keys())
    rng.shuffle(names)
    out = bytearray(rnd_ws(rng, 0.2))
    first = True
    for nm in names:
        if not first or rng.random() < 0.05:
            out += b"," + rnd_ws(rng)
        while rng.random() < 0.04:
            out += b"," + rnd_ws(rng)          # empty list element
        first = False
        start = len(out)
        v = sem[nm]
        as_token = is_token(v) and rng.random() < (0.85 if nm == b"username*" else 0.6 if nm in (b"algorithm", b"qop", b"nc", b"userhash") else 0.2)
        body = v if as_token else quote(v, rng=rng, extra=rng.choice([0.0, 0.0, 0.15, 0.6, 1.0]))
        out += rnd_case(rng, nm) + rnd_ws(rng, 0.15) + b"=" + rnd_ws(rng, 0.15)
        vstart = len(out)
        out += body + rnd_ws(rng, 0.2)
        if spans is not None:
            spans.append((SLOT.get(nm), start, len(out), vstart, not as_token))
    if rng.random() < 0.05:
        out += b"," + rnd_ws(rng)
    return bytes(out)


FRAGS = [b"nonce", b"nc", b"username", b"username*", b"userhash", b"algorithm", b"qop", b"realm", b"uri", b"Nc", b"n",
         b"=", b"=", b"=", b"\"", b"\"", b"\\", b",", b",", b";", b" ", b"\t", b"\x00", b"a", b"MD5", b"true", b"x\"y", b"\\\"",
         b"auth", b"\x80", b"UTF-8''a%4", b"=\"a\\", b"=a"]


def rnd_wild(rng):
    return b"".join(rng.choice(FRAGS) for _ in range(rng.randint(0, 9)))


def small_strings(alpha, maxlen):
    for n in range(maxlen + 1):
        for t in itertools.product(alpha, repeat=n):
            yield bytes(t)


def two_param_exhaustive(tier):
    """all rendering choices (order x name case x OWS placement x token / quoted / escape set) for 2-parameter
    credentials, for several parameter pairs"""
    pairs = [((b"algorithm", b"MD5-sess"), (b"username", b"a\"b")),
             ((b"algorithm", b"SHA-512-256"), (b"qop", b"auth")),
             ((b"nc", b"0000000a"), (b"userhash", b"true")),
             ((b"realm", b"r\\m"), (b"cnonce", b"AbC"))]
    if tier == "thorough":
        pairs += [((b"algorithm", b"SHA-256-sess"), (b"nonce", b"n=")),
                  ((b"qop", b"auth-int"), (b"username*", b"UTF-8''a%20b")),
                  ((b"opaque", b"o p"), (b"response", b"00ff"))]
    cases = ["lower", "upper", "alt"]
    wsset = [(b"", b"", b""), (b" ", b"", b""), (b"", b"\t", b""), (b"", b"", b" \t"), (b"\t", b" ", b" ")] if tier == "thorough" \
        else [(b"", b"", b""), (b" ", b"\t", b""), (b"", b"", b" \t")]

    def forms(nm, v):
        fs = []
        if is_token(v):
            fs.append(v)
        if nm != b"username*":
            n = len(v)
            masks = set()
            masks.add((False,) * n)
            masks.add((True,) * n)
            for j in range(n):
                masks.add(tuple(k == j for k in range(n)))
            for m in sorted(masks):
                fs.append(quote(v, mask=m))
        return fs

    def variants(nm, v):
        out = []
        for cm in cases:
            name = nm if cm == "lower" else (nm.upper() if cm == "upper" else
                                              bytes((c - 32 if (97 <= c <= 122 and j % 2 == 0) else c) for j, c in enumerate(nm)))
            for w1, w2, w3 in wsset:
                for f in forms(nm, v):
                    out.append(name + w1 + b"=" + w2 + f + w3)
        return out

    for (n1, v1), (n2, v2) in pairs:
        va, vb = variants(n1, v1), variants(n2, v2)
        for a in va:
            for b in vb:
                for sep in (b",", b", "):
                    yield a + sep + b
                    yield b + sep + a


def algo_escape_cases(rng, tier):
    """get_rq_dauth_algo / get_rq_dauth_qop directly: every escape mask (bounded) x case pattern of every known token"""
    maxexh = 12 if tier == "thorough" else 8
    for op, table in (("algo", ALGO), ("qop", QOP)):
        for tok in table:
            for cm in ("upper", "lower", "alt"):
                t = tok.upper() if cm == "upper" else (tok if cm == "lower" else
                                                       bytes((c - 32 if (97 <= c <= 122 and j % 2) else c) for j, c in enumerate(tok)))
                n = len(t)
                yield op, t, 0
                if n <= maxexh:
                    masks = itertools.product([False, True], repeat=n)
                else:
                    masks = [tuple(rng.random() < 0.3 for _ in range(n)) for _ in range(400 if tier == "thorough" else 120)] \
                        + [tuple(k == j for k in range(n)) for j in range(n)] + [(True,) * n]
                for m in masks:
                    if not any(m):
                        continue
                    yield op, quote(t, mask=m)[1:-1], 1
        # near misses and junk
        for _ in range(300):
            base = rng.choice(list(table.keys()))
            b = bytearray(rnd_case(rng, base))
            r = rng.random()
            if r < 0.3 and b:
                b[rng.randrange(len(b))] = rng.choice(b"xX-5s\\")
            elif r < 0.5:
                b += rng.choice([b"s", b"-", b"-sess", b"\\"])
            elif r < 0.7 and b:
                del b[rng.randrange(len(b))]
            yield op, bytes(b), rng.randint(0, 1)
        yield op, None, 0
        yield op, None, 1
        yield op, b"", 0
        yield op, b"", 1


def basic_cases(rng, n):
    for _ in range(n):
        u = rnd_bytes(rng, b"abcXYZ09 @.\xc3\xa4\x00\xff", 0, 9)
        if rng.random() < 0.85:
            u = u.replace(b":", b"")
        pw = rnd_bytes(rng, b"abc:XYZ09 \x00\xff", 0, 9)
        plain = u + (b":" + pw if rng.random() < 0.9 else b"")
        tok = bytearray(base64.b64encode(plain))
        r = rng.random()
        if r < 0.10 and tok:
            tok[rng.randrange(len(tok))] = rng.choice(b"-_.~*$=,; \x00\x80A")
        elif r < 0.16 and tok:
            del tok[rng.randrange(len(tok))]
        elif r < 0.22:
            tok += rng.choice([b"=", b"A", b"====", b"AA=="])
        elif r < 0.28 and len(tok) >= 2 and tok[-1] == 0x3D:
            # non-canonical trailing bits
            k = len(tok) - (2 if tok[-2] == 0x3D else 1) - 1
            tok[k] = B64ALPHA[(B64ALPHA.index(tok[k]) + 1) % 64]
        scheme = rng.choice([b"Basic", b"Basic", b"basic", b"BASIC", b"Basi", b"Basicx", b"Digest"])
        sep = rng.choice([b" ", b" ", b" ", b"\t", b"  ", b" \t ", b""])
        tail = rng.choice([b"", b"", b"", b" ", b"\t ", b" x", b",", b" ,x"])
        yield scheme + sep + bytes(tok) + tail


def find_cases(rng, n):
    names = [b"Authorization", b"authorization", b"AUTHORIZATION", b"Authorizatio", b"Authorizations", b"Host",
             b"Proxy-Authorization", b"Authorizatiom", b""]
    for _ in range(n):
        hs = []
        for _ in range(rng.randint(0, 5)):
            kind = rng.choice([1, 1, 1, 1, 1, 1, 2, 8, 16, 4])
            nm = rng.choice(names[:3] * 3 + names)
            sch = rng.choice([b"Digest", b"Basic", b"digest", b"BASIC", b"Digest", b"Basic", b"Diges", b"Digestx", b"Basic", b"DiGeSt", b"Negotiate", b""])
            val = sch + rng.choice([b"", b" ", b"\t", b" abc", b"\tabc", b"abc", b"  x", b"=", b",a"])
            hs += [str(kind), hx(nm), hx(val)]
        yield ["find", rng.choice(["b", "d"]), "1" if rng.random() < 0.9 else "0"] + hs


def header_list_cases(rng, sems, n):
    """request header lists for the two API entry points: several Authorization headers of both schemes (valid,
    broken, near-miss scheme tokens), other names and kinds around them"""
    names = [b"Authorization", b"authorization", b"AUTHORIZATION", b"Authorizatio", b"Proxy-Authorization", b"Host"]
    for _ in range(n):
        hs = []
        for _ in range(rng.randint(1, 5)):
            kind = rng.choice([1, 1, 1, 1, 1, 1, 1, 2, 8])
            nm = rng.choice(names[:3] * 4 + names)
            r = rng.random()
            if r < 0.35:
                sem, s, _ = rng.choice(sems)
                val = rnd_case(rng, b"digest", rng.choice(["mixed", "upper", "lower"])).replace(b"d", b"D", 1) if rng.random() < 0.3 else b"Digest"
                val += rng.choice([b" ", b" ", b"\t"]) + s
            elif r < 0.5:
                val = b"Digest " + rnd_wild(rng)
            elif r < 0.8:
                val = b"Basic " + base64.b64encode(rnd_bytes(rng, b"abcXYZ09", 1, 6) + b":" + rnd_bytes(rng, b"abc:XYZ09", 0, 6))
                if rng.random() < 0.2:
                    val += rng.choice([b" x", b"=", b","])
            else:
                val = rng.choice([b"Digest", b"Basic", b"Digestx nc=1", b"Basicx QTpC", b"Diges nc=1", b"Negotiate abc", b"", b"Digest\tnc=1",
                                  b"Basic\tQTpC", b"digest nc=1;", b"BASIC QTpC QTpC"])
            hs.append((kind, nm, val))
        yield hs


CORRUPT = b"\"\\,;= \x00x\x80=\t*"


# --------------------------------------------------------------------------- the check

def _sig(s):
    return re.sub(r"\d+", "N", re.sub(r"b'[^']*'|b\"[^\"]*\"|'[^']*'", "V", s))[:160]


class Spec:
    props_module = "Mhd.Props.C14"
    lean_targets = ["Mhd.Props.C14", "drv_auth"]
    required_theorems = ["Mhd.C14.corruption_local_quoted", "Mhd.C14.corruption_rejected_quoted_nul", "Mhd.C14.corruption_local_token",
                         "Mhd.C14.corruption_rejected_token", "Mhd.C14.corruption_structural_witness",
                         "Mhd.C14.parse_agrees_reference", "Mhd.C14.reference_returns_parse_tree",
                         "Mhd.C14.digest_accepts_beyond_grammar_witness",
                         "Mhd.C14.info_block_layout", "Mhd.C14.username_block_layout", "Mhd.C14.uname_type_exact",
                         "Mhd.C14.digest_api_first_matching_header", "Mhd.C14.digest_api_no_header",
                         "Mhd.C14.basic_api_first_matching_header", "Mhd.C14.basic_api_no_header", "Mhd.C14.api_single_header",
                         "Mhd.C14.digest_accepts_only_lenient_grammar", "Mhd.C14.early_query_not_cached", "Mhd.C14.late_query_after_early", "Mhd.C14.basic_query_spec",
                         "Mhd.C14.digest_query_spec", "Mhd.C14.next_request_fresh",
                         "Mhd.C14.digest_roundtrip", "Mhd.C14.digest_rendering_invariant", "Mhd.C14.digest_roundtrip_full",
                         "Mhd.C14.algo_quoting_invariant", "Mhd.C14.qop_quoting_invariant", "Mhd.C14.userhash_quoting_invariant",
                         "Mhd.C14.digest_no_fault", "Mhd.C14.digest_fault_sites", "Mhd.C14.digest_term_irrelevant",
                         "Mhd.C14.basic_roundtrip", "Mhd.C14.basic_nocolon", "Mhd.C14.basic_invalid_base64_rejected",
                         "Mhd.C14.basic_token_exact", "Mhd.C14.basic_garbage_rejected",
                         "Mhd.C14.find_header_exact", "Mhd.C14.find_header_first", "Mhd.C14.basic_api_roundtrip",
                         "Mhd.C14.info_roundtrip", "Mhd.C14.digest_api_roundtrip", "Mhd.C14.param_table"]
    trusted_base = ["Lean 4 kernel", "axioms: propext, Classical.choice, Quot.sound at most (audited per theorem)",
                    "hand-written model lean/Mhd/Model/Auth{Str,,Info}.lean tied to gen_auth.c/basicauth.c/digestauth.c/mhd_str.c "
                    "by this run's correspondence",
                    "tools/props/C14.py gen_auth (if-chains of get_rq_dauth_algo/qop, tk_names[], tokens, enum values, base64 and hex "
                    "tables regenerated from the source)",
                    "grammar side lean/Mhd/Model/AuthGrammar.lean (render / renderG, view, reference tables algoSem/qopSem, base64 encoder), "
                    "lean/Mhd/Model/AuthRef.lean (recursive-descent reference reader of the RFC 7235/7616 ABNF), "
                    "spec predicates canon / Elem.infoWf in lean/Mhd/Proofs/AuthInfo.lean, and the Python RFC 7235/7616/7617/5987 reference reader",
                    "harness/h_auth.c, gcc, ASan/UBSan"]
    assumptions = ["the header value handed to the parsers is followed in memory by one readable byte (the NUL the request parser "
                   "writes after every field value); parse_dauth_params reads str[str_len] (model: term = some _)",
                   "size_t lengths below 2^63 (SSIZE_MAX test of get_rq_extended_uname_copy_z not modelled)",
                   "information API: allocation succeeds (F13 is C07's subject)"]

    def gen(self, ctx):
        gen_auth()

    def build(self, ctx):
        # the driver does not depend on the proofs: make sure it exists even when the theorems do not build
        drv = vlib.driver_path("drv_auth")
        srcs = [os.path.join(vlib.LEAN, f) for f in ("Mhd/Gen/Auth.lean", "Mhd/Model/AuthStr.lean", "Mhd/Model/Auth.lean",
                                                      "Mhd/Model/AuthInfo.lean", "Mhd/Model/AuthCache.lean", "Driver/Auth.lean", "Driver/Common.lean")]
        if not os.path.exists(drv) or any(os.path.getmtime(f) > os.path.getmtime(drv) for f in srcs):
            vlib.lake_build(["drv_auth"])
        objs = vlib.cc_lib_objects("auth_objs", exclude=["gen_auth.c"])
        self.harness = vlib.cc("h_auth", [os.path.join(vlib.VERIF, "harness/h_auth.c")], objs=objs,
                               libs=["-lgnutls", "-lpthread"])
        self.driver = vlib.driver_path("drv_auth")

    # ---- running
    def run_both(self, lines, failures):
        """returns (harness_out, model_out) or None after recording a sanitizer failure"""
        mout, mrc, merr = vlib.run_lines(self.driver, lines)
        if mrc != 0 or len(mout) != len(lines):
            failures.append(vlib.Failure("model", "auth: model driver failed", (merr or "")[-800:], lines[len(mout):len(mout) + 1], "auth"))
            return None
        hout, hrc, herr = vlib.run_lines(self.harness, lines)
        if hrc != 0 or len(hout) != len(lines):
            bad = lines[len(hout)] if len(hout) < len(lines) else "?"
            kind = "AddressSanitizer" if "AddressSanitizer" in herr else ("UndefinedBehaviorSanitizer" if "runtime error" in herr else "abort")
            m = re.search(r"(heap-buffer-overflow|stack-buffer-overflow|SEGV|runtime error: [^\n]*|LeakSanitizer[^\n]*)", herr)
            failures.append(vlib.Failure("sanitizer", "auth: %s %s on op %s" % (kind, _sig(m.group(1)) if m else "", bad.split()[0]),
                                         herr[-1500:], [bad], "auth"))
            return None
        return hout, mout

    def judge(self, line, h, m, failures, stats, extra_oracle=None):
        """one case: oracle on the code's answer, then model-vs-code"""
        w = line.split()
        op = w[0]
        err = None
        try:
            if h.startswith("fault"):
                err = "harness: " + h
            elif op == "dparse":
                if w[2] in ("0", "x"):
                    err = oracle_dparse(unhx(w[1]), h)
                else:
                    # outside the caller's contract (str[str_len] is the NUL of the field value): sanity only;
                    # the dependence on that byte (F5b) is measured, the model must agree with the code
                    parse_dparse_line(h, unhx(w[1]))
                    if h == "fail" and ref_digest(unhx(w[1])) is not None:
                        stats["f5b_nonnul_terminator_rejects_in_grammar"] = stats.get("f5b_nonnul_terminator_rejects_in_grammar", 0) + 1
            elif op == "info":
                err = oracle_info(unhx(w[1]), h)
            elif op == "basic":
                err = oracle_basic(unhx(w[1]), h)
            elif op == "conn":
                hb, _, hi = h.partition(" ; ")
                err = oracle_basic(unhx(w[1]), hb) or oracle_info(unhx(w[1]), hi)
            elif op in ("algo", "qop"):
                err = oracle_algo(op, None if w[1] == "none" else unhx(w[1]), w[2] == "1", h)
            elif op == "find":
                err = oracle_find(w, h)
            elif op == "bparse":
                err = oracle_bparse(unhx(w[1]), h)
            elif op in ("basich", "infoh"):
                err = oracle_headers(op[0], parse_hdr_words(w[1:]), h)
            elif op == "connm":
                hb, _, hi = h.partition(" ; ")
                hs = [(1, b"Authorization", unhx(x)) for x in w[1:]]
                err = oracle_headers("b", hs, hb) or oracle_headers("i", hs, hi)
            elif op == "layout":
                err = oracle_layout(unhx(w[1]), h)
            elif op == "connq":
                err = oracle_connq(w, h)
            if err is None and extra_oracle is not None:
                err = extra_oracle(h)
        except Exception as ex:          # the oracle must never hide a case
            err = "oracle cannot interpret '%s': %r" % (h[:80], ex)
        stats["ops"][op] = stats["ops"].get(op, 0) + 1
        oc = h.split()[0] + ("-none" if " none" in h[:12] else "")
        stats["outcomes"][op + ":" + oc] = stats["outcomes"].get(op + ":" + oc, 0) + 1
        if err:
            failures.append(vlib.Failure("oracle", "auth %s: %s" % (op, _sig(err.split(" | ")[0])), err + " | code: " + h + " | model: " + m, [line], "auth"))
            return False
        if h != m:
            failures.append(vlib.Failure("diff", "auth: model/code differ on " + op, "code '%s' model '%s'" % (h, m), [line], "auth"))
            return False
        return True

    def explore(self, ctx, boost):
        rng = ctx.rng
        thorough = ctx.tier == "thorough"
        mult = (25 if thorough else 3) * (3 if boost else 1)
        failures = []
        stats = {"ops": {}, "outcomes": {}, "in_grammar": 0, "corruptions": 0, "corrupt_rejected": 0, "corrupt_changed_field": 0,
                 "corrupt_unchanged": 0, "term_none_no_read": 0, "term_none_asan_confirmed": 0, "nc_limit_waived": 0}
        streams = {}

        def add(name, line, extra=None):
            streams.setdefault(name, []).append((line, extra))

        # corpus first
        cdir = os.path.join(vlib.VERIF, "corpus", "auth")
        if os.path.isdir(cdir):
            for f in sorted(os.listdir(cdir)):
                for l in open(os.path.join(cdir, f)).read().splitlines():
                    if l.strip() and not l.startswith("#"):
                        add("corpus", l.strip())
        # 1. bounded-exhaustive: all rendering choices of 2-parameter credentials
        for s in two_param_exhaustive(ctx.tier):
            add("two_param_exhaustive", "dparse %s 0" % hx(s))
        # 2. get_rq_dauth_algo / _qop: escape masks x case
        for op, raw, q in algo_escape_cases(rng, ctx.tier):
            add("algo_qop_escapes", "%s %s %d" % (op, "none" if raw is None else hx(raw), q))
        # 3. random full credentials through the white-box parser and the API (fabricated connection)
        sems = []
        for i in range(3000 * mult):
            sem = rnd_semantic(rng)
            spans = []
            s = render_params(rng, sem, spans)
            sems.append((sem, s, spans))
            add("random_full", "dparse %s 0" % hx(s))
            sch = rnd_case(rng, b"digest", rng.choice(["mixed", "upper", "lower"])) if rng.random() < 0.2 else b"Digest"
            add("random_full", "info %s" % hx(sch + rng.choice([b" ", b" ", b"\t"]) + s))
        # 4. single-character corruption stream
        ncor = nsem = 0
        for sem, s, spans in sems[: (600 * mult)]:
            if not s or ref_digest(s) is None:
                continue
            positions = range(len(s)) if len(s) <= 24 else sorted(rng.sample(range(len(s)), 24))
            first_of_s = True
            for pos in positions:
                c = rng.choice(CORRUPT)
                if c == s[pos]:
                    continue
                t = s[:pos] + bytes([c]) + s[pos + 1:]
                if first_of_s:
                    add("corruption", "dparse %s 0" % hx(s), ("corrupt-orig", nsem))
                    first_of_s = False
                add("corruption", "dparse %s 0" % hx(t), ("corrupt", nsem, s, t, pos, spans))
                ncor += 1
            nsem += 1
        # 4b. the same, exhaustively over positions x corruption bytes, for short credentials whose quoted values
        #     contain text that looks like a further parameter (what a re-bracketing corruption would expose)
        for inner in (b"abX ,nonce=evil", b"ab ,uri=/evil", b"x,nc=00000009", b"a, qop=auth-int", b"q ,username=eve,"):
            for form in (0, 1):
                items = [(b"nonce", b'"good"'), (b"realm", b'"' + inner + b'"'), (b"nc", b"00000001" if form else b'"00000001"')]
                if form:
                    items = items[1:] + items[:1]
                tspans, ts = [], bytearray()
                for nm, body in items:
                    if ts:
                        ts += b", " if form else b","
                    st = len(ts)
                    ts += nm + b"="
                    vst = len(ts)
                    ts += body
                    tspans.append((SLOT[nm], st, len(ts), vst, body[:1] == b'"'))
                ts = bytes(ts)
                add("corruption", "dparse %s 0" % hx(ts), ("corrupt-orig", nsem))
                for pos in range(len(ts)):
                    for cb in sorted(set(CORRUPT)):
                        if cb != ts[pos]:
                            add("corruption", "dparse %s 0" % hx(ts[:pos] + bytes([cb]) + ts[pos + 1:]),
                                ("corrupt", nsem, ts, ts[:pos] + bytes([cb]) + ts[pos + 1:], pos, tspans))
                            ncor += 1
                nsem += 1
        # 5. Basic
        for v in basic_cases(rng, 2500 * mult):
            add("basic", "basic %s" % hx(v))
            r = ref_scheme(v, b"Basic")
            if r is not None and rng.random() < 0.5:
                add("basic", "bparse %s" % hx(r))
        for s in small_strings(b"A= \t,;\x00", 5 if thorough else 4):
            add("bparse_exhaustive", "bparse %s" % hx(s))
        # 6. header lookup
        for w in find_cases(rng, 1500 * mult):
            add("find", " ".join(w))
        # 7. scanner: bounded-exhaustive strings over a targeted alphabet, all three terminator situations
        alpha = b"nc=\"\\, ;\x00a"
        L = 5 if thorough else 4
        for s in small_strings(alpha, L):
            add("scanner_exhaustive", "dparse %s 0" % hx(s))
        for pre in (b"nc=", b"nc=\"", b"x=\""):
            for s in small_strings(alpha, L - 1):
                add("scanner_exhaustive", "dparse %s 0" % hx(pre + s))
        for s in small_strings(b"n=\"\\a;,", 3):
            for term in ("59", "97", "x"):
                add("terminator", "dparse %s %s" % (hx(b"nc" + s), term))
        for i in range(1500 * mult):
            s = rnd_wild(rng)
            add("wild", "dparse %s %s" % (hx(s), rng.choice(["0", "0", "59", "x", "34"])))
            if rng.random() < 0.3:
                add("wild", "info %s" % hx(b"Digest " + s))
        # 8. the real connection (glue): a few hundred cases
        nconn = 0
        for sem, s, spans in sems:
            if nconn >= (300 if not thorough else 1500):
                break
            v = (b"Digest " + s).strip(b" \t")
            if all(c not in (0, 10, 13) for c in v) and v:
                add("real_connection", "conn %s" % hx(v)); nconn += 1
        for i, v in enumerate(itertools.islice(basic_cases(rng, 400), 150 if not thorough else 600)):
            if i % 2 == 0:
                v = b"Basic " + base64.b64encode(rnd_bytes(rng, b"abcXYZ09 @.\xc3\xa4\xff", 1, 9) + b":" + rnd_bytes(rng, b"abc:XYZ09 \xff", 0, 9))
            v = v.strip(b" \t")
            if v and all(c not in (0, 10, 13) for c in v):
                add("real_connection", "conn %s" % hx(v))

        # 9. several request headers through both API entry points (fabricated connection; a few on a real one)
        hstats = {"lists": 0, "two_or_more_digest_headers": 0, "first_digest_header_broken_later_one_parses": 0,
                  "two_or_more_basic_headers": 0, "both_schemes_present": 0}
        nm_conn = 0
        for hs in header_list_cases(rng, sems, 700 * mult):
            ws = []
            for kind, nm, val in hs:
                ws += [str(kind), hx(nm), hx(val)]
            add("header_lists", "basich " + " ".join(ws))
            add("header_lists", "infoh " + " ".join(ws))
            hstats["lists"] += 1
            dm = [v for k, n, v in hs if k == 1 and n.lower() == b"authorization" and ref_scheme(v, b"Digest") is not None]
            bm = [v for k, n, v in hs if k == 1 and n.lower() == b"authorization" and ref_scheme(v, b"Basic") is not None]
            hstats["two_or_more_digest_headers"] += len(dm) >= 2
            hstats["two_or_more_basic_headers"] += len(bm) >= 2
            if len(dm) >= 2 and ref_digest(ref_scheme(dm[0], b"Digest")) is None and \
                    any(ref_digest(ref_scheme(x, b"Digest")) is not None for x in dm[1:]):
                hstats["first_digest_header_broken_later_one_parses"] += 1
            if dm and bm:
                hstats["both_schemes_present"] += 1
            vals = [v.strip(b" \t") for k, n, v in hs if k == 1 and n.lower() == b"authorization"]
            if nm_conn < (120 if not thorough else 600) and 2 <= len(vals) <= 8 and \
                    all(v and all(c not in (0, 10, 13) for c in v) for v in vals):
                add("real_connection", "connm " + " ".join(hx(v) for v in vals)); nm_conn += 1
        # 9b. the per-request cache on the real daemon: URI-log callback queries (before the header fields exist), then the
        #     handler queries in all three calls of a POST, every query twice; pipelined requests with other credentials
        qstats = {"cases": 0, "with_early_query": 0, "requests": 0, "requests_with_valid_basic": 0, "requests_with_in_grammar_digest": 0,
                  "pipelined_with_different_credentials": 0}
        for i in range((250 if not thorough else 1500)):
            reqs = []
            for _ in range(rng.choice([1, 1, 2, 2, 3])):
                vals = []
                for _ in range(rng.choice([0, 1, 1, 1, 2, 3])):
                    r = rng.random()
                    if r < 0.45:
                        v = b"Digest " + rng.choice(sems)[1]
                    elif r < 0.85:
                        v = b"Basic " + base64.b64encode(rnd_bytes(rng, b"abcXYZ09", 1, 6) + b":" + rnd_bytes(rng, b"abc:XYZ09", 0, 6))
                    else:
                        v = rng.choice([b"Digest nc=1;", b"Basic QTpC QTpC", b"Basicx QTpC", b"Digest", b"Negotiate abc", b"Basic ===="])
                    v = v.strip(b" \t")
                    if v and all(c not in (0, 10, 13) for c in v):
                        vals.append(v)
                reqs.append(vals)
            early = 1 if rng.random() < 0.7 else 0
            add("request_cache", "connq %d %s" % (early, " ".join(",".join(hx(v) for v in vs) if vs else "-" for vs in reqs)))
            qstats["cases"] += 1; qstats["with_early_query"] += early; qstats["requests"] += len(reqs)
            for vs in reqs:
                hs = [(1, b"Authorization", v) for v in vs]
                bv, dv = first_auth_value(hs, b"Basic"), first_auth_value(hs, b"Digest")
                qstats["requests_with_valid_basic"] += bv is not None and ref_basic(bv) is not None
                qstats["requests_with_in_grammar_digest"] += dv is not None and ref_digest(ref_scheme(dv, b"Digest")) is not None
            qstats["pipelined_with_different_credentials"] += len(reqs) > 1 and any(a != b for a, b in zip(reqs, reqs[1:]))
        # 10. layout of the block returned by the information API
        lstats = {"cases": 0, "userhash_odd_length": 0, "userhash_even_length": 0, "extended": 0, "empty_but_present_username": 0}
        for sem, s_, spans in sems[: 1500 * mult]:
            add("layout", "layout %s" % hx(b"Digest " + s_))
            lstats["cases"] += 1
            un = sem.get(b"username")
            if un is not None and sem.get(b"userhash", b"").lower() == b"true":
                lstats["userhash_odd_length" if len(un) % 2 else "userhash_even_length"] += 1
            if b"username*" in sem and b"username" not in sem:
                lstats["extended"] += 1
            if un == b"":
                lstats["empty_but_present_username"] += 1
        for n in range(0, 12):
            for ch in (b"a", b"g"):
                for form in (b'username=%s', b'username="%s"', b'username="\\%s"'):
                    if n == 0 and form != b'username="%s"':
                        continue
                    v = form % (ch * n)
                    for uh in (b", userhash=true", b", userhash=\"tru\\e\"", b""):
                        for tail in (b"", b", opaque=\"o\\\"p\", realm=r"):
                            add("layout", "layout %s" % hx(b"Digest " + v + uh + tail))
                            add("layout", "info %s" % hx(b"Digest " + v + uh + tail))
                            lstats["cases"] += 1
                            if uh:
                                lstats["userhash_odd_length" if n % 2 else "userhash_even_length"] += 1
                            if n == 0:
                                lstats["empty_but_present_username"] += 1
        q2 = b"'" + b"'"
        for ext in (b"UTF-8'", b"UTF-8" + q2, b"UTF-8" + q2 + b"'", b"UTF-8" + q2 + b"a", b"UTF-8'en'%41", b"UTF-8" + q2 + b"%4",
                    b"UTF-8" + q2 + b"%", b"utf-8" + q2 + b"a%20b%c3%a4", b"UTF-8'x"):
            for uh in (b"", b", userhash=true"):
                add("layout", "layout %s" % hx(b"Digest username*=" + ext + uh))
                add("layout", "info %s" % hx(b"Digest username*=" + ext + uh))
                lstats["cases"] += 1; lstats["extended"] += 1

        # ---- run
        evaluations = 0
        distinct = set()
        samples = []
        known_cache = {}
        for name, items in streams.items():
            # stop early only on failures that are not a registered known finding (those must not hide the
            # coverage of the remaining streams)
            fresh = 0
            for f in failures:
                if f.signature not in known_cache:
                    known_cache[f.signature] = f.concrete() and vlib.known_match(ctx.pid, f.signature) is not None
                fresh += not known_cache[f.signature]
            if fresh > 30:
                break
            lines = [l for l, _ in items]
            keep = list(range(len(lines)))
            if name in ("terminator", "wild"):
                # exact-size buffer cases: ask the model first which ones read str[str_len]
                mo, mrc, _ = vlib.run_lines(self.driver, lines)
                if mrc == 0 and len(mo) == len(lines):
                    faulting = [i for i in keep if mo[i].startswith("fault ") and lines[i].endswith(" x")]
                    keep = [i for i in keep if i not in set(faulting)]
                    for i in faulting[: (12 if thorough else 5)]:
                        ho, hrc, herr = vlib.run_lines(self.harness, [lines[i]])
                        evaluations += 1
                        if hrc != 0 and "heap-buffer-overflow" in herr:
                            stats["term_none_asan_confirmed"] += 1
                        else:
                            failures.append(vlib.Failure("diff", "auth: model predicts a read of str[str_len] that ASan does not see",
                                                         "model '%s' code '%s'" % (mo[i], " ".join(ho)), [lines[i]], "auth"))
            B = 20000
            for a in range(0, len(keep), B):
                idx = keep[a:a + B]
                res = self.run_both([lines[i] for i in idx], failures)
                if res is None:
                    continue
                hout, mout = res
                orig = {}
                for j, i in enumerate(idx):
                    line, extra = items[i]
                    h, m = hout[j], mout[j]
                    evaluations += 1
                    w = line.split()
                    if w[0] == "dparse" and w[2] == "x" and not m.startswith("fault"):
                        stats["term_none_no_read"] += 1
                    eo = None
                    if extra and extra[0] == "corrupt-orig":
                        orig[extra[1]] = h
                    elif extra and extra[0] == "corrupt":
                        eo = self.corruption_rule(orig.get(extra[1]), extra, stats)
                    if self.judge(line, h, m, failures, stats, eo):
                        if w[0] in ("dparse", "info", "conn", "infoh", "connm", "connq", "layout") and not h.startswith("fail") and "none" not in h[:10]:
                            distinct.add(line)
                    if w[0] == "dparse" and ref_digest(unhx(w[1])) is not None:
                        stats["in_grammar"] += 1
            if items:
                samples.append({"stream": name, "input": items[len(items) // 2][0][:300]})
        cov = {"evaluations": evaluations, "distinct_nontrivial": len(distinct),
               "rule": "distinct = different header values that the real code accepted as Digest credentials (white-box parser, "
                       "information API or real connection); every case is judged by the RFC reference reader first and then "
                       "compared with the Lean model line by line",
               "samples": samples[:8],
               "streams": {k: len(v) for k, v in streams.items()},
               "strength": {"two_param_exhaustive": "bounded-exhaustive: order x {lower,UPPER,alternating} name case x OWS placements x "
                                                    "{token, quoted, each single escape, all escaped}",
                            "algo_qop_escapes": "exhaustive over escape masks for tokens up to %d characters, random above" % (12 if thorough else 8),
                            "scanner_exhaustive": "bounded-exhaustive: all strings up to length %d over the 10-byte alphabet n c = \" \\ , SP ; NUL a "
                                                  "(plus three value prefixes)" % L,
                            "bparse_exhaustive": "bounded-exhaustive: all strings up to length %d over A = SP HT , ; NUL" % (5 if thorough else 4),
                            "random_full/corruption/basic/find/wild": "structured random",
                            "real_connection": "random, %d cases through MHD_add_connection + MHD_run" % len(streams.get("real_connection", []))},
               "ops": stats["ops"], "outcomes": stats["outcomes"],
               "in_grammar_dparse_cases": stats["in_grammar"],
               "corruption": {k: stats[k] for k in ("corruptions", "corrupt_rejected", "corrupt_changed_field", "corrupt_unchanged")}
               | {"corrupt_still_in_grammar_judged_by_reference": stats.get("corrupt_still_in_grammar", 0)},
               "header_lists": hstats, "layout": lstats, "request_cache": qstats,
               "cases_matching_a_registered_known_finding": sum(1 for f in failures if known_cache.get(f.signature)),
               "str_len_read": {"in_grammar_strings_rejected_because_str[str_len]_was_semicolon": stats.get("f5b_nonnul_terminator_rejects_in_grammar", 0),
                                "exact_buffer_cases_without_read": stats["term_none_no_read"],
                                "model_fault_confirmed_by_asan": stats["term_none_asan_confirmed"]},
               "exhaustive": False}
        return failures, cov

    def corruption_rule(self, orig_line, extra, stats):
        """single-character corruption: rejected, or only the parameter(s) the byte belongs to may change"""
        _, _, s, t, pos, spans = extra

        def rule(h):
            stats["corruptions"] += 1
            if orig_line is None:
                return None
            try:
                o = parse_dparse_line(orig_line, s)
                c = parse_dparse_line(h, t)
            except ValueError as ex:
                return str(ex)
            if c is None:
                stats["corrupt_rejected"] += 1
                return None
            if o is None:
                return None
            # region = extended span(s) (preceding comma .. start of the next item) of the item(s) the byte belongs to
            affected, first_item, r_lo, r_hi = set(), len(spans), len(s), 0
            prevalue = False
            for k, (slot, a, b, vs, qform) in enumerate(spans):
                lo = spans[k - 1][2] if k else 0
                hi = spans[k + 1][1] if k + 1 < len(spans) else len(s)
                if lo <= pos < hi:
                    affected.add(slot)
                    first_item = min(first_item, k)
                    r_lo, r_hi = min(r_lo, lo), max(r_hi, hi)
                    if qform and a <= pos <= vs:
                        prevalue = True      # the opening quote may no longer stand at the value start
            # a corrupted string that is itself a credential string of the grammar (e.g. a ',' written into an
            # unquoted value that contains '=': a different valid header) is judged by the reference reader alone
            # (repeated parameters: last occurrence); everything else the code accepts must leave every
            # parameter outside the corrupted item(s) alone — no waiver for quotes, backslashes or commas
            ref_t = ref_digest(t, dups=True)
            if ref_t is not None:
                stats["corrupt_still_in_grammar"] = stats.get("corrupt_still_in_grammar", 0) + 1
                return compare_with_ref(c, ref_t)
            changed = False
            for k in range(12):
                if k in (2, 11):
                    continue
                a = o["slots"].get(k, (None,))[0]
                b = c["slots"].get(k, (None,))[0]
                if a != b:
                    changed = True
                    # the corrupted item itself may now be read as another parameter (cnonce -> ",nonce")
                    from_region = k in c["slots"] and r_lo <= c["slots"][k][1] <= r_hi
                    if k not in affected and not from_region:
                        # how did the scanner get through the re-bracketed string?  through an unquoted value of a
                        # known parameter that contains a DQUOTE (F35), or through the unknown-element skipper
                        via_token = any(off > 0 and t[off - 1] != 0x22 and 0x22 in t[off:off + ln]
                                        for (_, off, ln, _q) in c["slots"].values())
                        how = "accepted a quotation mark inside an unquoted value" if via_token else \
                            "skipped the re-bracketed rest as an unknown element"
                        return "corruption outside the grammar %s and changed an unrelated parameter | byte %d of %r: %s %r -> %r" % (
                            how, pos, s, KNOWN[k].decode(), a, b)
            if not (affected & {None}) and len(affected) < 12:
                for f, k in (("algo", 2), ("qop", 8), ("uh", 11)):
                    if o[f] != c[f]:
                        changed = True
                        if k not in affected and not any(KNOWN[k][1:] == KNOWN[j] or KNOWN[k] == KNOWN[j][:-1] for j in affected if j is not None):
                            via_token = any(off > 0 and t[off - 1] != 0x22 and 0x22 in t[off:off + ln]
                                            for (_, off, ln, _q) in c["slots"].values())
                            how = "accepted a quotation mark inside an unquoted value" if via_token else \
                                "skipped the re-bracketed rest as an unknown element"
                            return "corruption outside the grammar %s and changed an unrelated parameter | byte %d of %r: field %s %d -> %d" % (
                                how, pos, s, f, o[f], c[f])
            stats["corrupt_changed_field" if changed else "corrupt_unchanged"] += 1
            return None
        return rule


def replay(ctx, path):
    r = json.load(open(path))
    sp = Spec(); sp.gen(ctx); vlib.lake_build(sp.lean_targets); sp.build(ctx)
    fl = []
    stats = {"ops": {}, "outcomes": {}, "corruptions": 0, "corrupt_rejected": 0, "corrupt_changed_field": 0, "corrupt_unchanged": 0}
    lines = r.get("input") or []
    if not lines:
        print("replay file has no concrete input:", r.get("no_longer_checks"))
        return 1
    hout, hrc, herr = vlib.run_lines(sp.harness, lines)
    mout, _, _ = vlib.run_lines(sp.driver, lines)
    if hrc != 0:
        print("sanitizer", herr[-1500:])
        return 1
    for l, h, m in zip(lines, hout, mout):
        print("input:", l); print("code :", h); print("model:", m)
        sp.judge(l, h, m, fl, stats)
    for f in fl:
        print(f.kind, f.signature, f.detail)
    return 1 if fl else 0
