"""C17 — text/number codecs of mhd_str.c.  Engine `str`.

Line protocol (one function call per line, byte strings in hex, "-" = empty):
  d64|d64n|x32|x32n|x64|x64n <s>      parse (z-terminated / length-limited)   -> r=<n> [v=<val>]
  p32x|p16|p64 <val> <size>           print into exact-size buffer            -> r=<n> o=<hex>
  p8 <val> <pad> <size>
  b2h <s>   h2b <s>   unq <s>         output buffer of the documented size
  pcs|pcl <s> <size>                  percent-decode strict/lenient (copying) -> r= o= [b=]
  pis|pil <s>                         in place on s+NUL                        -> r= o= z= [b=]
  quo <s> <size>   b64 <s> <size>
  eqq|eqqc <quoted> <unquoted>        eqc <a> <b>   eqcn <a> <b> <maxlen>   eqcb <a> <b>
  tok <str> <token>   rmt <str> <token> <size>   rmts <str> <tokens>
  xd <c>   ceq <c1> <c2>              toxdigitvalue / charsequalcaseless
"""
import itertools, json, os, re, multiprocessing
import vlib, extract

W64 = 1 << 64
ALPHABET = [0x30, 0x39, 0x61, 0x66, 0x46, 0x67, 0x25, 0x5c, 0x22, 0x2c, 0x20, 0x09, 0x00, 0x3d, 0x2b, 0x2f, 0x80, 0xff]
ALPHABET6 = [0x30, 0x61, 0x46, 0x25, 0x5c, 0x22, 0x2c, 0x20]     # sub-alphabet used for length 6 (thorough)
TOKENS = [b"a", b"af", b"A", b"fa", b"%", b"\xff"]
RM_TOKENS = [b"a", b"af"]


def hx(b):
    return b.hex() if b else "-"


def unhx(w):
    return b"" if w == "-" else bytes.fromhex(w)


# ------------------------------------------------------------------ translator (A)

def gen_str():
    from extract import c_eval, src, prev_value, HEADER, GEN
    pre = '#include "MHD_config.h"\n#include "mhd_str.c"\n'
    v = c_eval(pre, [("x%d" % c, "%d", "toxdigitvalue ((char) (unsigned char) %d)" % c) for c in range(256)]
               + [("ssize_max", "%zu", "(size_t) SSIZE_MAX"), ("u64max", "%llu", "(unsigned long long) UINT64_MAX"),
                  ("u32max", "%llu", "(unsigned long long) UINT32_MAX"), ("szt", "%zu", "sizeof(size_t)")])
    xt = [int(v["x%d" % c]) for c in range(256)]
    text = src("src/microhttpd/mhd_str.c")
    # base64 map: the initializer of `map[]` as the configured build sees it (preprocessed)
    b64 = None
    r = vlib.sh(["gcc", "-E", "-P"] + vlib.CFLAGS_COMMON + [os.path.join(vlib.REPO, "src/microhttpd/mhd_str.c")])
    if r.returncode == 0:
        m = re.search(r"static\s+const\s+\w+\s+map\s*\[\s*\]\s*=\s*\{([^}]*)\}", r.stdout)
        if m:
            vals = [int(x) for x in re.findall(r"-?\d+", m.group(1))]
            if len(vals) == 256:
                b64 = vals
    if b64 is None:
        try:
            old = open(os.path.join(GEN, "Str.lean")).read()
            b64 = [int(x) for x in re.findall(r"-?\d+", re.search(r"def base64Map : List Int :=\s*\[([^\]]*)\]", old).group(1))]
        except (OSError, AttributeError):
            raise RuntimeError("base64 map not found in mhd_str.c and no previous Gen value")
    m = re.search(r"uint64_t\s+divisor\s*=\s*UINT64_C\s*\(\s*(\d+)\s*\)", text)
    d64 = m.group(1) if m else prev_value("Str.lean", "dec64Divisor", "10000000000000000000")
    m = re.search(r"uint16_t\s+divisor\s*=\s*UINT16_C\s*\(\s*(\d+)\s*\)", text)
    d16 = m.group(1) if m else prev_value("Str.lean", "dec16Divisor", "10000")

    def tbl(xs):
        return "[" + ",\n  ".join(", ".join(str(x) for x in xs[i:i + 16]) for i in range(0, 256, 16)) + "]"
    out = HEADER % "src/microhttpd/mhd_str.c" + "namespace Mhd.Gen.Str\n" \
        + "/-- `toxdigitvalue (c)` for c = 0..255, obtained by calling the compiled function -/\n" \
        + "def xdigitTable : List Int :=\n  %s\n" % tbl(xt) \
        + "/-- `map[]` of `MHD_base64_to_bin_n` as compiled (-1 invalid, -2 padding) -/\n" \
        + "def base64Map : List Int :=\n  %s\n" % tbl(b64) \
        + "def ssizeMax : Nat := %s\n" % v["ssize_max"] \
        + "def uint64Max : Nat := %s\n" % v["u64max"] \
        + "def uint32Max : Nat := %s\n" % v["u32max"] \
        + "def sizeofSizeT : Nat := %s\n" % v["szt"] \
        + "def dec64Divisor : Nat := %s\n" % d64 \
        + "def dec16Divisor : Nat := %s\n" % d16 \
        + "end Mhd.Gen.Str\n"
    return vlib.write_if_changed(os.path.join(GEN, "Str.lean"), out)


# --------------------------------------------- reference implementations (oracle side)
# Written from the documentation of mhd_str.h / the RFCs; they know nothing about the model.

DIG = b"0123456789"
HEXD = b"0123456789abcdefABCDEF"
WS = b" \t"


def cstr(s):
    i = s.find(b"\0")
    return s if i < 0 else s[:i]


def lower(s):
    return bytes(c + 32 if 65 <= c <= 90 else c for c in s)


def ceq(a, b):
    return lower(a) == lower(b)


def ref_parse(s, digits, base, limit):
    n = 0
    while n < len(s) and s[n] in digits:
        n += 1
    if n == 0:
        return "r=0"
    val = int(s[:n].decode(), base)
    if val >= limit:
        return "r=0"
    return "r=%d v=%d" % (n, val)


def ref_print(txt, size):
    return "r=%d o=%s" % (len(txt), hx(txt)) if 0 < len(txt) <= size else "r=0 o=-"


def ref_pct_strict(s):
    out, i = bytearray(), 0
    while i < len(s):
        if s[i] == 0x25:
            if i + 2 >= len(s) or s[i + 1] not in HEXD or s[i + 2] not in HEXD:
                return None
            out.append(int(s[i + 1:i + 3].decode(), 16)); i += 3
        else:
            out.append(s[i]); i += 1
    return bytes(out)


def ref_pct_lenient(s):
    out, i, broken = bytearray(), 0, False
    while i < len(s):
        if s[i] == 0x25:
            if i + 2 < len(s) and s[i + 1] in HEXD and s[i + 2] in HEXD:
                out.append(int(s[i + 1:i + 3].decode(), 16)); i += 3
                continue
            broken = True
        out.append(s[i]); i += 1
    return bytes(out), broken


def ref_unquote(q):
    out, i = bytearray(), 0
    while i < len(q):
        if q[i] == 0x5c:
            i += 1
            if i == len(q):
                return None
        out.append(q[i]); i += 1
    return bytes(out)


def ref_quote(u):
    out = bytearray()
    for c in u:
        if c in (0x5c, 0x22):
            out.append(0x5c)
        out.append(c)
    return bytes(out)


B64 = b"ABCDEFGHIJKLMNOPQRSTUVWXYZabcdefghijklmnopqrstuvwxyz0123456789+/"


def ref_b64(s):
    """RFC 4648 section 4 decoder, padding mandatory, non-canonical trailing bits rejected"""
    if len(s) % 4:
        return None
    out = bytearray()
    for g in range(0, len(s), 4):
        q = s[g:g + 4]
        last = g + 4 == len(s)
        pad = 0
        if last and q[3] == 0x3d:
            pad = 2 if q[2] == 0x3d else 1
        v = []
        for c in q[:4 - pad]:
            k = B64.find(bytes([c]))
            if k < 0:
                return None
            v.append(k)
        if pad == 0:
            n = (v[0] << 18) | (v[1] << 12) | (v[2] << 6) | v[3]
            out += bytes([n >> 16, (n >> 8) & 255, n & 255])
        elif pad == 1:
            if v[2] & 3:
                return None
            n = (v[0] << 18) | (v[1] << 12) | (v[2] << 6)
            out += bytes([n >> 16, (n >> 8) & 255])
        else:
            if v[1] & 15:
                return None
            out += bytes([((v[0] << 18) | (v[1] << 12)) >> 16])
    return bytes(out)


def token_ok(t):
    return len(t) > 0 and not any(c in (0, 0x20, 0x09, 0x2c) for c in t)


def elems(s):
    return [e.strip(WS) for e in s.split(b",")]


def norm_elem(e):
    return b" ".join(w for w in re.split(rb"[ \t]+", e) if w)


def ref_remove_token(s, t):
    keep, removed = [], False
    for e in elems(s):
        if not e:
            continue
        if ceq(e, t):
            removed = True
        else:
            keep.append(norm_elem(e))
    return b", ".join(keep), removed


def normalised(s):
    if not s:
        return True
    for e in s.split(b", "):
        if not e or b"," in e or b"\t" in e or b"  " in e or e[0] in WS or e[-1] in WS:
            return False
    return True


def ref_remove_tokens(s, tokens):
    tl = [t for t in elems(tokens) if t]
    if not s:
        return s, False
    el = s.split(b", ")
    keep = [e for e in el if not any(ceq(e, t) for t in tl)]
    return b", ".join(keep), len(keep) != len(el)


def expected(w):
    """w: op words.  Returns the exact expected output line, a tuple of acceptable
    lines, or None when the call is outside the documented domain (no judgement)."""
    op = w[0]
    if op in ("d64", "x64", "x32"):
        s = cstr(unhx(w[1]))
        return ref_parse(s, DIG, 10, W64) if op == "d64" else ref_parse(s, HEXD, 16, W64 if op == "x64" else 1 << 32)
    if op == "d64n":
        return ref_parse(unhx(w[1]), DIG, 10, W64)
    if op in ("x64n", "x32n"):
        return ref_parse(unhx(w[1]), HEXD, 16, W64 if op == "x64n" else 1 << 32)
    if op == "p32x":
        return ref_print(b"%X" % int(w[1]), int(w[2]))
    if op in ("p16", "p64"):
        return ref_print(b"%d" % int(w[1]), int(w[2]))
    if op == "p8":
        return ref_print(b"%0*d" % (max(int(w[2]), 1), int(w[1])), int(w[3]))
    if op == "b2h":
        s = unhx(w[1])
        return "r=%d o=%s" % (2 * len(s), hx(s.hex().encode()))
    if op == "h2b":
        s = unhx(w[1])
        if not s or any(c not in HEXD for c in s):
            return "r=0 o=-"
        d = bytes.fromhex(("0" if len(s) % 2 else "") + s.decode())
        return "r=%d o=%s" % (len(d), hx(d))
    if op == "pcs":
        d = ref_pct_strict(unhx(w[1]))
        return ref_print(d, int(w[2])) if d else "r=0 o=-"
    if op == "pcl":
        d, br = ref_pct_lenient(unhx(w[1]))
        if 0 < len(d) <= int(w[2]):
            return "r=%d o=%s b=%d" % (len(d), hx(d), br)
        if not d:
            return "r=0 o=- b=0"
        return ("r=0 o=- b=0", "r=0 o=- b=1")   # flag unspecified when the buffer is too small
    if op == "pis":
        d = ref_pct_strict(cstr(unhx(w[1])))
        return "r=0 o=- z=1" if d is None else "r=%d o=%s z=1" % (len(d), hx(d))
    if op == "pil":
        d, br = ref_pct_lenient(cstr(unhx(w[1])))
        return "r=%d o=%s z=1 b=%d" % (len(d), hx(d), br)
    if op == "eqq":
        return "r=%d" % (ref_unquote(unhx(w[1])) == unhx(w[2]))
    if op == "eqqc":
        u = ref_unquote(unhx(w[1]))
        return "r=%d" % (u is not None and ceq(u, unhx(w[2])))
    if op == "unq":
        u = ref_unquote(unhx(w[1]))
        return "r=%d o=%s" % (len(u), hx(u)) if u else "r=0 o=-"
    if op == "quo":
        return ref_print(ref_quote(unhx(w[1])), int(w[2]))
    if op == "b64":
        d = ref_b64(unhx(w[1]))
        return ref_print(d, int(w[2])) if d else "r=0 o=-"
    if op == "eqc":
        return "r=%d" % ceq(cstr(unhx(w[1])), cstr(unhx(w[2])))
    if op == "eqcn":
        k = int(w[3])
        return "r=%d" % ceq(cstr(unhx(w[1]))[:k], cstr(unhx(w[2]))[:k])
    if op == "eqcb":
        return "r=%d" % ceq(unhx(w[1]), unhx(w[2]))
    if op == "tok":
        t = unhx(w[2])
        if not t:
            return "r=0"
        if not token_ok(t):
            return None
        return "r=%d" % any(ceq(e, t) for e in elems(cstr(unhx(w[1]))))
    if op == "rmt":
        s, t, size = unhx(w[1]), unhx(w[2]), int(w[3])
        if not token_ok(t):
            return None
        o, rem = ref_remove_token(s, t)
        return "r=%d n=%d o=%s" % (rem, len(o), hx(o)) if len(o) <= size else "r=0 n=-1"
    if op == "rmts":
        s, tk = unhx(w[1]), unhx(w[2])
        if not normalised(s) or 0 in tk:
            return None
        o, rem = ref_remove_tokens(s, tk)
        return "r=%d o=%s" % (rem, hx(o))
    if op == "xd":
        c = int(w[1])
        return "r=%d" % (int(chr(c), 16) if c in HEXD else -1)
    if op == "ceq":
        return "r=%d" % ceq(bytes([int(w[1])]), bytes([int(w[2])]))
    return None


# ------------------------------------------------------------------------ generators

def swapcase(s):
    return bytes(c ^ 32 if (65 <= c <= 90 or 97 <= c <= 122) else c for c in s)


def lines_for_string(s, full=True):
    """every string function on `s`; output sizes run over the whole interesting range"""
    h, n = hx(s), len(s)
    L = ["d64 " + h, "d64n " + h, "x32 " + h, "x32n " + h, "x64 " + h, "x64n " + h, "b2h " + h, "h2b " + h,
         "pis " + h, "pil " + h, "unq " + h]
    if full:
        for k in range(n + 2):
            L.append("pcs %s %d" % (h, k)); L.append("pcl %s %d" % (h, k))
        for k in range(2 * n + 2):
            L.append("quo %s %d" % (h, k))
        for k in range((n // 4 * 3 + 2) if (n and n % 4 == 0) else 1):
            L.append("b64 %s %d" % (h, k))
    else:
        d = ref_pct_lenient(s)[0]
        q = ref_quote(s)
        for k in sorted({len(d) - 1, len(d), n} - {-1}):
            L.append("pcs %s %d" % (h, k)); L.append("pcl %s %d" % (h, k))
        for k in sorted({len(q) - 1, len(q), 2 * n} - {-1}):
            L.append("quo %s %d" % (h, k))
        if n and n % 4 == 0:
            for k in (n // 4 * 3 - 2, n // 4 * 3 - 1, n // 4 * 3):
                L.append("b64 %s %d" % (h, k))
    u = ref_unquote(s)
    us = {s, s[:-1], s + b"a"}
    if u is not None:
        us |= {u, swapcase(u), u[:-1], u + b"a"}
    for x in sorted(us):
        L.append("eqq %s %s" % (h, hx(x))); L.append("eqqc %s %s" % (h, hx(x)))
    for x in sorted({s, swapcase(s), s[:-1], s + b"a", s[:-1] + b"g"}):
        L.append("eqc %s %s" % (h, hx(x)))
        L.append("eqcn %s %s %d" % (h, hx(x), n)); L.append("eqcn %s %s %d" % (h, hx(x), max(n - 1, 0)))
        if len(x) == n:
            L.append("eqcb %s %s" % (h, hx(x)))
    for t in TOKENS:
        L.append("tok %s %s" % (h, hx(t)))
    for t in (RM_TOKENS if full else RM_TOKENS[:1]):
        o = ref_remove_token(s, t)[0]
        for k in (range(n + n // 2 + 3) if full else sorted({len(o) - 1, len(o), n + n // 2 + 2} - {-1})):
            L.append("rmt %s %s %d" % (h, hx(t), k))
    ns = ref_remove_token(s, b"\x01")[0]
    if ns:
        for tk in sorted({b"a", b"af", b"a, af", s, b"fa ,,\ta"}):
            if 0 not in tk:
                L.append("rmts %s %s" % (hx(ns), hx(tk)))
    return L


def gen_chars():
    L = ["xd %d" % c for c in range(256)]
    L += ["ceq %d %d" % (a, b) for a in range(256) for b in range(256)]
    L += ["p8 %d %d %d" % (v, p, k) for v in range(256) for p in range(4) for k in range(5)]
    return L


def gen_u16(lo, hi):
    return ["p16 %d %d" % (v, k) for v in range(lo, hi) for k in range(7)]


def interesting_numbers(rng, bits, count):
    lim = 1 << bits
    xs = {0, 1, lim - 1, lim - 2, lim // 2}
    for b in (10, 16):
        p = 1
        while p < lim * b:
            for d in (-2, -1, 0, 1, 2):
                xs.add(p + d); xs.add(p * 9 + d); xs.add(p * 15 + d)
            p *= b
    for _ in range(count):
        k = rng.randint(1, bits)
        xs.add(rng.getrandbits(k))
    return sorted(x for x in xs if x >= 0)


def gen_numbers(rng, count):
    L = []
    for v in interesting_numbers(rng, 64, count):
        dec, hexu = b"%d" % v, b"%X" % v
        if v < W64:
            for k in {0, len(dec) - 1, len(dec), len(dec) + 1, 20, 21}:
                L.append("p64 %d %d" % (v, k))
        if v < 1 << 32:
            for k in {0, len(hexu) - 1, len(hexu), 8, 9}:
                L.append("p32x %d %d" % (v, k))
        for txt in (dec, b"0" + dec, b"00000000000000000000" + dec, dec + b"0"):
            for tail in (b"", b" ", b"a", b"\0" + b"9", b":"):
                L.append("d64 " + hx(txt + tail)); L.append("d64n " + hx(txt + tail))
        for txt in (hexu, hexu.lower(), b"0" + hexu, b"0000000000000000" + hexu, hexu + b"0", hexu + b"F"):
            for tail in (b"", b"g", b"G", b" ", b"\0" + b"1"):
                for op in ("x32", "x32n", "x64", "x64n"):
                    L.append(op + " " + hx(txt + tail))
    return L


def rand_bytes(rng, n, alphabet):
    return bytes(rng.choice(alphabet) for _ in range(n))


def gen_long(rng, count):
    """long / structured random strings for every string function"""
    import base64 as b64mod
    L = []
    ab = bytes(ALPHABET) + b"bcdeABCDE12345678%%%%\\\\\"\",, "
    for i in range(count):
        n = rng.choice([5, 6, 7, 8, 9, 12, 16, 17, 31, 32, 33, 64, 100, 255, 256, 300])
        s = rand_bytes(rng, n, ab)
        h = hx(s)
        kind = i % 6
        if kind == 0:      # percent-encoded text, mostly valid
            parts = []
            for _ in range(n // 2):
                r = rng.random()
                if r < 0.5:
                    parts.append(b"%%%02x" % rng.randrange(256) if rng.random() < 0.5 else b"%%%02X" % rng.randrange(256))
                elif r < 0.9:
                    parts.append(bytes([rng.choice(b"abcXYZ019-_.~/+ ")]))
                else:
                    parts.append(rng.choice([b"%", b"%%", b"%g1", b"%1g", b"%\0", b"%4"]))
            s = b"".join(parts) + rng.choice([b"", b"", b"%", b"%4", b"%41"])
            d = ref_pct_lenient(s)[0]
            for k in {0, len(d) - 1, len(d), len(s), len(s) + 1, len(d) // 2}:
                if k >= 0:
                    L.append("pcs %s %d" % (hx(s), k)); L.append("pcl %s %d" % (hx(s), k))
            L.append("pis " + hx(s)); L.append("pil " + hx(s))
        elif kind == 1:    # quoting
            q = ref_quote(s)
            for k in {0, len(q) - 1, len(q), len(q) + 1, 2 * n, 2 * n - 1, n, n - 1}:
                if k >= 0:
                    L.append("quo %s %d" % (h, k))
            L.append("unq " + hx(q)); L.append("unq " + h)
            for x in (s, swapcase(s), s[:-1], s + b"a"):
                L.append("eqq %s %s" % (hx(q), hx(x))); L.append("eqqc %s %s" % (hx(q), hx(x)))
                L.append("eqq %s %s" % (h, hx(x))); L.append("eqqc %s %s" % (h, hx(x)))
        elif kind == 2:    # base64: valid encodings and single-character mutations
            raw = rand_bytes(rng, rng.choice([1, 2, 3, 4, 5, 6, 7, 30, 31, 32, 98, 99, 100]), range(256))
            e = b64mod.b64encode(raw)
            cands = [e]
            m = bytearray(e); j = rng.randrange(len(m)); m[j] = rng.choice(b"=-_ \0\x80Aa0+/"); cands.append(bytes(m))
            m = bytearray(e); m[-1] = rng.choice(B64 + b"="); cands.append(bytes(m))
            if len(e) >= 2:
                m = bytearray(e); m[-2] = rng.choice(B64 + b"="); cands.append(bytes(m))
            cands.append(e[:-1]); cands.append(e + b"====")
            for c in cands:
                mx = len(c) // 4 * 3
                for k in {0, mx - 3, mx - 2, mx - 1, mx, mx + 1, len(raw), len(raw) - 1}:
                    if k >= 0:
                        L.append("b64 %s %d" % (hx(c), k))
        elif kind == 3:    # hex
            e = rand_bytes(rng, n, b"0123456789abcdefABCDEF")
            if rng.random() < 0.3:
                m = bytearray(e); m[rng.randrange(n)] = rng.choice(b"gG/:@`\0\xff"); e = bytes(m)
            L.append("h2b " + hx(e)); L.append("b2h " + h)
            L.append("h2b " + hx(s.hex().encode()))
        elif kind == 4:    # comparison
            x = swapcase(s) if rng.random() < 0.5 else s
            if rng.random() < 0.5:
                m = bytearray(x); m[rng.randrange(n)] ^= rng.choice([1, 32, 128]); x = bytes(m)
            for k in (0, 1, n - 1, n, n + 1, 1 << 40):
                L.append("eqcn %s %s %d" % (h, hx(x), k))
            L.append("eqc %s %s" % (h, hx(x))); L.append("eqcb %s %s" % (h, hx(x)))
        else:              # token lists
            words = [b"close", b"Keep-Alive", b"upgrade", b"chunked", b"clos", b"closed", b"a", b"", b"c", b"keep alive",
                     b"CLOSE", b"close x", b"close \t x"]
            parts = []
            for _ in range(rng.randint(0, 7)):
                parts.append(rng.choice([b"", b" ", b"\t", b"  "]) + rng.choice(words) + rng.choice([b"", b" ", b"\t ", b"  "]))
            s = rng.choice([b",", b", ", b" ,", b",,"]).join(parts) if rng.random() < 0.3 else b",".join(parts)
            for t in (b"close", b"keep-alive", b"c", b"Upgrade", rng.choice(words).replace(b" ", b"").replace(b"\t", b"") or b"x"):
                L.append("tok %s %s" % (hx(s), hx(t)))
                o = ref_remove_token(s, t)[0]
                for k in {0, len(o) - 1, len(o), len(o) + 1, len(s) * 3 // 2 + 3}:
                    if k >= 0:
                        L.append("rmt %s %s %d" % (hx(s), hx(t), k))
            ns = ref_remove_token(s, b"\x01")[0]
            for tk in (b"close", b"close, keep-alive", b"Upgrade ,\tCLOSE,,", s, b"keep alive, a, c", b""):
                L.append("rmts %s %s" % (hx(ns), hx(tk)))
    return L


def gen_rm(rng, count):
    """token removal, both functions: element lists built from words that contain the token as a
    proper prefix / with inner blanks / empty elements; `rmt` with EVERY buffer size 0..len+2,
    `rmts` on the normalised form against several token lists"""
    L = []
    toks = [b"close", b"a", b"Keep-Alive", b"x-y"]
    for _ in range(count):
        t = rng.choice(toks)
        words = [t, swapcase(t), t + b"d", t[:-1] or b"q", t + b" x", t + b"\t \tx", t + b"  " + t, b"b " + t, b"", b" ", b"\t",
                 b"up  grade", b"z", t + t, b"a\tb  c"]
        parts = []
        for _ in range(rng.randint(0, 5)):
            parts.append(rng.choice([b"", b" ", b"\t", b" \t"]) + rng.choice(words) + rng.choice([b"", b" ", b"\t", b"  "]))
        s = b",".join(parts)
        for k in range(len(s) + 3):
            L.append("rmt %s %s %d" % (hx(s), hx(t), k))
        ns = ref_remove_token(s, b"\x01")[0]
        el = ns.split(b", ") if ns else []
        lists = {t, t + b"," + b"z", b" , " + swapcase(t) + b" ,\t" + b"up  grade", b"zz,q", b"", b",, ,",
                 (rng.choice(el) if el else b"n"), b" , ".join(el[::2]), (el[-1][:-1] if el and len(el[-1]) > 1 else b"w")}
        for tk in sorted(lists):
            L.append("rmts %s %s" % (hx(ns), hx(tk)))
    return L


_RMT_MEMO = [None, None, 0, 0]


def rm_classify(w, h, c):
    """input-class counters for the two removal functions (c: dict name -> count); `h` = what the real code returned"""
    def bump(k):
        c[k] = c.get(k, 0) + 1
    if w[0] == "rmt":
        size = int(w[3])
        key = (w[1], w[2])
        if _RMT_MEMO[0] != key:      # the same (string, token) comes with many sizes: classify it once
            s, t = unhx(w[1]), unhx(w[2])
            fl = []
            if token_ok(t):
                el = elems(s)
                if any(len(e) > len(t) and ceq(e[:len(t)], t) for e in el):
                    fl.append("rmt.token_is_proper_prefix_of_an_element")
                if any(len(e) > len(t) and ceq(e[:len(t)], t) and e[len(t)] in WS for e in el):
                    fl.append("rmt.token_then_blank_then_more(F17c shape)")
                if any(norm_elem(e) != e for e in el):
                    fl.append("rmt.element_with_inner_blank_run_to_normalise")
                if any(b" " in norm_elem(e) for e in el):
                    fl.append("rmt.element_with_inner_blank")
                if any(not e for e in el) and s:
                    fl.append("rmt.empty_element")
                if any(ceq(e, t) for e in el):
                    fl.append("rmt.token_present")
                need = len(ref_remove_token(s, t)[0])
                if need > len(s):
                    fl.append("rmt.output_longer_than_input")
                _RMT_MEMO[:] = [key, fl, need, len(s)]
            else:
                _RMT_MEMO[:] = [key, None, 0, 0]
        _, fl, need, n = _RMT_MEMO
        if fl is None:
            bump("rmt.token_outside_domain"); return
        bump("rmt.calls")
        for k in fl:
            bump(k)
        bump("rmt.size_lt_need" if size < need else "rmt.size_eq_need" if size == need else "rmt.size_gt_need")
        if size == 0:
            bump("rmt.size_0")
        if size == n + 2:
            bump("rmt.size_len_plus_2")
        if h.startswith("r=0 n=-1"):
            bump("rmt.reported_too_small")
    elif w[0] == "rmts":
        s, tk = unhx(w[1]), unhx(w[2])
        if not normalised(s) or 0 in tk:
            bump("rmts.outside_domain"); return
        el = s.split(b", ") if s else []
        tl = [t for t in elems(tk) if t]
        bump("rmts.calls")
        if any(len(e) > len(t) and ceq(e[:len(t)], t) for e in el for t in tl):
            bump("rmts.token_is_proper_prefix_of_an_element")
        if any(b" " in e for e in el):
            bump("rmts.element_with_inner_blank")
        if any(not t for t in elems(tk)) and tk:
            bump("rmts.empty_token_in_list")
        if any(b" " in t or b"\t" in t for t in tl):
            bump("rmts.token_with_inner_blank")
        n_rm = sum(1 for e in el if any(ceq(e, t) for t in tl))
        bump("rmts.removed_none" if n_rm == 0 else "rmts.removed_all" if n_rm == len(el) else "rmts.removed_some")
        if len(tl) > 1:
            bump("rmts.several_tokens")
        if any(len(s) == len(t) for t in tl):
            bump("rmts.token_as_long_as_string")
        if any(len(t) < len(s) <= len(t) + 2 for t in tl):
            bump("rmts.string_at_most_2_longer_than_token")


# --------------------------------------------------------------------------- checking

def sig_of(text):
    return re.sub(r"\d+", "N", text)[:160]


def field_diff(a, b):
    """names of the output fields (r, v, o, n, z, b) in which two result lines differ"""
    da = dict(x.split("=", 1) for x in a.split() if "=" in x)
    db = dict(x.split("=", 1) for x in b.split() if "=" in x)
    return ",".join(k for k in sorted(set(da) | set(db)) if da.get(k) != db.get(k)) or "text"


def san_summary(stderr):
    m = re.search(r"SUMMARY: (\w+): ([\w-]+) \S*?([\w.]+):\d+ in (\w+)", stderr)
    if m:
        return "%s %s in %s" % (m.group(1), m.group(2), m.group(4))
    m = re.search(r"runtime error: ([^\n]{0,80})", stderr)
    if m:
        return "UBSan " + m.group(1)
    m = re.search(r"SUMMARY: ([^\n]{0,100})", stderr)
    return m.group(1) if m else "harness died"


def check_lines(harness, driver, lines, max_fail=8):
    """run the lines through the real code and the model, judge every line.
    returns (failures as tuples, stats dict)"""
    fails, stats = [], {}
    hout, pos, aborts = [], 0, 0
    while pos < len(lines):
        out, rc, err = vlib.run_lines(harness, lines[pos:])
        hout += out
        if rc == 0 and len(out) == len(lines) - pos:
            break
        bad = pos + len(out)
        if bad >= len(lines):      # all lines answered but the process failed (leak report, ...)
            fails.append(("sanitizer", "str: " + sig_of(san_summary(err)) + " at exit", err[-1200:], lines[-3:]))
            break
        op = lines[bad].split()[0]
        fails.append(("sanitizer", "str: %s %s" % (op, sig_of(san_summary(err))), err[:1500], [lines[bad]]))
        hout.append("<aborted>")
        pos = bad + 1
        aborts += 1
        if aborts >= 2:
            hout += ["<not-run>"] * (len(lines) - len(hout))
            break
    if driver is None:      # oracle-only run (used while developing / by the mutation tests)
        mout, mrc, merr = list(hout), 0, ""
    else:
        mout, mrc, merr = vlib.run_lines(driver, lines)
    if mrc != 0 or len(mout) != len(lines):
        fails.append(("model", "str: model driver failed", "rc=%s out=%d/%d %s" % (mrc, len(mout), len(lines), merr[-300:]), lines[:3]))
        mout += ["<none>"] * (len(lines) - len(mout))
    for ln, h, m in zip(lines, hout, mout):
        w = ln.split()
        op = w[0]
        st = stats.setdefault(op, [0, 0, 0])   # calls, non-zero results, outside documented domain
        st[0] += 1
        if h in ("<aborted>", "<not-run>"):
            continue
        if not h.startswith("r=0"):
            st[1] += 1
        if op in ("rmt", "rmts"):
            rm_classify(w, h, stats.setdefault("_rm", {}))
        exp = expected(w)
        if exp is None:
            st[2] += 1
        elif h != exp and not (isinstance(exp, tuple) and h in exp):
            if len(fails) < max_fail:
                e = exp if isinstance(exp, str) else exp[0]
                fails.append(("oracle", "str: %s differs from the reference in %s" % (op, field_diff(e, h)),
                              "%s: reference implementation expects '%s', real code returned '%s'" % (ln, e, h), [ln]))
            continue
        if h != m and len(fails) < max_fail:
            kind = "model" if m.startswith("fault") else "diff"
            fails.append((kind, "str: model/code differ on " + op, "%s: code '%s', model '%s'" % (ln, h, m), [ln]))
    return fails, stats


def _task(args):
    harness, driver, kind, param = args
    import random
    if kind == "strings":
        prefix, length, full = param
        ab = ALPHABET if full else ALPHABET6
        lines = []
        for tail in itertools.product(ab, repeat=length - len(prefix)):
            lines += lines_for_string(bytes(prefix) + bytes(tail), full)
        n_inputs = len(ab) ** (length - len(prefix))
    elif kind == "chars":
        lines = gen_chars(); n_inputs = 256 + 65536 + 5120
    elif kind == "u16":
        lines = gen_u16(*param); n_inputs = param[1] - param[0]
    elif kind == "numbers":
        lines = gen_numbers(random.Random(param[0]), param[1]); n_inputs = len(lines)
    elif kind == "long":
        lines = gen_long(random.Random(param[0]), param[1]); n_inputs = len(lines)
    elif kind == "rm":
        lines = gen_rm(random.Random(param[0]), param[1]); n_inputs = len(lines)
    elif kind == "lines":
        lines = param; n_inputs = len(lines)
    fails, stats = check_lines(harness, driver, lines, max_fail=400)
    seen, keep = {}, []
    for f in sorted(fails, key=lambda f: (len(f[3][0]) if f[3] else 0, f[3])):   # shortest input first, 2 per shape
        if seen.get((f[0], f[1]), 0) < 2:
            seen[(f[0], f[1])] = seen.get((f[0], f[1]), 0) + 1
            keep.append(f)
    fails = keep
    return kind, n_inputs, len(lines), fails, stats, lines[:1] + lines[len(lines) // 2:len(lines) // 2 + 1]


class Spec:
    props_module = "Mhd.Props.C17"
    lean_targets = ["Mhd.Props.C17", "drv_str"]
    required_theorems = ["Mhd.C17." + n for n in (
        "strToUint64N_exact", "strToUint64_exact", "parseDec_zero_iff", "strxToUint32N_exact", "strxToUint64N_exact",
        "strxToUint32_exact", "strxToUint64_exact", "uint64ToStr_exact", "uint16ToStr_exact", "print_parse_roundtrip",
        "binToHex_exact", "hexToBin_exact", "hexToBin_binToHex", "pctDecodeStrictN_exact", "pctDecodeLenientN_exact",
        "pctDecodeInPlaceStrict_exact", "pctDecodeInPlaceLenient_exact", "inPlaceStrict_eq_copying",
        "inPlaceLenient_eq_copying", "unquote_exact", "quote_exact", "unquoteSpec_quoteSpec", "equalQuoted_iff",
        "equalCaselessQuoted_exact", "base64ToBinN_exact", "charsEqualCaseless_lower", "equalCaseless_exact",
        "equalCaselessN_exact", "uint32ToStrx_exact", "strx_print_parse_roundtrip", "hasToken_iff_member", "removeToken_exact", "removeToken_safe_any_token",
        "removeTokens_exact", "removeToken_output_normalised", "removeTokens_after_removeToken",
        "nofault_parse", "nofault_print", "nofault_codecs", "nofault_inplace", "nofault_compare", "nofault_hasToken")]
    trusted_base = ["Lean 4 kernel", "axioms: propext, Classical.choice, Quot.sound at most (audited per theorem)",
                    "hand-written model lean/Mhd/Model/Str*.lean tied to mhd_str.c by this run's correspondence",
                    "reference specifications in lean/Mhd/Proofs/StrSpec.lean (short recursive functions), cross-checked by the "
                    "independent Python references in tools/props/C17.py",
                    "tools/props/C17.py gen_str (toxdigitvalue table, base64 map, SSIZE_MAX, divisors regenerated)",
                    "harness/h_str.c, gcc, ASan/UBSan"]
    assumptions = ["the model follows mhd_str.c with build/fixes/F17a-d applied (F12 is already in /repo); until they are "
                   "committed the check reports the four defects on /repo",
                   "configured build: MHD_FAVOR_FAST_CODE, 64-bit size_t, signed char",
                   "objects are at most SSIZE_MAX bytes (hypothesis of removeToken_exact / quote_exact)",
                   "documented call contracts: non-NULL pointers; z-terminated inputs contain a NUL; output buffers of "
                   "MHD_bin_to_hex / MHD_hex_to_bin / MHD_str_unquote have the documented size; tokens contain no NUL, "
                   "space, tab or comma; MHD_str_remove_tokens_caseless_ is given a normalised string; min_digits <= 3"]

    def gen(self, ctx):
        gen_str()

    def build(self, ctx):
        self.harness = vlib.cc("h_str", [os.path.join(vlib.VERIF, "harness/h_str.c")])
        self.driver = vlib.driver_path("drv_str")

    def tasks(self, ctx, boost):
        thorough = ctx.tier == "thorough"
        T = []
        cdir = os.path.join(vlib.VERIF, "corpus", "str")
        corpus = []
        if os.path.isdir(cdir):
            for f in sorted(os.listdir(cdir)):
                corpus += [l.strip() for l in open(os.path.join(cdir, f)) if l.strip() and not l.startswith("#")]
        if corpus:
            T.append(("lines", corpus))
        self.ncorpus = len(corpus)
        T.append(("chars", None))
        for lo in range(0, 65536, 8192):
            T.append(("u16", (lo, lo + 8192)))
        maxlen = 5 if thorough else 4
        self.maxlen, self.maxlen_core = maxlen, (6 if thorough else maxlen)
        T.append(("strings", ((), 0, True)))
        T.append(("strings", ((), 1, True)))
        for L in range(2, maxlen + 1):
            for p in itertools.product(ALPHABET, repeat=2 if L < 5 else 3):
                T.append(("strings", (p, L, True)))
        if thorough:   # length 6 over the 8-byte sub-alphabet, output sizes at and next to the exact need only
            for p in itertools.product(ALPHABET6, repeat=2):
                T.append(("strings", (p, 6, False)))
        nrand = (40 if thorough else 4) * (3 if boost else 1)
        for i in range(nrand):
            T.append(("numbers", (ctx.rng.getrandbits(48), 1500)))
            T.append(("long", (ctx.rng.getrandbits(48), 1500)))
            T.append(("rm", (ctx.rng.getrandbits(48), 120)))
        return T

    def explore(self, ctx, boost):
        tasks = [(self.harness, self.driver, k, p) for k, p in self.tasks(ctx, boost)]
        failures, stats, nsig, allf = [], {}, {}, []
        counts = {"strings": [0, 0], "chars": [0, 0], "u16": [0, 0], "numbers": [0, 0], "long": [0, 0], "rm": [0, 0], "lines": [0, 0]}
        rmcov = {}
        samples = []
        with multiprocessing.Pool(min(vlib.NCPU, 16)) as pool:
            for kind, n_inputs, n_lines, fails, st, smp in pool.imap_unordered(_task, tasks, chunksize=1):
                counts[kind][0] += n_inputs; counts[kind][1] += n_lines
                for k, v in st.pop("_rm", {}).items():
                    rmcov[k] = rmcov.get(k, 0) + v
                for op, (a, b, c) in st.items():
                    s = stats.setdefault(op, [0, 0, 0]); s[0] += a; s[1] += b; s[2] += c
                allf += fails
                if len(samples) < 6 and kind in ("strings", "long", "numbers") and smp:
                    samples.append(smp[-1])
        # deterministic choice: per shape the three shortest (then lexicographically smallest) inputs
        for f in sorted(allf, key=lambda f: (f[1], len(f[3][0]) if f[3] else 0, f[3])):
            k = (f[0], f[1])
            if nsig.get(k, 0) < 3:
                nsig[k] = nsig.get(k, 0) + 1
                failures.append(vlib.Failure(f[0], f[1], f[2], f[3], "str"))
        failures.sort(key=lambda f: (0 if f.concrete() else 1, f.signature, len(f.input[0]) if f.input else 0, f.input))
        evals = sum(v[1] for v in counts.values())
        nz = sum(v[1] for v in stats.values())
        cov = {"evaluations": evals, "distinct_nontrivial": nz,
               "rule": "one evaluation = one call of one mhd_str.c function on the real code (ASan/UBSan, exact-size buffers), "
                       "judged by the Python reference and compared with the Lean model; distinct_nontrivial = calls with a "
                       "non-zero/true result (all generated lines are distinct by construction)",
               "samples": samples,
               "exhaustive": True,
               "exhaustive_domains": ["toxdigitvalue: 256 bytes", "charsequalcaseless: 256 x 256", "MHD_uint8_to_str_pad: 256 values x pad 0..3 x size 0..4",
                                      "MHD_uint16_to_str: 65536 values x size 0..6"],
               "bounded_exhaustive": "every string function on all strings of length <= %d over the %d-byte alphabet %s, "
                                     "every output size from 0 to max+1%s" % (self.maxlen, len(ALPHABET), bytes(ALPHABET).hex(),
                                     ("; length 6: all strings over the sub-alphabet %s, output sizes need-1/need/max only"
                                      % bytes(ALPHABET6).hex()) if self.maxlen_core > self.maxlen else ""),
               "inputs": {k: {"inputs": v[0], "calls": v[1]} for k, v in counts.items()},
               "per_function": {op: {"calls": a, "nonzero_result": b, "outside_documented_domain(model-vs-code only)": c}
                                for op, (a, b, c) in sorted(stats.items())},
               "token_removal_input_classes": dict(sorted(rmcov.items())),
               "token_removal_note": "rmt: every string of the bounded-exhaustive domain and every string of the 'rm' generator is run "
                                     "with EVERY output size 0..len+2 (and beyond, up to 3*len/2+2); rmts runs on the normalised form of "
                                     "each of these strings against several token lists",
               "corpus_lines": self.ncorpus}
        return failures, cov


def replay(ctx, path):
    r = json.load(open(path))
    sp = Spec(); sp.gen(ctx); vlib.lake_build(sp.lean_targets); sp.build(ctx)
    fails, _ = check_lines(sp.harness, sp.driver, list(r["input"]))
    for f in fails:
        print(f[0], f[1], f[2])
    return 1 if fails else 0
