"""C20 — protocol upgrade: lossless hand-over of the byte stream, single cleanup.  Engine `upg`."""
import itertools, json, os, re
import vlib, extract


def _lst(bs):
    return "[" + ", ".join(str(b) for b in bs) + "]"


def probe_upgrade_before_must_close():
    """source-order probe of keepalive_possible() (connection.c): is a response with an upgrade handler decided
    (MHD_CONN_MUST_UPGRADE) before the `MHD_CONN_MUST_CLOSE == c->keepalive` test?  In the unrepaired code the close test
    comes first: a request with both Content-Length and chunked Transfer-Encoding (accepted at the default discipline
    level, keepalive forced to MUST_CLOSE) then gets `Connection: close, Upgrade` in its 101 head
    (build/fixes/C20_upgrade_on_must_close.diff)."""
    from extract import src
    cc = src("src/microhttpd/connection.c")
    m = re.search(r"\nkeepalive_possible \(struct MHD_Connection \*connection\)\s*\{(.*?)\n\}", cc, re.S)
    if not m:
        return False
    body = m.group(1)
    i_up, i_mc = body.find("r->upgrade_handler"), body.find("MHD_CONN_MUST_CLOSE == c->keepalive")
    return 0 <= i_up and (i_mc < 0 or i_up < i_mc)


def gen_upg():
    """(A) regenerate lean/Mhd/Gen/Upg.lean from the current source tree"""
    from extract import c_eval, src, prev_value, HEADER, GEN
    v = c_eval('#include "MHD_config.h"\n#include "internal.h"\n#include <microhttpd.h>\n#include "reason_phrase.c"\n',
               [("sw", "%d", "(int) MHD_HTTP_SWITCHING_PROTOCOLS"),
                ("reason", "%s", "MHD_get_reason_phrase_for (MHD_HTTP_SWITCHING_PROTOCOLS)"),
                ("conn", "%s", "MHD_HTTP_HEADER_CONNECTION"), ("date", "%s", "MHD_HTTP_HEADER_DATE"),
                ("ok", "%d", "(int) MHD_REQUEST_TERMINATED_COMPLETED_OK"),
                ("err", "%d", "(int) MHD_REQUEST_TERMINATED_WITH_ERROR"),
                ("shut", "%d", "(int) MHD_REQUEST_TERMINATED_DAEMON_SHUTDOWN"),
                ("v10", "%d", "(int) MHD_HTTP_VER_1_0"), ("v11", "%d", "(int) MHD_HTTP_VER_1_1"),
                ("v12", "%d", "(int) MHD_HTTP_VER_1_2__1_9"),
                ("c11_10", "%d", "(int) (MHD_IS_HTTP_VER_1_1_COMPAT (MHD_HTTP_VER_1_0))"),
                ("c11_11", "%d", "(int) (MHD_IS_HTTP_VER_1_1_COMPAT (MHD_HTTP_VER_1_1))"),
                ("c11_12", "%d", "(int) (MHD_IS_HTTP_VER_1_1_COMPAT (MHD_HTTP_VER_1_2__1_9))"),
                ("c11_fut", "%d", "(int) (MHD_IS_HTTP_VER_1_1_COMPAT (MHD_HTTP_VER_FUTURE))")])
    # behavioural probe of MHD_str_has_token_caseless_: does a comma that ends a partly matching element
    # start the next element (repaired code, build/fixes/F17b.diff) or is the next element skipped?
    v3 = c_eval('#include "MHD_config.h"\n#include <limits.h>\n#include "mhd_sockets.h"\n',
                [("ssize_max", "%llu", "(unsigned long long) SSIZE_MAX"), ("send_max", "%llu", "(unsigned long long) MHD_SCKT_SEND_MAX_SIZE_")])
    v2 = c_eval('#include "MHD_config.h"\n#include "mhd_str.c"\n',
                [("comma", "%d", "(int) MHD_str_has_token_caseless_ (\"up, upgrade\", \"upgrade\", 7)")])
    cc = src("src/microhttpd/connection.c")
    # the token looked for in the "Connection" header of an upgrade response (not nameable from C)
    m = re.search(r"MHD_str_has_s_token_caseless_\s*\(\s*conn_header->value\s*,\s*\"([^\"]*)\"\s*\)", cc)
    tok = m.group(1) if m else None
    if tok is None:
        mm = re.search(r"def upgradeToken : List UInt8 := \[([^\]]*)\]", _read_prev())
        tok = bytes(int(x) for x in mm.group(1).split(",")).decode() if mm else "upgrade"
    b = lambda s: _lst(s.encode())
    out = HEADER % "src/microhttpd/{connection.c,internal.h,reason_phrase.c}, src/include/microhttpd.h" \
        + "namespace Mhd.Gen.Upg\n" \
        + "def switchingProtocols : Nat := %s\n" % v["sw"] \
        + "def reason101 : List UInt8 := %s\n" % b(v["reason"]) \
        + "def hdrConnection : List UInt8 := %s\n" % b(v["conn"]) \
        + "def hdrDate : List UInt8 := %s\n" % b(v["date"]) \
        + "def upgradeToken : List UInt8 := %s\n" % b(tok) \
        + "def termOk : Nat := %s\n" % v["ok"] \
        + "def termError : Nat := %s\n" % v["err"] \
        + "def termShutdown : Nat := %s\n" % v["shut"] \
        + "/-- MHD_IS_HTTP_VER_1_1_COMPAT evaluated for HTTP/1.0, 1.1, 1.2-1.9, 2.0+ -/\n" \
        + "def compat11 : List Bool := [%s]\n" % ", ".join("true" if v[k] == "1" else "false"
                                                          for k in ("c11_10", "c11_11", "c11_12", "c11_fut")) \
        + "/-- MHD_str_has_token_caseless_: a comma that stops a partial match ends that element only (probe \"up, upgrade\") -/\n" \
        + "def tokCommaEndsElement : Bool := %s\n" % ("true" if v2["comma"] == "1" else "false") \
        + "/-- keepalive_possible(): an upgrade response is decided MUST_UPGRADE before the connection's MUST_CLOSE is looked at "\
          "(source-order probe; false = unrepaired: `close, ` is put in front of the 101's Connection value for requests "\
          "that force MUST_CLOSE) -/\n" \
        + "def upgradeBeforeMustClose : Bool := %s\n" % ("true" if probe_upgrade_before_must_close() else "false") \
        + "/-- clamps of the forwarding layer (process_urh): SSIZE_MAX, MHD_SCKT_SEND_MAX_SIZE_ -/\n" \
        + "def ssizeMax : Nat := %s\n" % v3["ssize_max"] \
        + "def sendMax : Nat := %s\n" % v3["send_max"] \
        + "end Mhd.Gen.Upg\n"
    return vlib.write_if_changed(os.path.join(GEN, "Upg.lean"), out)


def _read_prev():
    from extract import GEN
    try:
        return open(os.path.join(GEN, "Upg.lean")).read()
    except OSError:
        return ""

# --------------------------------------------------------------------------- script helpers

def hx(b):
    return b.hex() if b else "-"


def unhx(s):
    return b"" if s in ("-", "~") else bytes.fromhex(s)


CONN, UPG = hx(b"Connection"), hx(b"Upgrade")
MODES_EXT = ["select", "epoll"]
MODES_THR = ["select-thr", "poll-thr", "epoll-thr"]
ARENAS = [1024, 4096, 32768]


def mk_head(ver=b"HTTP/1.1", url=b"/chat", pad=0, method=b"GET", conn=b"Upgrade", extra=b""):
    h = method + b" " + url + b" " + ver + b"\r\nHost: x\r\nConnection: " + conn + b"\r\nUpgrade: test\r\n" + extra
    if pad:
        h += b"X-Pad: " + b"p" * pad + b"\r\n"
    return h + b"\r\n"


PLAIN = b"GET /two HTTP/1.1\r\nHost: x\r\n\r\n"
FOLLOW = bytes((0x80 + 3 * i) % 256 if i % 5 == 4 else 0x30 + i for i in range(40))   # 40 bytes, some non-ASCII


class Case:
    """one scripted case: `lines` go to the harness; `hints` = connections whose recv sizes are taken
    from the harness log (otherwise the driver predicts them); meta describes it for coverage"""
    def __init__(self, name, lines, hints=(), relaxed=False, meta=None):
        lines = list(lines)
        if not lines or lines[0].split()[:1] != ["case"]:
            lines.insert(0, "case " + name)       # every script carries its own marker line (outputs are split by it)
        self.name, self.lines, self.hints, self.relaxed, self.meta = name, lines, set(hints), relaxed, meta or {}


def prelude(name, mode, upgrade, mem, resps):
    return ["case " + name, "cfg mode=%s upgrade=%d mem=%d" % (mode, upgrade, mem), "start"] + resps


STD_RESPS = ["resp 0 kind=copy code=200 size=5",
             "resp 1 kind=upgrade code=101 h=%s:%s" % (UPG, hx(b"test")),
             "resp 2 kind=upgrade-hc code=101 h=%s:%s" % (UPG, hx(b"test"))]


def split_case(name, mode, mem, timing, parts, k_rounds, early, tail, rng, head=None, hints=False, relaxed=False):
    """head+following delivered in `parts`; close timing inside|later|never; `tail` = bytes the
    client sends after the hand-over"""
    rid = 2 if timing == "inside" else 1
    L = prelude(name, mode, 1, mem, STD_RESPS)
    L.append("beh 0 0 f=r%d" % rid if early else "beh 0 0 f=c l=r%d" % rid)
    L += ["arrive 0 1", "round"]
    for p in parts:
        L += ["send 0 " + hx(p), "round"]
    L.append("rounds 3")
    if timing == "inside":
        L += ["send 0 " + hx(tail), "rounds 2"]
    else:
        L += ["up-recv 0", "send 0 " + hx(tail[:7]), "up-recv 0", "up-send 0 " + hx(b"srv-hello\x00\xff"),
              "send 0 " + hx(tail[7:]), "rounds %d" % k_rounds, "up-recv 0", "up-send 0 " + hx(b"bye")]
        if timing == "later":
            L += ["up-close 0", "round", "round"]
        else:
            L += ["round"]
            if rng.random() < 0.5:
                L += ["send 0 " + hx(b"unread")]      # left in the socket at shutdown
    L.append("stop")
    return Case(name, L, hints=[0] if hints else [], relaxed=relaxed,
                meta={"kind": "split", "mode": mode, "mem": mem, "timing": timing, "nparts": len(parts), "early": early})


def cuts(stream, positions):
    out, last = [], 0
    for p in sorted(positions):
        out.append(stream[last:p]); last = p
    out.append(stream[last:])
    return [x for x in out if x]


def gen_split_cases(ctx, tier):
    rng = ctx.rng
    cases = []
    head = mk_head()
    stream = head + FOLLOW
    n = len(stream)
    full = tier == "thorough"
    combos = [(t, m) for t in ("inside", "later", "never") for m in MODES_EXT]
    i = 0
    # all 2-way splits
    for p in range(1, n):
        for (t, m) in combos:
            for mem in ARENAS:
                cases.append(split_case("s2-%d-%s-%s-%d" % (p, t, m, mem), m, mem, t, cuts(stream, [p]),
                                        rng.randint(0, 3), bool(i % 2), b"after-handover:" + bytes([i % 251]), rng))
                i += 1
    # byte by byte
    for (t, m) in combos:
        for mem in ARENAS:
            cases.append(split_case("bb-%s-%s-%d" % (t, m, mem), m, mem, t, [stream[j:j + 1] for j in range(n)],
                                    rng.randint(0, 3), bool(i % 2), b"post", rng)); i += 1
    # whole stream at once, and head alone
    for (t, m) in combos:
        cases.append(split_case("one-%s-%s" % (t, m), m, ARENAS[i % 3], t, [stream], 1, bool(i % 2), b"tail-bytes", rng)); i += 1
        cases.append(split_case("hd-%s-%s" % (t, m), m, ARENAS[i % 3], t, [head], 1, bool(i % 2), b"tail-bytes", rng)); i += 1
    # random 3-way splits
    for j in range(3000 if full else 300):
        a, b = sorted(rng.sample(range(1, n), 2))
        t, m = combos[j % len(combos)]
        cases.append(split_case("s3-%d-%d-%d" % (j, a, b), m, ARENAS[j % 3], t, cuts(stream, [a, b]),
                                rng.randint(0, 3), bool(rng.getrandbits(1)), bytes(rng.randrange(256) for _ in range(rng.randint(8, 30))), rng))
    # read window smaller than the stream: long head in the smallest arena (recv sizes from the log)
    for j in range(300 if full else 40):
        pad = rng.choice([300, 380, 400, 420, 430])
        h2 = mk_head(pad=pad)
        fol = bytes(rng.randrange(256) for _ in range(rng.choice([40, 90, 200])))
        s2 = h2 + fol
        t, m = combos[j % len(combos)]
        pos = sorted(rng.sample(range(1, len(s2)), rng.randint(0, 2)))
        cases.append(split_case("cap-%d-%d" % (j, pad), m, 1024, t, cuts(s2, pos), 1, bool(j % 2), b"tail!", rng, hints=True))
    return cases


# ---- everything an application may legally do to an upgrade response object -------------------------------
# response flags, canonical numbering of the line protocol: strict=1 server=2 insanity=4 keepalive-hdr=8 head-only=16
FLAGS_OK = [0, 8, 16, 24]            # legal for a 101 (no effect on the head)
FLAGS_REFUSED = [1, 2, 3, 9, 18]     # HTTP/1.0 flags: a 1xx status is refused
H = lambda n, v: "h=%s:%s" % (hx(n), hx(v))
D = lambda n, v: "d=%s:%s" % (hx(n), hx(v))
F = lambda n, v: "f=%s:%s" % (hx(n), hx(v))
C = b"Connection"
# (label, ops, accepted?)  — "Connection" edits: several values / tokens, any case, any order
CONN_EDITS = [
    ("plain", [], True),
    ("add-token", [H(C, b"X-Foo")], True),
    ("add-two", [H(C, b"X-A, X-B"), H(b"connection", b"X-C")], True),
    ("upgrade-last", [D(C, b"Upgrade"), H(C, b"foo, UPGRADE")], True),
    ("upgrade-first", [D(C, b"upgrade"), H(b"CONNECTION", b"upGrade, foo")], True),
    ("upgrade-middle", [D(C, b"Upgrade"), H(C, b"X-A, upgrade, X-B"), H(C, b"X-C")], True),
    ("upgrade-twice", [H(C, b"Upgrade")], True),
    ("ka-token-only", [H(C, b"Keep-Alive")], True),           # the call is refused, the object is unchanged
    ("ka-token-mixed", [H(C, b"keep-alive, X-A")], True),     # keep-alive token dropped by the API
    ("close-token", [H(C, b"close")], True),                  # refused for an upgrade response object
    ("close-mixed", [H(C, b"X-A, close")], True),
    ("ws-commas", [H(C, b"a ,b,,  c")], True),
    ("del-other", [H(C, b"X-A, X-B"), D(C, b"x-a")], True),
    ("del-readd", [D(C, b"Upgrade"), H(C, b"Upgrade")], True),
    ("prefix-elem", [D(C, b"Upgrade"), H(C, b"up, upgrade")], True),
    ("no-token", [D(C, b"Upgrade"), H(C, b"X-Hop")], False),
    ("near-token", [D(C, b"Upgrade"), H(C, b"upgradex, xupgrade")], False),
    ("no-header", [D(C, b"Upgrade")], False),
]
# other headers (label, ops)
OTHER_HDRS = [
    ("none", []),
    ("upgrade-protos", [H(b"Upgrade", b"websocket, h2c, TLS/1.0")]),
    ("ws-accept", [H(b"Upgrade", b"websocket"), H(b"Sec-WebSocket-Accept", b"s3pPLMBiTxaQ9kYGzzhZRbK+xOo=")]),
    ("keep-alive-hdr", [H(b"Keep-Alive", b"timeout=5, max=10")]),
    ("app-date", [H(b"Date", b"Thu, 01 Jan 1970 00:00:00 GMT"), H(b"X-After", b"1")]),
    ("app-date-twice", [H(b"X-Before", b"0"), H(b"date", b"Mon, 02 Jan 2006 15:04:05 GMT"), H(b"Date", b"Thu, 01 Jan 1970 00:00:00 GMT")]),
    ("content-length", ["o=16", H(b"Content-Length", b"5"), H(b"X-After", b"cl")]),   # head-only flag lets the app store it
    ("content-length-refused", [H(b"Content-Length", b"5")]),
    ("transfer-encoding", [H(b"Transfer-Encoding", b"chunked"), H(b"X-After", b"te")]),
    ("footer", [F(b"X-Foot", b"never-sent"), H(b"X-Head", b"sent")]),
    ("del-plain", [H(b"X-One", b"1"), H(b"X-Two", b"2"), D(b"X-One", b"1")]),
    ("dup-names", [H(b"Set-Cookie", b"a=1"), H(b"set-cookie", b"b=2"), H(b"Set-Cookie", b"a=1")]),
    ("odd-values", [H(b"X-Odd", b"  lead, trail  \t"), H(b"X-Colon", b"a: b: c"), H(b"X-Hi", bytes([0xe4, 0xf6, 0xfc]))]),
    ("opts-late", [H(b"X-One", b"1"), "o=8", H(b"X-Two", b"2"), "o=0"]),
]
# request variations: (label, kwargs for mk_head, must the reply be queued at the first call?, bytes after the head)
REQ_VARS = [
    ("plain", {}, None),
    ("ka-upgrade", {"conn": b"keep-alive, Upgrade"}, None),
    ("close-upgrade", {"conn": b"close, upgrade"}, None),
    ("upgrade-close", {"conn": b"Upgrade, Close"}, None),
    ("http12", {"ver": b"HTTP/1.2"}, None),
    ("expect-nobody", {"extra": b"Expect: 100-continue\r\n"}, None),
    # a request that announces a body: the application answers at the first call, the announced body bytes are
    # "bytes beyond the request head" and must reach the upgrade handler (no 100 Continue, nothing consumed)
    ("expect-body-early", {"method": b"POST", "extra": b"Expect: 100-continue\r\nContent-Length: 12\r\n"}, True),
    ("body-early", {"method": b"PUT", "extra": b"Content-Length: 40\r\n"}, True),
    # the request method: the Upgrade header may accompany any request; a 1xx reply has no body headers whatever the method
    ("head", {"method": b"HEAD"}, None),
    ("head-early-body", {"method": b"HEAD", "extra": b"Content-Length: 12\r\n"}, True),
    ("post-nobody", {"method": b"POST"}, None),
    ("options", {"method": b"OPTIONS", "url": b"*"}, None),
    ("connect", {"method": b"CONNECT", "url": b"example.com:80"}, None),
    ("unknown-method", {"method": b"BREW"}, None),
    ("delete-ka", {"method": b"DELETE", "conn": b"keep-alive, Upgrade"}, None),
]


# a request that forces MHD_CONN_MUST_CLOSE (both framings; accepted at the default discipline level): generated once
# keepalive_possible() decides an upgrade response first (probe_upgrade_before_must_close; until then the daemon puts
# `close, ` in front of the application's Connection value — finding reported with build/fixes/C20_upgrade_on_must_close.diff)
REQ_TE_CL = ("te-cl-early", {"method": b"POST", "extra": b"Transfer-Encoding: chunked\r\nContent-Length: 5\r\n"}, True)


def hdr_case(name, mode, mem, timing, flags, flags_late, cedit, other, reqv, parts_at, early, nodate, rng):
    """one decorated upgrade response; `parts_at` = split positions of head+following"""
    clabel, cops, ok = cedit
    olabel, oops = other
    rlabel, rkw, force_early = reqv
    ok = ok and flags in FLAGS_OK
    if force_early:
        early = True
    kind = "upgrade-hc" if timing == "inside" else "upgrade"
    resp = "resp 1 kind=%s code=101" % kind
    if flags and not flags_late:
        resp += " flags=%d" % flags
    # MHD_set_response_options replaces all flags: options calls inside a decoration keep the case's flags
    ops = [("o=%d" % (int(o[2:]) | flags)) if o.startswith("o=") else o for o in list(cops) + list(oops)]
    if flags and flags_late:
        ops.insert(rng.randint(0, len(ops)), "o=%d" % flags)
    resp += "".join(" " + o for o in ops[:16])
    L = ["case " + name, "cfg mode=%s upgrade=1 mem=%d%s" % (mode, mem, " nodate=1" if nodate else ""), "start",
         "resp 0 kind=copy code=200 size=5", resp]
    L.append("beh 0 0 " + ("f=r1/r0" if early else "f=c l=r1/r0"))
    if not ok and rkw.get("method") == b"HEAD":
        rkw = dict(rkw, method=b"GET")      # the ordinary reply that follows a refusal: its HEAD framing is C04's subject
    head = mk_head(**rkw)
    stream = head + FOLLOW
    L += ["arrive 0 1", "round"]
    # a refused upgrade is answered with an ordinary reply, after which the connection may be closed: the whole stream is
    # then delivered before the head is complete (what is unread at close time decides between FIN and RST: timing)
    lim = len(stream) if ok else len(head)
    for part in cuts(stream, sorted({p % lim for p in parts_at if p % lim})):
        L += ["send 0 " + hx(part), "round"]
    L.append("rounds 3")
    if ok:
        if timing == "inside":
            L += ["rounds 2"]
        else:
            L += ["up-recv 0", "send 0 " + hx(b"tail-after"), "up-recv 0", "up-send 0 " + hx(b"srv\x00\xff"), "round"]
            if timing == "later":
                L += ["up-close 0", "round", "round"]
    L.append("stop")
    return Case(name, L, meta={"kind": "hdr", "mode": mode, "timing": timing, "flags": flags, "flags_late": flags_late, "conn": clabel,
                               "other": olabel, "req": rlabel, "early": early, "nodate": nodate, "expect_accept": ok})


def gen_hdr_cases(ctx, tier):
    rng = ctx.rng
    cases = []
    timings = ("later", "inside", "never")
    n = len(mk_head() + FOLLOW)
    i = 0
    REQS = REQ_VARS + [REQ_TE_CL]  # always generated (finding F37, repaired by 88c7ade): a return of the defect must be reported

    def one(flags, ce, oh, rv, late=None):
        nonlocal i
        mode = MODES_EXT[i % 2]
        t = timings[(i // 2) % 3]
        early = bool((i // 6) % 2)
        parts = rng.choice([[], [rng.randint(1, n + 20)], [rng.randint(1, n), rng.randint(1, n + 20)]])
        nm = "hdr-%d-f%d-%s-%s-%s" % (i, flags, ce[0], oh[0], rv[0])
        cases.append(hdr_case(nm, mode, ARENAS[1 + i % 2], t, flags, bool(i % 3 == 0) if late is None else late, ce, oh, rv, parts, early,
                              nodate=(i % 5 == 0), rng=rng))
        i += 1
    # every Connection edit x every flag combination (request / other headers rotate)
    for ce in CONN_EDITS:
        for flags in FLAGS_OK + FLAGS_REFUSED:
            one(flags, ce, OTHER_HDRS[i % len(OTHER_HDRS)], REQS[i % len(REQS)])
    # every other-header decoration x legal flags x every request variation
    for oh in OTHER_HDRS:
        for flags in FLAGS_OK:
            for rv in REQS:
                one(flags, CONN_EDITS[i % 15], oh, rv)
    # the keep-alive response flag on its own: every request variation x timing x mode x early/late x set early/late
    for rv in REQS:
        for k in range(12):
            one(8, CONN_EDITS[0], OTHER_HDRS[0], rv, late=bool(k % 2))
    # random combinations
    for _ in range(6000 if tier == "thorough" else 400):
        one(rng.choice(FLAGS_OK + FLAGS_OK + FLAGS_REFUSED), rng.choice(CONN_EDITS), rng.choice(OTHER_HDRS), rng.choice(REQS))
    return cases


def gen_refusal_cases(ctx, tier):
    """each precondition violated alone; the handler then queues an ordinary response; the read-ahead
    (a pipelined second request) must still be served"""
    cases = []
    viol = [
        ("noflag", 0, b"HTTP/1.1", "resp 1 kind=upgrade code=101 h=%s:%s" % (UPG, hx(b"test"))),
        ("http10", 1, b"HTTP/1.0", "resp 1 kind=upgrade code=101 h=%s:%s" % (UPG, hx(b"test"))),
        ("code200", 1, b"HTTP/1.1", "resp 1 kind=upgrade code=200 h=%s:%s" % (UPG, hx(b"test"))),
        ("code100", 1, b"HTTP/1.1", "resp 1 kind=upgrade code=100"),
        ("noconn", 1, b"HTTP/1.1", "resp 1 kind=upgrade code=101 d=%s:%s" % (CONN, UPG)),
        ("otherconn", 1, b"HTTP/1.1", "resp 1 kind=upgrade code=101 d=%s:%s h=%s:%s" % (CONN, UPG, CONN, hx(b"foo"))),
        ("xupgrade", 1, b"HTTP/1.1", "resp 1 kind=upgrade code=101 d=%s:%s h=%s:%s" % (CONN, UPG, CONN, hx(b"xupgrade, upgradex"))),
        ("plain101", 1, b"HTTP/1.1", "resp 1 kind=empty code=101"),
        ("plain101b", 1, b"HTTP/1.1", "resp 1 kind=copy code=101 size=3"),
        # controls: these ARE accepted
        ("ok-token2", 1, b"HTTP/1.1", "resp 1 kind=upgrade code=101 h=%s:%s" % (CONN, hx(b"foo"))),
        ("ok-upper", 1, b"HTTP/1.1", "resp 1 kind=upgrade code=101 d=%s:%s h=%s:%s" % (CONN, UPG, CONN, hx(b"foo, UPGRADE"))),
        ("ok-http12", 1, b"HTTP/1.2", "resp 1 kind=upgrade code=101"),
    ]
    i = 0
    for (nm, flag, ver, respline) in viol:
        for mode in MODES_EXT:
            for early in (False, True):
                for mem in ([ARENAS[i % 3]] if tier != "thorough" else ARENAS):
                    name = "pre-%s-%s-%d-%d" % (nm, mode, int(early), mem)
                    L = prelude(name, mode, flag, mem, ["resp 0 kind=copy code=200 size=5", respline])
                    L.append("beh 0 0 " + ("f=r1/r0" if early else "f=c l=r1/r0"))
                    L.append("beh 0 1 f=c l=r0")
                    stream = mk_head(ver=ver) + PLAIN
                    p = [stream] if i % 3 == 0 else cuts(stream, [len(mk_head(ver=ver)) + (i % 7)])
                    L += ["arrive 0 1", "round"]
                    for part in p:
                        L += ["send 0 " + hx(part), "round"]
                    L += ["rounds 3"]
                    if nm.startswith("ok-"):
                        L += ["up-recv 0", "up-close 0", "round"]
                    L += ["stop"]
                    cases.append(Case(name, L, meta={"kind": "precond", "which": nm, "mode": mode, "early": early}))
                    i += 1
    # refusal without a second try: the handler fails, the connection is closed (one completion, one close)
    for mode in MODES_EXT:
        name = "pre-norecover-" + mode
        L = prelude(name, mode, 1, 4096, ["resp 1 kind=upgrade code=200"]) + ["beh 0 0 f=r1", "arrive 0 1", "round",
             "send 0 " + hx(mk_head() + FOLLOW), "rounds 3", "stop"]
        cases.append(Case(name, L, meta={"kind": "precond", "which": "norecover", "mode": mode}))
    return cases


def gen_multi_cases(ctx, tier):
    """several connections: upgraded ones next to ordinary keep-alive traffic, close actions and
    stop interleaved"""
    rng = ctx.rng
    cases = []
    head = mk_head()
    for j in range(2000 if tier == "thorough" else 200):
        mode = MODES_EXT[j % 2]
        name = "multi-%d-%s" % (j, mode)
        L = prelude(name, mode, 1, ARENAS[j % 3], STD_RESPS)
        nconn = rng.randint(2, 4)
        roles = [rng.choice(["later", "inside", "never", "plain"]) for _ in range(nconn)]
        roles[0] = rng.choice(["later", "inside", "never"])
        pending = {}
        for c, role in enumerate(roles):
            if role == "plain":
                L.append("beh %d 0 f=c l=r0" % c); L.append("beh %d 1 f=c l=r0" % c)
                pending[c] = cuts(PLAIN + PLAIN, [rng.randint(1, 2 * len(PLAIN) - 1)])
            else:
                rid = 2 if role == "inside" else 1
                L.append("beh %d 0 %s" % (c, ("f=r%d" % rid) if rng.random() < 0.5 else ("f=c l=r%d" % rid)))
                s = head + FOLLOW[:rng.randint(0, 40)]
                # closed inside the handler: the daemon releases the socket on its own schedule (a round may skip
                # connections), so nothing is sent after the piece that completes the head
                lim = len(head) if role == "inside" else len(s)
                pending[c] = cuts(s, rng.sample(range(1, lim), rng.randint(0, 2)))
        for c in range(nconn):
            L.append("arrive %d %d" % (c, c + 1))
        L.append("round")
        while any(pending.values()):
            c = rng.choice([k for k, v in pending.items() if v])
            L.append("send %d %s" % (c, hx(pending[c].pop(0))))
            if rng.random() < 0.7:
                L.append("round")
        L.append("rounds 8")     # slack: the select loop may skip connections in a round (traversal stops early)
        acts = []
        for c, role in enumerate(roles):
            if role in ("later", "never"):
                acts.append("send %d %s" % (c, hx(b"late-%d" % c)))
                acts.append("up-recv %d" % c)
                acts.append("up-send %d %s" % (c, hx(b"to-client-%d" % c)))
            if role == "later":
                acts.append("up-close %d" % c)
        rng.shuffle(acts)
        # keep per-connection order: close last
        for c, role in enumerate(roles):
            if role == "later":
                acts.remove("up-close %d" % c); acts.append("up-close %d" % c)
        for a in acts:
            L.append(a)
            if rng.random() < 0.5:
                L.append("round")
        if rng.random() < 0.6:
            L.append("rounds 6")
        L.append("stop")
        cases.append(Case(name, L, hints=range(nconn), meta={"kind": "multi", "mode": mode, "roles": roles}))
    return cases


# internal threads: (mode, thread pool size); `tpc` = thread per connection
THR_CONFIGS = [("select-thr", 0), ("poll-thr", 0), ("epoll-thr", 0), ("tpc", 0),
               ("select-thr", 1), ("poll-thr", 2), ("epoll-thr", 3), ("epoll-thr", 4)]


def gen_thr_cases(ctx, tier):
    """internal polling thread(s), thread pool, thread per connection: the split between reads is decided by the daemon's
    threads; the recv sizes are taken from the log (hints) and rounds are only pauses"""
    rng = ctx.rng
    cases = []
    head = mk_head()
    stream = head + FOLLOW
    j = 0
    # the upgrade handler's own pace: close action inside the handler after which the handler goes on (the daemon's
    # thread gets time for a cleanup cycle while the connection's thread is still in the handler), and close action from
    # the script while the handler has not returned yet; gate inside the handler, opened by the script
    for (mode, pool) in THR_CONFIGS:
        for variant in ("inside-continue", "during-handler"):
            for rep in range((6 if mode == "tpc" else 2) if tier == "thorough" else (3 if mode == "tpc" else 1)):
                pos = sorted(rng.sample(range(1, len(stream)), rng.randint(0, 2)))
                name = "thrg-%s-p%d-%s-%d" % (mode, pool, variant, rep)
                rid, kind = (3, "upgrade-hcw") if variant == "inside-continue" else (4, "upgrade-w")
                L = ["case " + name, "cfg mode=%s upgrade=1 mem=%d%s" % (mode, ARENAS[j % 3], " pool=%d" % pool if pool else ""), "start",
                     "resp 0 kind=copy code=200 size=5", "resp %d kind=%s code=101 h=%s:%s" % (rid, kind, UPG, hx(b"test")),
                     "beh 0 0 " + (("f=r%d" % rid) if j % 2 else ("f=c l=r%d" % rid)), "arrive 0 1", "round"]
                for part in cuts(stream, pos):
                    L += ["send 0 " + hx(part), "round"]
                L += ["rounds 3", "up-await 0"]
                if variant == "inside-continue":
                    L += ["rounds 5", "up-release 0", "rounds 4"]
                else:
                    L += ["up-recv 0", "up-send 0 " + hx(b"from-app"), "up-close 0", "rounds 5", "up-release 0", "rounds 4"]
                L.append("stop")
                cases.append(Case(name, L, hints=[0], relaxed=True,
                                  meta={"kind": "split", "mode": mode, "pool": pool, "timing": variant, "handler_gate": True}))
                j += 1
    for (mode, pool) in THR_CONFIGS:
        for t in ("inside", "later", "never"):
            for rep in range(4 if tier == "thorough" else 1):
                pos = sorted(rng.sample(range(1, len(stream)), rng.randint(0, 2)))
                cs = split_case("thr-%s-p%d-%s-%d" % (mode, pool, t, rep), mode, ARENAS[j % 3], t, cuts(stream, pos), 1,
                                bool(j % 2), b"tail-thr", rng, hints=True, relaxed=True)
                if pool:
                    cs.lines[1] += " pool=%d" % pool
                cs.meta["pool"] = pool
                cases.append(cs); j += 1
    return cases


TOK_PIECES = [b"upgrade", b"UPGRADE", b"Upgrad", b"upgradex", b"up", b"x", b" ", b"\t", b","]


def gen_tok_lines(tier):
    n = 5 if tier == "thorough" else 4
    vals = set()
    for k in range(0, n + 1):
        for combo in itertools.product(TOK_PIECES, repeat=k):
            vals.add(b"".join(combo))
    return ["tok " + hx(v) for v in sorted(vals)]


# --------------------------------------------------------------------------- log parsing (both sides)

def split_ops(lines):
    """[(op_words, [output lines])] using the `# op …` echo"""
    out = []
    for l in lines:
        if l.startswith("# ") or l == "#":
            out.append((l[2:].split(), []))
        elif out:
            out[-1][1].append(l)
    return out


def tag_case_lines(cases):
    """the lines of a batch as they are sent: the `case` line of the k-th script is tagged `case @<k>@<name>` so that the
    output of every script is found by its own marker (never by position / by counting)"""
    out = []
    for k, cs in enumerate(cases):
        w = cs.lines[0].split()
        out.append("case @%d@%s" % (k, w[1] if len(w) > 1 else cs.name))
        out += cs.lines[1:]
    return out


def split_by_case(ops):
    """{k: [(op, outs)…]} keyed by the tag of the `case` marker echoed by harness / driver; blocks without a tag are
    returned under None (they belong to no script of the batch)"""
    d, cur, last = {}, None, None
    for (op, outs) in ops:
        if op and op[0] == "case":
            m = re.match(r"@(\d+)@", op[1]) if len(op) > 1 else None
            key = int(m.group(1)) if m else None
            if key is None:
                d.setdefault("stray_after", last)     # an untagged marker: produced inside the script with tag `last`
            else:
                last = key
            cur = d.setdefault(key, [])
            if key is not None and cur:
                cur = d[key] = []          # a repeated tag: keep the last block (cannot happen with tag_case_lines)
        if cur is not None:
            cur.append((op, outs))
    return d


def kvs(words):
    return dict(w.split("=", 1) for w in words if "=" in w)


def mask_date(head):
    return re.sub(rb"\r\nDate: [^\r]*\r\n", b"\r\nDate: D\r\n", head, count=1)


def canon_wire(data):
    """101 head with masked Date + raw bytes; ordinary replies -> [reply code=… body=…]"""
    out = b""
    while data:
        if data.startswith(b"HTTP/1.1 101 "):
            e = data.find(b"\r\n\r\n")
            if e < 0:
                return out + b"<truncated-101>" + data
            out += mask_date(data[:e + 4]) + data[e + 4:]     # everything after a 101 head is raw
            return out
        m = re.match(rb"HTTP/1\.[01] (\d{3}) ", data)
        if not m:
            return out + b"<junk>" + data
        e = data.find(b"\r\n\r\n")
        if e < 0:
            return out + b"<truncated>" + data
        hdr = data[:e + 4]
        cl = re.search(rb"\r\nContent-Length: (\d+)\r\n", hdr)
        n = int(cl.group(1)) if cl else 0
        body = data[e + 4:e + 4 + n]
        out += b"[reply code=%s body=%s]" % (m.group(1), hx(body).encode())
        data = data[e + 4 + n:]
    return out


def canon_model_wire(b):
    """the model's wire text is canonical already; only the Date value of the 101 head is masked like the real one"""
    i = b.find(b"HTTP/1.1 101 ")
    e = b.find(b"\r\n\r\n", i) if i >= 0 else -1
    return b if e < 0 else b[:i] + mask_date(b[i:e + 4]) + b[e + 4:]


def canon_harness(ops):
    """harness op outputs -> per connection (event sequence, wire bytes, recv sizes), global sequence"""
    seq, wire, recvs, glob = {}, {}, {}, []
    upgraded, arrived = set(), []
    objs = {}
    pend_close = {}

    def add(c, item):
        seq.setdefault(c, []).append(item)
    for (op, outs) in ops:
        if op and op[0] == "stop":
            for c in arrived:
                add(c, "@stop")
        for l in outs:
            w = l.split()
            if not w:
                continue
            k = kvs(w)
            c = int(k["c"]) if "c" in k and k["c"].lstrip("-").isdigit() else None
            t = w[0]
            if t == "bad-op":
                glob.append("bad-op " + " ".join(op[:2]))
            elif t == "arrive":
                if w[-1] == "1":
                    arrived.append(c)
                else:
                    glob.append("arrive-refused %d" % c)
            elif t == "conn-start":
                add(c, "start")
            elif t == "handler":
                if k.get("phase") in ("first", "final"):
                    add(c, "handler r=%s phase=%s" % (k["r"], k["phase"]))
                else:
                    add(c, "handler-other " + k.get("phase", "?"))
            elif t == "queued":
                add(c, "queued r=%s rid=%s -> %s" % (k["r"], k["rid"], w[w.index("->") + 1]))
            elif t == "io":
                if c in upgraded:
                    add(c, "io-after-upgrade")
                elif w[2] == "recv" and int(k["n"]) > 0:
                    recvs.setdefault(c, []).append(int(k["n"]))
            elif t == "wire":
                wire[c] = wire.get(c, b"") + unhx(w[2])
            elif t == "upgrade":
                add(c, "upgrade extra=" + hx(unhx(k["extra"])))
                upgraded.add(c)
            elif t == "up-closing":
                add(c, "up-close -> ?"); pend_close[c] = len(seq[c]) - 1       # the action starts here; result follows
            elif t == "up-close":
                if c in pend_close:
                    seq[c][pend_close.pop(c)] = "up-close -> " + w[-1]
                else:
                    add(c, "up-close -> " + w[-1])
            elif t == "up-data":
                add(c, "up-data " + hx(unhx(w[2])))
            elif t == "up-sent":
                add(c, "up-sent n=" + k["n"])
            elif t == "completed":
                add(c, "completed r=%s code=%s" % (k["r"], k["code"]))
            elif t in ("conn-close", "sock-close", "eof", "rst"):
                add(c, t)
            elif t in ("bad-close", "unstable", "protocol-error", "fdset-failed", "start-failed"):
                glob.append(t)
            elif t == "tok":
                glob.append(l)
            elif t == "resp-obj":
                objs.setdefault(k["rid"], " ".join(w[2:]))      # the object as built the first time
    return seq, {c: canon_wire(b) for c, b in wire.items()}, recvs, glob, objs


def canon_driver(ops):
    seq, wire, glob = {}, {}, []
    objs = {}
    for (op, outs) in ops:
        for l in outs:
            w = l.split()
            if not w:
                continue
            if w[0] == "ev":
                c = int(w[1][2:])
                item = " ".join(w[2:])
                if w[2] == "wire":
                    wire[c] = wire.get(c, b"") + unhx(w[3])
                else:
                    seq.setdefault(c, []).append(item)
            elif w[0] == "bad-op":
                glob.append("bad-op " + " ".join(op[:2]))
            elif w[0] in ("tok", "unsupported"):
                glob.append(l)
            elif w[0] == "obj":
                objs[kvs(w)["rid"]] = " ".join(w[2:])
    return seq, {c: canon_model_wire(b) for c, b in wire.items()}, glob, objs


# --------------------------------------------------------------------------- independent oracle

def spec_has_upgrade_token(value):
    return any(t.strip(b" \t").lower() == b"upgrade" for t in value.split(b","))


def conn_tokens(v):
    return [t for t in (x.strip(b" \t") for x in v.split(b",")) if t]


def spec_connection_value(upgrade, calls, rets):
    """the "Connection" value an application ends up with (C04's description of the response API): values are
    token lists; every accepted add appends its tokens, `keep-alive` tokens are dropped (the daemon decides
    about them), a `close` token is not accepted on an upgrade response, a delete removes the listed tokens;
    the value is the tokens joined by ", ".  Returns (value or None, error)."""
    toks = [b"Upgrade"] if upgrade else []
    has_close = False
    for (kind, n, v), ret in zip(calls, rets):
        if kind not in "hd" or n.lower() != b"connection":
            continue
        new = conn_tokens(v)
        low = [t.lower() for t in new]
        if kind == "h":
            keep = [t for t in new if t.lower() not in (b"close", b"keep-alive")]
            want = not (upgrade and b"close" in low) and (bool(keep) or b"close" in low) and b"\r" not in v and b"\n" not in v
            if bool(ret) != want:
                return None, "MHD_add_response_header(Connection, %r) returned %d" % (v, ret)
            if ret:
                toks += keep
                has_close = has_close or b"close" in low
        else:
            left = [t for t in toks if t.lower() not in low]
            closed = has_close and b"close" not in low
            if bool(ret) != (len(left) != len(toks) or (has_close and not closed)):
                return None, "MHD_del_response_header(Connection, %r) returned %d" % (v, ret)
            toks, has_close = left, closed
    out = ([b"close"] if has_close else []) + toks
    return (b", ".join(out) if out else None), None


def spec_upgrade_head(obj_ents, nodate):
    """regular expression for exactly the 101 head of a response object whose entries (MHD_get_response_headers) are
    `obj_ents`: status line, the automatic Date unless suppressed / supplied, the application's headers verbatim and
    in order — body framing headers are not part of a 1xx reply —, empty line"""
    hs = [(n, v) for (k, n, v) in obj_ents if k == "H" and n.lower() not in (b"content-length", b"transfer-encoding")]
    app_date = any(n.lower() == b"date" for n, v in hs)
    rx = re.escape(b"HTTP/1.1 101 Switching Protocols\r\n")
    if not nodate and not app_date:
        rx += rb"Date: [A-Z][a-z]{2}, \d\d [A-Z][a-z]{2} \d{4} \d\d:\d\d:\d\d GMT\r\n"
    rx += b"".join(re.escape(n + b": " + v + b"\r\n") for n, v in hs) + re.escape(b"\r\n")
    return rx


def parse_obj_line(words):
    k = kvs(words)
    rets = [int(x) for x in k.get("rets", "").split(",") if x != ""]
    ents = []
    for e in (k.get("ents", "").split(",") if k.get("ents") else []):
        kind, _, rest = e.partition(":")
        n, _, v = rest.partition("=")
        ents.append((kind, unhx(n), unhx(v)))
    return {"rets": rets, "fa": int(k.get("fa", "0")), "fl": int(k.get("fl", "0")), "ents": ents}


def oracle_case(case_lines, hlines, threaded):
    """full oracle: walks script lines and harness output together"""
    err = []
    ops = split_ops(hlines)
    # align ops with script lines (the echo shows 3 words only)
    script = [l.split() for l in case_lines]
    if len(ops) != len(script):
        return ["harness produced %d op echoes for %d script lines" % (len(ops), len(script))]
    cfg, resps, behs = {}, {}, {}
    objs = {}
    sent, conn = {}, {}
    stop_seen = [False]

    def S(c):
        return conn.setdefault(c, {"start": 0, "close": 0, "sclose": 0, "handler": {}, "ver": {}, "completed": {}, "upgraded": False,
                                   "extra": b"", "updata": b"", "wire": b"", "upsent": b"", "accepted": [], "refused": [],
                                   "upg_r": None, "end": None, "closed_by_app": False, "close_op": None, "done_op": None,
                                   "wire_at_upgrade": None, "order": []})
    for i, ((op, outs), words) in enumerate(zip(ops, script)):
        o = words[0]
        if o == "cfg":
            cfg = kvs(words)
        elif o == "resp":
            r = {"kind": "copy", "code": 200, "size": 5, "conn": None, "flags": 0, "calls": []}
            for w in words[2:]:
                if w[:2] in ("h=", "d=", "f="):
                    r["calls"].append((w[0],) + tuple(unhx(x) for x in w[2:].split(":")))
                elif w[:2] == "o=":
                    r["calls"].append(("o", b"", b""))
                if w.startswith("kind="):
                    r["kind"] = w[5:]
                    if r["kind"].startswith("upgrade"):
                        r["conn"] = b"Upgrade"
                elif w.startswith("code="):
                    r["code"] = int(w[5:])
                elif w.startswith("size="):
                    r["size"] = int(w[5:])
                elif w.startswith("flags="):
                    r["flags"] = int(w[6:])
                elif w[:2] in ("h=", "d="):
                    n, v = [unhx(x) for x in w[2:].split(":")]
                    if n.lower() == b"connection":
                        if w[0] == "h":
                            r["conn"] = v if r["conn"] is None else r["conn"] + b", " + v
                        else:
                            toks = [t.strip() for t in (r["conn"] or b"").split(b",") if t.strip().lower() != v.strip().lower()]
                            r["conn"] = b", ".join(toks) if toks else None
            resps[int(words[1])] = r
        elif o == "send" and len(words) >= 3:
            c = int(words[1])
            # the harness reports how many bytes really went out
            n = None
            for l in outs:
                if l.startswith("sent "):
                    n = int(kvs(l.split())["n"])
            b = unhx(words[2])
            sent[c] = sent.get(c, b"") + (b if n is None else b[:n])
        elif o == "up-send" and len(words) >= 3:
            c = int(words[1])
            for l in outs:
                if l.startswith("up-sent "):
                    n = int(kvs(l.split())["n"])
                    if n != len(unhx(words[2])):
                        err.append("c=%d: application send was short (%d)" % (c, n))
                    S(c)["upsent"] += unhx(words[2])[:max(n, 0)]
        for l in outs:
            w = l.split()
            if not w:
                continue
            k = kvs(w)
            c = int(k["c"]) if "c" in k and k["c"].lstrip("-").isdigit() else None
            t = w[0]
            if t in ("bad-close", "unstable", "protocol-error", "fdset-failed", "start-failed"):
                err.append("harness reports: " + l)
            elif t == "resp-obj":
                objs[int(k["rid"])] = parse_obj_line(w)
            elif t == "conn-start":
                S(c)["start"] += 1
            elif t == "handler":
                r = int(k["r"])
                S(c)["handler"][r] = S(c)["handler"].get(r, 0) + 1
                S(c)["ver"][r] = unhx(k["ver"])
                if S(c)["upgraded"]:
                    err.append("c=%d: access handler called after the hand-over" % c)
            elif t == "queued":
                q = int(w[w.index("->") + 1])
                rec = (int(k["r"]), int(k["rid"]), int(k["code"]), int(k["unchanged"]))
                if q != 1 and o == "stop":
                    # internal threads: the handler ran while MHD_stop_daemon was already in progress; a refusal is then
                    # the shutdown rule of MHD_queue_response, not a precondition verdict
                    S(c)["refused_at_stop"] = S(c).get("refused_at_stop", 0) + 1
                    if rec[3] != 1:
                        err.append("c=%d: refused MHD_queue_response changed the connection (rid=%d)" % (c, rec[1]))
                    continue
                (S(c)["accepted"] if q == 1 else S(c)["refused"]).append(rec)
                if q != 1 and rec[3] != 1:
                    err.append("c=%d: refused MHD_queue_response changed the connection (rid=%d)" % (c, rec[1]))
            elif t == "io":
                if S(c)["upgraded"]:
                    err.append("c=%d: daemon performed %s on the socket after the hand-over" % (c, w[2]))
            elif t == "wire":
                S(c)["wire"] += unhx(w[2])
            elif t == "upgrade":
                x = S(c)
                if x["upgraded"]:
                    err.append("c=%d: upgrade handler called twice" % c)
                x["upgraded"] = True
                x["extra"] = unhx(k["extra"])
                x["upg_op"] = i
                if x["accepted"]:
                    x["upg_r"] = x["accepted"][-1][0]
                    x["upg_rid"] = x["accepted"][-1][1]
            elif t == "upgrade-sock":
                if k.get("same") != "1":
                    err.append("c=%d: the socket handed over is not the connection's socket" % c)
            elif t == "up-data":
                S(c)["updata"] += unhx(w[2])
            elif t == "up-closing":
                S(c)["closed_by_app"] = True
                S(c)["close_op"] = i
            elif t == "up-close":
                if w[-1] != "1":
                    err.append("c=%d: close action refused" % c)
                S(c)["closed_by_app"] = True
                S(c)["close_op"] = i
            elif t == "completed":
                r = int(k["r"]) if k["r"].isdigit() else -1
                S(c)["completed"][r] = S(c)["completed"].get(r, 0) + 1
                S(c)["order"].append("completed")
                x = S(c)
                if x["upgraded"]:
                    if int(k["code"]) != 0:
                        err.append("c=%d: upgraded request completed with code %s" % (c, k["code"]))
                    # thread-per-connection: the connection's thread reports the HTTP request as completed as soon as the
                    # upgrade handler has returned (daemon.c thread_main_handle_connection: "Normal HTTP processing is
                    # finished, notify application"); everywhere else the notification belongs to the release
                    if not x["closed_by_app"] and o != "stop" and cfg.get("mode") != "tpc":
                        err.append("c=%d: completion notified while the application still owns the socket" % c)
            elif t == "conn-close":
                S(c)["close"] += 1; S(c)["order"].append("conn-close"); S(c)["done_op"] = i
                if S(c)["upgraded"] and not S(c)["closed_by_app"] and o != "stop":
                    err.append("c=%d: connection released while the application still owns the socket" % c)
            elif t == "sock-close":
                S(c)["sclose"] += 1; S(c)["order"].append("sock-close")
            elif t in ("eof", "rst"):
                S(c)["end"] = t
        # 101 head must be complete at the first report after the hand-over
        # (ops that drain the client side: round, rounds, stop, arrive)
        for c, x in conn.items():
            if x["upgraded"] and x["wire_at_upgrade"] is None and x.get("upg_op", 1 << 30) <= i \
                    and o in ("round", "rounds", "stop", "arrive"):
                x["wire_at_upgrade"] = x["wire"]
        if o == "stop":
            stop_seen[0] = True
    # ---- end-of-case judgements
    for c, x in sorted(conn.items()):
        stream = sent.get(c, b"")
        if threaded and x["start"] == 0 and x["close"] == 0 and not x["handler"] and not x["upgraded"] and x["sclose"] == 1:
            continue      # stopped before the daemon's thread had taken the new connection up: closed without notifications
        if x["start"] != 1:
            err.append("c=%d: %d connection-started notifications" % (c, x["start"]))
        if stop_seen[0] or x["close"]:
            if x["close"] != 1:
                err.append("c=%d: %d connection-closed notifications" % (c, x["close"]))
            if x["sclose"] != 1:
                err.append("c=%d: socket closed %d times" % (c, x["sclose"]))
        for r, n in x["handler"].items():
            if (stop_seen[0] or x["close"]) and x["completed"].get(r, 0) != 1:
                err.append("c=%d: request %d got %d completion notifications" % (c, r, x["completed"].get(r, 0)))
        for r, n in x["completed"].items():
            if n > 1 or r not in x["handler"]:
                err.append("c=%d: completion for request %d reported %d times / without handler call" % (c, r, n))
        o = x["order"]
        if "conn-close" in o and "completed" in o and o.index("conn-close") < len(o) - 1 - o[::-1].index("completed"):
            err.append("c=%d: completion notified after connection-closed" % c)
        # accepted upgrade responses must satisfy every precondition
        for (r, rid, code, _u) in x["accepted"]:
            rs = resps.get(rid, {"kind": "copy", "code": 200, "conn": None})
            if rs["kind"].startswith("upgrade") and rid in objs and "calls" in rs:
                rs = dict(rs, conn=spec_connection_value(True, rs["calls"], objs[rid]["rets"])[0])
            if rs["kind"].startswith("upgrade"):
                why = []
                if cfg.get("upgrade") != "1":
                    why.append("daemon started without MHD_ALLOW_UPGRADE")
                if code != 101:
                    why.append("status %d" % code)
                if rs["conn"] is None or not spec_has_upgrade_token(rs["conn"]):
                    why.append("no upgrade token in the Connection header")
                if x["ver"].get(r) not in (b"HTTP/1.1",) and not re.match(rb"HTTP/1\.[2-9]$", x["ver"].get(r, b"")):
                    why.append("request version %r" % x["ver"].get(r))
                if objs.get(rid, {}).get("fl", 0) & 3:
                    why.append("HTTP/1.0 response flags set (a 1xx status is not allowed then)")
                if why:
                    err.append("c=%d: upgrade response accepted although: %s" % (c, "; ".join(why)))
            elif code == 101:
                err.append("c=%d: 101 accepted with a plain response object" % c)
        # the feature must work: a refused upgrade response must violate some precondition
        for (r, rid, code, _u) in x["refused"]:
            rs = resps.get(rid, {"kind": "copy", "code": 200, "conn": None})
            if rs["kind"].startswith("upgrade") and rid in objs and "calls" in rs:
                rs = dict(rs, conn=spec_connection_value(True, rs["calls"], objs[rid]["rets"])[0])
            if rs["kind"].startswith("upgrade") and cfg.get("upgrade") == "1" and code == 101 and rs["conn"] is not None \
                    and not (objs.get(rid, {}).get("fl", 0) & 3) \
                    and spec_has_upgrade_token(rs["conn"]) and not re.search(rb"(^|, )u(p(g(r(a(d)?)?)?)?)?,", rs["conn"].lower()) \
                    and (x["ver"].get(r) == b"HTTP/1.1" or re.match(rb"HTTP/1\.[2-9]$", x["ver"].get(r, b""))):
                # (values in which a proper prefix of the token precedes a comma are left out: has_token misses those)
                err.append("c=%d: upgrade response meeting every precondition was refused" % c)
        # refused, then an ordinary response: must be served
        for (r, rid, code, _u) in x["refused"]:
            later = [a for a in x["accepted"] if a[0] == r]
            if later:
                rs = resps.get(later[-1][1], {"kind": "copy", "code": 200, "size": 5})
                if not rs["kind"].startswith("upgrade"):
                    body = bytes((97 + (later[-1][1] * 7 + j) % 26) for j in range(rs.get("size", 5)))
                    if (b"HTTP/1.1 %d " % later[-1][2]) not in x["wire"] or body not in x["wire"]:
                        err.append("c=%d: response queued after a refused upgrade was not served" % c)
        if x["upgraded"]:
            # (1a) wire = exactly one 101 head (+ what the application wrote itself)
            w = x["wire"]
            m = re.match(rb"HTTP/1\.1 101 Switching Protocols\r\n((?:[!-9;-~]+: [^\r\n]*\r\n)+)\r\n", w)
            if not m:
                err.append("c=%d: client did not receive a well-formed 101 head" % c)
            else:
                head = m.group(0)
                hdrs = m.group(1).lower()
                if b"content-length:" in hdrs or b"transfer-encoding:" in hdrs:
                    err.append("c=%d: 101 head carries body framing headers" % c)
                cm = re.search(rb"(?:^|\r\n)connection: ([^\r]*)\r\n", hdrs)
                if not cm or not spec_has_upgrade_token(cm.group(1)):
                    err.append("c=%d: 101 head without Connection: upgrade" % c)
                # exactly the reply head of the response object the application queued: its headers verbatim and in
                # order, nothing added by the daemon but the Date (no Keep-Alive / close token, no body framing)
                ob = objs.get(x.get("upg_rid"))
                if ob is not None:
                    if not re.fullmatch(spec_upgrade_head(ob["ents"], cfg.get("nodate") == "1"), head, re.S):
                        err.append("c=%d: the 101 head on the wire is not the head of the queued response object (wire %r object %r)"
                                   % (c, head, [(n, v) for (kk, n, v) in ob["ents"] if kk == "H"]))
                    rs = resps.get(x.get("upg_rid"))
                    if rs is not None:
                        want, cerr = spec_connection_value(True, rs["calls"], ob["rets"])
                        if cerr:
                            err.append("c=%d: %s" % (c, cerr))
                        elif cm and cm.group(1) != (want or b"").lower():
                            err.append("c=%d: Connection value on the wire differs from the application's value (%r, %r)" % (c, cm.group(1), want))
                if cm and any(tk in (b"close", b"keep-alive") for tk in conn_tokens(cm.group(1))):
                    err.append("c=%d: 101 head announces close / keep-alive (%r)" % (c, cm.group(1)))
                if w[len(head):] != x["upsent"]:
                    err.append("c=%d: bytes after the 101 head differ from what the application sent "
                               "(%d vs %d bytes)" % (c, len(w) - len(head), len(x["upsent"])))
                if x["wire_at_upgrade"] is not None and not x["wire_at_upgrade"].startswith(head):
                    err.append("c=%d: 101 head not completely sent before the hand-over" % c)
            # (1b) bytes after the head reach the application exactly once, in order
            r = x["upg_r"] if x["upg_r"] is not None else 0
            pos, ok = 0, True
            for _ in range(r + 1):
                e = stream.find(b"\r\n\r\n", pos)
                if e < 0:
                    ok = False; break
                pos = e + 4
            if not ok:
                err.append("c=%d: upgraded before the request head was complete" % c)
            else:
                following = stream[pos:]
                got = x["extra"] + x["updata"]
                if not following.startswith(got):
                    err.append("c=%d: extra data + application reads (%s) is not a prefix of the bytes sent after the head (%s)"
                               % (c, got.hex(), following.hex()))
                else:
                    left = following[len(got):]
                    if x["end"] == "eof" and left:
                        err.append("c=%d: %d bytes sent after the head were lost (socket closed clean)" % (c, len(left)))
                    if x["end"] == "rst" and not left:
                        err.append("c=%d: socket reset although every byte was delivered" % c)
            # (3) timely release after the close action (scripted loops only)
            if x["closed_by_app"] and not threaded and x["close_op"] is not None:
                rounds_after = [j for j in range(x["close_op"] + 1, len(script)) if script[j][0] in ("round", "rounds")]
                if rounds_after and (x["done_op"] is None or x["done_op"] > rounds_after[0]) and not \
                        (x["done_op"] is not None and script[x["done_op"]][0] == "stop" and x["done_op"] < rounds_after[0]):
                    # inside-the-handler close happens during a round: release may take the following round
                    if not (script[x["close_op"]][0] in ("round", "rounds") and len(rounds_after) >= 1
                            and x["done_op"] is not None and x["done_op"] <= rounds_after[0]):
                        err.append("c=%d: connection not released in the round after the close action" % c)
    return err


# --------------------------------------------------------------------------- engine `upgtls`: process_urh white-box

TLS_RES_OK = ["ok:1", "ok:2", "ok:3", "ok:5", "ok:8", "ok:17", "ok:999"]


def gen_tls_cases(ctx, tier):
    """random histories of one forwarding handle: client / application writes, visits with any readiness bits and any
    outcome of the four I/O calls, the close action, a shutdown visit.  `clean` cases use no hard errors and end with a
    drain phase: there everything must arrive."""
    rng = ctx.rng
    cases = []
    n = 12000 if tier == "thorough" else 1500
    for j in range(n):
        clean = (j % 3 == 0)
        cap = rng.choice([1, 2, 3, 5, 8, 16, 64])
        L = ["case tls-%d" % j, "init cap=%d%s" % (cap, " tpc=1" if j % 7 == 3 else "")]
        closed = False
        total = 0
        for _ in range(rng.randint(3, 14)):
            x = rng.random()
            if x < 0.25:
                k = rng.randint(1, 20); total += k
                L.append("csend " + bytes(rng.randrange(256) for _ in range(k)).hex())
            elif x < 0.45 and not closed:
                k = rng.randint(1, 20); total += k
                L.append("asend " + bytes(rng.randrange(256) for _ in range(k)).hex())
            elif x < 0.50 and not clean and not closed:
                L.append("aclose"); closed = True
            else:
                def res(err_ok):
                    y = rng.random()
                    if y < 0.70:
                        return rng.choice(TLS_RES_OK)
                    if y < 0.85 or not err_ok:
                        return rng.choice(["again", "intr"])
                    return rng.choice(["eof", "fatal"])
                bits = (lambda: rng.choice([0, 1, 2, 3, 3, 3])) if clean else (lambda: rng.choice([0, 1, 2, 3, 3, 3, 4, 5, 6, 7]))
                L.append("visit lv=%d r=%d p=%d tr=%s pend=%d pr=%s ts=%s ps=%s%s" % (
                    rng.getrandbits(1), bits(), bits(), res(not clean), rng.getrandbits(1), res(not clean), res(not clean), res(not clean),
                    " sh=1" if (not clean and rng.random() < 0.04) else ""))
        if clean:
            for _ in range(total // cap + 4):
                L.append("visit lv=0 r=3 p=3 tr=ok:999 pend=0 pr=ok:999 ts=ok:999 ps=ok:999")
            L.append("aclose")
            L.append("visit lv=1 r=3 p=3 tr=again pend=0 pr=again ts=again ps=again")
        elif rng.random() < 0.5:
            L.append("visit lv=1 r=3 p=3 tr=ok:9 pend=0 pr=ok:9 ts=ok:9 ps=ok:9 sh=1")
        cases.append(Case("tls-%d" % j, L, meta={"kind": "tls", "clean": clean, "cap": cap}))
    return cases


def oracle_tls(lines, outs, clean):
    """independent statement of the forwarding property over what the real process_urh did: what reached the
    application is a prefix of what the client sent (with the forwarding buffer: as long as nothing had to be discarded),
    same for the other direction; fill levels within the allocation; a clean handle is empty; in a clean history
    everything arrives"""
    err = []
    csent = asent = to_app = to_cli = b""
    cap = 0
    in_drop = out_drop = False
    for l, o in zip(lines, outs):
        w = l.split()
        if w[0] == "init":
            cap = int(kvs(w)["cap"])
        elif w[0] == "csend":
            csent += bytes.fromhex(w[1])
        elif w[0] == "asend":
            k = kvs(o.split())
            asent += bytes.fromhex(w[1])[:int(k.get("n", "0"))]
        elif w[0] == "aclose":
            in_drop = True
        elif w[0] == "visit":
            if o.startswith("overrun"):
                err.append("forwarding buffer fill level above its allocation"); break
            k = kvs(o.split()); a = kvs(w)
            if "inU" not in k:
                err.append("unexpected output: " + o[:60]); break
            if a.get("sh") == "1":
                in_drop = out_drop = True
            if a.get("ps") in ("fatal", "eof"):
                in_drop = True
            if a.get("ts") in ("fatal", "eof"):
                out_drop = True
            to_app += unhx(k["app"]); to_cli += unhx(k["cli"])
            ib, ob = unhx(k["in"]), unhx(k["out"])
            if len(ib) != int(k["inU"]) or len(ob) != int(k["outU"]) or int(k["inU"]) > cap or int(k["outU"]) > cap \
                    or int(k["inS"]) not in (0, cap) or int(k["outS"]) not in (0, cap):
                err.append("fill level / size outside the allocation (%s)" % o[:60])
            if not csent.startswith(to_app if in_drop else to_app + ib):
                err.append("client->application: forwarded bytes are not a prefix of the sent ones (%s | %s)" % ((to_app + ib).hex(), csent.hex()))
            if not asent.startswith(to_cli if out_drop else to_cli + ob):
                err.append("application->client: forwarded bytes are not a prefix of the sent ones (%s | %s)" % ((to_cli + ob).hex(), asent.hex()))
            if k["cr"] == "1" and (k["inU"], k["inS"], k["outU"], k["outS"]) != ("0", "0", "0", "0"):
                err.append("clean_ready with data or an open direction (%s)" % o[:60])
            if k["cr"] == "1" and k["eof"] == "0":
                err.append("forwarding finished but the application does not see end of stream")
    if clean and not err:
        if to_app != csent:
            err.append("clean history: %d of %d client bytes reached the application" % (len(to_app), len(csent)))
        if to_cli != asent:
            err.append("clean history: %d of %d application bytes reached the client" % (len(to_cli), len(asent)))
        if not outs or "cr=1" not in outs[-1]:
            err.append("clean history: close action not completed")
    return err


# --------------------------------------------------------------------------- Spec

def sig_of(msg):
    return re.sub(r"c=\d+", "c=N", re.sub(r"\(.*", "", re.sub(r"\b\d+\b", "N", msg)))[:160]


class Spec:
    props_module = "Mhd.Props.C20"
    lean_targets = ["Mhd.Props.C20", "drv_upg"]
    required_theorems = ["Mhd.C20.lossless_handover", "Mhd.C20.head_found_for_every_split",
                         "Mhd.C20.following_bytes_reach_application", "Mhd.C20.wire_accounting", "Mhd.C20.wire_is_head101",
                         "Mhd.C20.upgrade_reply_is_head101", "Mhd.C20.no_daemon_io_after_handover",
                         "Mhd.C20.released_exactly_once_at_stop", "Mhd.C20.released_exactly_once_after_stop",
                         "Mhd.C20.never_twice", "Mhd.C20.close_action_releases_in_next_round",
                         "Mhd.C20.refused_unchanged", "Mhd.C20.unmet_precondition_refused",
                         "Mhd.C20.ordinary_response_after_refusal_accepted",
                         "Mhd.C20.head101_is_reply_builder", "Mhd.C20.upgrade_head_connection_tokens", "Mhd.C20.head101_explicit",
                         "Mhd.C20.upgrade_head_indep_of_request", "Mhd.C20.upgrade_head_any_method", "Mhd.C20.accepted_upgrade_is_101_http11",
                         "Mhd.C20.tls_forwarding_fifo", "Mhd.C20.tls_buffers_never_overrun", "Mhd.C20.tls_no_loss_client_to_app",
                         "Mhd.C20.tls_no_loss_app_to_client", "Mhd.C20.tls_released_exactly_once", "Mhd.C20.tls_app_close_completes",
                         "Mhd.C20.tls_stop_completes", "Mhd.C20.tls_client_close_stops_reading"]
    trusted_base = ["Lean 4 kernel", "axioms: propext, Classical.choice, Quot.sound at most (audited per theorem)",
                    "hand-written model lean/Mhd/Model/Upg.lean + UpgDaemon.lean tied to connection.c/response.c/daemon.c by this run's correspondence",
                    "the 101 head is C04's reply-builder model (lean/Mhd/Model/Reply.lean, Resp.lean) applied to the response object; tied here by "
                    "the exact-head oracle and the response-object comparison (call results, flags_auto, header list) of every decorated case",
                    "hand-written model lean/Mhd/Model/UpgTls.lean of process_urh and its callers' finish test, tied by the white-box engine upgtls "
                    "(harness/h_upgtls.c: the real static process_urh, real MHD_connection_finish_forward_ and MHD_upgrade_action; GnuTLS record "
                    "functions and recv/send on the forwarding socketpair interposed at link time and scripted)",
                    "request-head parser and ordinary reply bytes are parameters of the model (C02/C03/C04)",
                    "tools/props/C20.py gen_upg (status 101, reason phrase, header names, token, termination codes, version table regenerated)",
                    "harness/h_upg.c (socketpair connections, interposed recv/send/sendmsg/writev/shutdown/close), gcc, ASan/UBSan"]
    assumptions = ["thread-per-connection, release of the upgrade handle only after the connection's thread has returned from the upgrade "
                   "handler and was joined: no theorem (the model has no thread identity); tie only — upgrade handler gated by the script "
                   "(close inside the handler then the handler continues / close from the script while the handler runs) x all thread "
                   "configurations, ASan",
                   "thread-per-connection: the completion notification of the upgraded request is delivered when the upgrade handler returns "
                   "(daemon.c thread_main_handle_connection), not with the release; the oracle accepts that there, the model (not "
                   "thread-per-connection) is compared without the position of that event",
                   "hand-over / cleanup model: non-TLS daemon; TLS forwarding: the record layer (GnuTLS) and the socketpair are the environment of the "
                   "model (any result of each I/O call), the daemon lists around it (urh list, resume / cleanup of a TLS connection) are modelled "
                   "but tied only up to the finish test (the TLS release path is not run against the real daemon: no TLS handshake in the harness)",
                   "a request with both Content-Length and chunked Transfer-Encoding forces MUST_CLOSE on the connection; since fix F37 "
                   "(88c7ade) keepalive_possible() decides an upgrade response first: the request variation `te-cl-early` is always generated "
                   "and judged by the exact-head oracle (a return of `Connection: close, Upgrade` is a violation)",
                   "not thread-per-connection in the model; internal-thread modes (select/poll/epoll with one thread, thread pools of 1-4, thread "
                   "per connection) x close inside the handler / later / never before stop are covered by the oracle and a relaxed comparison "
                   "(recv partition from the log, round markers and FIN/RST at close not compared)",
                   "application uses the upgrade handle as documented (one CLOSE action, no use after it)",
                   "requests without body; no allocation failure at hand-over (C07)"]

    def gen(self, ctx):
        gen_upg()
        # the 101 head is C04's reply-builder model applied to the response object: its generated constants
        # (header names, reason phrases, version strings) are regenerated here too (C04's translator, unchanged)
        import importlib
        importlib.import_module("props.C04").gen_reply()

    def build(self, ctx):
        self.harness = vlib.build_daemon_harness(name="h_upg", src="harness/h_upg.c", ldextra=["-ldl"])
        self.tls_harness = vlib.build_daemon_harness(name="h_upgtls", src="harness/h_upgtls.c", exclude=("daemon.c",), ldextra=["-ldl"])
        self.driver = vlib.driver_path("drv_upg")

    # -- one batch of cases through harness, driver, oracle
    def run_cases(self, cases, failures, stats):
        hout, hrc, herr = vlib.run_lines(self.harness, tag_case_lines(cases), timeout=1500)
        hby = split_by_case(split_ops(hout))
        # every script is judged on the output block that carries ITS marker; scripts without a block were not run
        # (the harness aborted in an earlier one): the last script that has a block is the one that was executing
        have = [k for k in range(len(cases)) if k in hby]
        if hrc != 0:
            bad = cases[have[-1]] if have else cases[0]
            failures.append(vlib.Failure("sanitizer", "upg: harness aborted (rc=%d) kind=%s" % (hrc, bad.meta.get("kind")),
                                         herr[-2500:], bad.lines, "upg"))
            have = have[:-1]
        elif len(have) != len(cases) or None in hby:
            miss = [k for k in range(len(cases)) if k not in hby]
            sa = hby.get("stray_after")
            bad = cases[miss[0]] if miss else cases[sa if isinstance(sa, int) and sa < len(cases) else 0]
            failures.append(vlib.Failure("diff", "upg: harness output without / outside a case marker",
                                         "scripts without output block: %s; output outside any script: %s"
                                         % ([cases[k].name for k in miss[:5]], None in hby), bad.lines, "upg"))
        stats["not_run_after_abort"] = stats.get("not_run_after_abort", 0) + (len(cases) - len(have) - (1 if hrc != 0 else 0))
        cases = [cases[k] for k in have]
        per = [hby[k] for k in have]
        # driver input: same lines + recv-size hints where the model is not predictive
        dcases = []
        hcanon = []
        for cs, ops in zip(cases, per):
            seq, wire, recvs, glob, hobjs = canon_harness(ops)
            hcanon.append((seq, wire, glob, hobjs))
            ins = ["rd %d %s" % (c, ",".join(str(x) for x in recvs.get(c, [])) or "-") for c in sorted(cs.hints)]
            # hints go right after `start`
            out = []
            sent_n = [int(kvs(o.split())["n"]) for (op, outs) in ops if op and op[0] == "send" for o in outs if o.startswith("sent ")]
            for l in cs.lines:
                if cs.relaxed and l.startswith("send ") and sent_n:
                    # internal thread: the daemon may already have closed the socket; feed what really went out
                    w = l.split(); n = sent_n.pop(0)
                    l = "send %s %s" % (w[1], hx(unhx(w[2])[:n]))
                out.append(l)
                if l == "start":
                    out += ins
            dcases.append(Case(cs.name, out))
        mout, mrc, merr = vlib.run_lines(self.driver, tag_case_lines(dcases), timeout=1500)
        mby = split_by_case(split_ops(mout))
        mper = [mby.get(k) for k in range(len(cases))]
        for idx, (cs, ops) in enumerate(zip(cases, per)):
            stats["cases"] += 1
            stats["kind:" + cs.meta.get("kind", "?")] = stats.get("kind:" + cs.meta.get("kind", "?"), 0) + 1
            if cs.meta.get("kind") == "hdr":
                acc = any(it.startswith("upgrade ") for sq in hcanon[idx][0].values() for it in sq)
                for key in ("hdr_flags:%d" % cs.meta["flags"], "hdr_conn:" + cs.meta["conn"], "hdr_other:" + cs.meta["other"],
                            "hdr_req:" + cs.meta["req"], "hdr_outcome:" + ("handed-over" if acc else "refused"),
                            "hdr_nodate:%d" % int(cs.meta["nodate"])):
                    stats[key] = stats.get(key, 0) + 1
                if acc and cs.meta["flags"] & 8:
                    stats["hdr_keepalive_flag_handed_over"] = stats.get("hdr_keepalive_flag_handed_over", 0) + 1
            flat = ["# " + " ".join(op)] if False else None
            hl = []
            for (op, outs) in ops:
                hl.append("# " + " ".join(op)); hl += outs
            oerr = oracle_case(cs.lines, hl, cs.relaxed)
            hseq, hwire, hglob, hobjs = hcanon[idx]
            for c, s in hseq.items():
                for it in s:
                    key = it.split()[0]
                    stats["ev:" + key] = stats.get("ev:" + key, 0) + 1
                    if key == "upgrade":
                        stats["extra_len:%d" % (len(it.split("=", 1)[1]) // 2 if not it.endswith("-") else 0)] = \
                            stats.get("extra_len:%d" % (len(it.split("=", 1)[1]) // 2 if not it.endswith("-") else 0), 0) + 1
            derr = None
            if mper[idx] is not None:
                mseq, mwire, mglob, mobjs = canon_driver(mper[idx])
                if "unsupported" in " ".join(mglob):
                    stats["driver_unsupported"] = stats.get("driver_unsupported", 0) + 1
                elif cs.relaxed and any(g.startswith("bad-op") for g in hglob):
                    # internal thread slower than the script's pauses: an application op came before the
                    # hand-over.  Timing, not behaviour: the oracle alone judges this case.
                    stats["thr_timing_oracle_only"] = stats.get("thr_timing_oracle_only", 0) + 1
                else:
                    for c in sorted(set(hseq) | set(mseq)):
                        a, b = hseq.get(c, []), mseq.get(c, [])
                        if cs.relaxed:      # internal thread: rounds are pauses; order w.r.t. markers may shift
                            a = [x for x in a if not x.startswith("@")]; b = [x for x in b if not x.startswith("@")]
                            # FIN or RST at the daemon's close depends on whether the client's last bytes arrived before it:
                            # the oracle judges it against what was delivered
                            a = ["end" if x in ("eof", "rst") else x for x in a]; b = ["end" if x in ("eof", "rst") else x for x in b]
                        if cs.meta.get("mode") == "tpc":
                            # the model is not thread-per-connection: there the completion notification comes right after the
                            # hand-over instead of with the release (its count and its place before connection-closed: oracle)
                            a = [x for x in a if not x.startswith("completed")]; b = [x for x in b if not x.startswith("completed")]
                        if a != b:
                            j = next((i for i in range(min(len(a), len(b))) if a[i] != b[i]), min(len(a), len(b)))
                            derr = "c=%d event %d: code '%s' model '%s'" % (c, j, a[j] if j < len(a) else "<end>", b[j] if j < len(b) else "<end>")
                            break
                        if hwire.get(c, b"") != mwire.get(c, b""):
                            derr = "c=%d wire: code %s model %s" % (c, hwire.get(c, b"").hex(), mwire.get(c, b"").hex())
                            break
                    if derr is None and [g for g in hglob if not g.startswith("tok")] != [g for g in mglob if not g.startswith("tok")]:
                        derr = "global: code %s model %s" % (hglob[:3], mglob[:3])
                    # the response objects (call results, flags_auto, flags, header list) as the application built them
                    for rid, ho in sorted(hobjs.items()):
                        stats["resp_objects_compared"] = stats.get("resp_objects_compared", 0) + 1
                        if derr is None and mobjs.get(rid) != ho:
                            derr = "response object rid=%s: code '%s' model '%s'" % (rid, ho, mobjs.get(rid))
            else:
                derr = "driver produced no output for this case: " + merr[-300:]
            if oerr:
                failures.append(vlib.Failure("oracle", "upg: " + sig_of(oerr[0]), "; ".join(oerr[:4]) + (" | model diff: " + derr if derr else ""),
                                             cs.lines, "upg"))
            elif derr:
                failures.append(vlib.Failure("diff", "upg: model/code differ (%s) %s" % (cs.meta.get("kind"), sig_of(derr.split(":")[0])),
                                             derr, cs.lines, "upg"))

    def run_tls(self, cases, failures, stats):
        lines = tag_case_lines(cases)
        hout, hrc, herr = vlib.run_lines(self.tls_harness, lines, timeout=1500)
        mout, mrc, merr = vlib.run_lines(self.driver, lines, timeout=1500)
        mout = [l for l in mout if not l.startswith("# ") and l != "#"]      # the driver echoes the operation

        def blocks(out):       # {k: output lines of script k}, found by the tagged `case` line each script prints
            d, cur = {}, None
            for l in out:
                m = re.match(r"case @(\d+)@", l)
                if m:
                    cur = d[int(m.group(1))] = []
                if cur is not None:
                    cur.append(l)
            return d
        hb, mb = blocks(hout), blocks(mout)
        for k, cs in enumerate(cases):
            n = len(cs.lines)
            if k not in hb:
                if hrc == 0:
                    failures.append(vlib.Failure("diff", "upgtls: no output block for a script", cs.name, cs.lines, "upgtls"))
                continue                      # not run: the harness aborted in an earlier script (reported there)
            ho, mo = hb[k], mb.get(k, [])
            stats["tls_cases"] = stats.get("tls_cases", 0) + 1
            if len(ho) < n:
                failures.append(vlib.Failure("sanitizer", "upgtls: harness aborted (rc=%d)" % hrc, herr[-2500:], cs.lines, "upgtls"))
                continue
            for l, o in zip(cs.lines, ho):
                if l.startswith("visit"):
                    k = kvs(o.split())
                    stats["tls_visits"] = stats.get("tls_visits", 0) + 1
                    stats["tls_io:" + k.get("io", "?")] = stats.get("tls_io:" + k.get("io", "?"), 0) + 1
                    if k.get("cr") == "1":
                        stats["tls_visit_clean_ready"] = stats.get("tls_visit_clean_ready", 0) + 1
                    if k.get("inS") == "0" and k.get("cr") == "0":
                        stats["tls_visit_in_stopped"] = stats.get("tls_visit_in_stopped", 0) + 1
                    if k.get("outS") == "0" and k.get("cr") == "0":
                        stats["tls_visit_out_stopped"] = stats.get("tls_visit_out_stopped", 0) + 1
            oerr = oracle_tls(cs.lines, ho, cs.meta.get("clean"))
            derr = None
            for i, (a, b) in enumerate(zip(ho, mo + [""] * n)):
                if a != b:
                    derr = "line %d '%s': code '%s' model '%s'" % (i, cs.lines[i][:80], a, b)
                    break
            if oerr:
                failures.append(vlib.Failure("oracle", "upgtls: " + sig_of(oerr[0]), "; ".join(oerr[:3]) + (" | model diff: " + derr if derr else ""),
                                             cs.lines, "upgtls"))
            elif derr:
                failures.append(vlib.Failure("diff", "upgtls: model/code differ " + sig_of(derr.split("'")[1].split()[0]), derr, cs.lines, "upgtls"))

    def run_tok(self, tier, failures, stats):
        lines = ["case tok"] + gen_tok_lines(tier)
        hout, hrc, herr = vlib.run_lines(self.harness, lines)
        mout, mrc, merr = vlib.run_lines(self.driver, lines)
        h = [l for l in hout if l.startswith("tok ")]
        m = [l for l in mout if l.startswith("tok ")]
        stats["tok_values"] = len(lines) - 1
        stats["tok_true"] = sum(1 for l in h if l == "tok 1")
        if hrc != 0:
            failures.append(vlib.Failure("sanitizer", "upg: harness aborted in token probe", herr[-1500:], lines[:50], "upg")); return
        if len(h) != len(lines) - 1 or len(m) != len(lines) - 1:
            failures.append(vlib.Failure("diff", "upg: token probe output incomplete", "%d/%d" % (len(h), len(m)), lines[:5], "upg")); return
        for l, a, b in zip(lines[1:], h, m):
            if a != b:
                failures.append(vlib.Failure("diff", "upg: has_token model/code differ", "%s: code %s model %s" % (l, a, b), ["case tok", l], "upg"))
                return
            # spec side: a value MHD accepts must contain the token in the RFC sense
            if a == "tok 1" and not spec_has_upgrade_token(unhx(l.split()[1])):
                failures.append(vlib.Failure("oracle", "upg: has_token accepts a value without the token", l, ["case tok", l], "upg"))
                return

    def explore(self, ctx, boost):
        failures, stats = [], {"cases": 0}
        cases = []
        cdir = os.path.join(vlib.VERIF, "corpus", "upg")
        ncorp = 0
        if os.path.isdir(cdir):
            for f in sorted(os.listdir(cdir)):
                txt = open(os.path.join(cdir, f)).read()
                if f.endswith(".json"):       # a stored failure record (replay file): its `input` is the script
                    try:
                        r = json.loads(txt)
                        ls = r.get("input") or (r.get("disagreements") or [{}])[0].get("input") or []
                    except ValueError:
                        ls = []
                    ls = [l for l in ls if isinstance(l, str) and l.strip()]
                else:
                    ls = [l for l in txt.splitlines() if l.strip() and not l.startswith("//")]
                if not ls or ls[0] == "case tok":
                    continue
                cases.append(Case("corpus-" + f, ls, hints=range(8), meta={"kind": "corpus", "file": f})); ncorp += 1
        split = gen_split_cases(ctx, ctx.tier)
        pre = gen_refusal_cases(ctx, ctx.tier)
        multi = gen_multi_cases(ctx, ctx.tier)
        hdr = gen_hdr_cases(ctx, ctx.tier)
        thr = gen_thr_cases(ctx, ctx.tier)      # quick: one case per (thread configuration, close timing)
        if boost:
            split += gen_split_cases(ctx, ctx.tier)
        cases += pre + hdr + multi + split
        self.run_tok(ctx.tier, failures, stats)
        # parallel batches
        B = max(50, len(cases) // (vlib.NCPU * 2) + 1)
        batches = [cases[i:i + B] for i in range(0, len(cases), B)]
        import concurrent.futures as cf

        def work(b):
            fl, stt = [], {"cases": 0}
            self.run_cases(b, fl, stt)
            return fl, stt
        with cf.ThreadPoolExecutor(max_workers=max(2, vlib.NCPU - 2)) as ex:
            for fl, stt in ex.map(work, batches):
                failures += fl
                for k, v in stt.items():
                    stats[k] = stats.get(k, 0) + v
        for b in [thr[i:i + 6] for i in range(0, len(thr), 6)]:
            self.run_cases(b, failures, stats)
        tls = gen_tls_cases(ctx, ctx.tier)
        for b in [tls[i:i + 500] for i in range(0, len(tls), 500)]:
            self.run_tls(b, failures, stats)
        allc = cases + thr + tls
        distinct = len({"\n".join(c.lines[1:]) for c in allc})
        stream_len = len(mk_head() + FOLLOW)
        cov = {"evaluations": len(allc) + stats.get("tok_values", 0), "distinct_nontrivial": distinct,
               "rule": "distinct = different scripts (case name excluded); every case runs the real daemon (h_upg), the Lean driver "
                       "and the independent oracle",
               "samples": [allc[len(allc) // 3].lines, allc[-1].lines[:25]] if allc else [],
               "exhaustive": False,
               "exhaustive_subdomains": {"two_way_splits_of_head_plus_40": "all %d positions x {inside,later,never} x {select,epoll} x arenas {1024,4096,32768}" % (stream_len - 1),
                                         "byte_by_byte": "x 3 timings x 2 modes x 3 arenas",
                                         "has_token": "all concatenations of <= %d pieces of %d (%d values)" % (5 if ctx.tier == "thorough" else 4, len(TOK_PIECES), stats.get("tok_values", 0))},
               "thread_configurations": ["%s pool=%d" % c for c in THR_CONFIGS],
               "counts": {"split": len(split), "precondition": len(pre), "decorated_response": len(hdr), "tls_forwarding": len(tls), "multi_connection": len(multi), "internal_thread": len(thr), "corpus": ncorp},
               "distribution": {k: v for k, v in sorted(stats.items())},
               "strength": {"MHD_queue_response upgrade checks": "each precondition violated alone + controls, x early/final x modes (bounded-exhaustive)",
                            "execute_upgrade extra data": "exhaustive over 2-way split positions, random 3-way, byte-by-byte",
                            "resume/cleanup/stop": "3 close timings x rounds 0..3 x modes; random multi-connection interleavings (%d)" % len(multi),
                            "MHD_str_has_token_caseless_": "bounded-exhaustive differential",
                            "101 head = reply builder on the application's response object":
                                "%d Connection edits x %d response-flag sets (all 4 legal + 5 refused), %d header decorations x 4 legal flag sets x %d "
                                "request variations, keep-alive flag x request variations x timing x mode; + random combinations; exact head "
                                "oracle (MHD_get_response_headers entries verbatim) on every hand-over"
                                % (len(CONN_EDITS), len(FLAGS_OK) + len(FLAGS_REFUSED), len(OTHER_HDRS), len(REQ_VARS))}}
        return failures, cov


def replay(ctx, path):
    r = json.load(open(path))
    sp = Spec(); sp.gen(ctx); vlib.lake_build(sp.lean_targets); sp.build(ctx)
    fl, st = [], {"cases": 0}
    lines = r["input"]
    if lines and lines[0] == "case tok":
        hout, _, _ = vlib.run_lines(sp.harness, lines); mout, _, _ = vlib.run_lines(sp.driver, lines)
        print("harness:", [l for l in hout if l.startswith("tok")], "model:", [l for l in mout if l.startswith("tok")])
        return 0
    sp.run_cases([Case("replay", lines, hints=range(8) if r.get("hints", True) else [])], fl, st)
    for f in fl:
        print(f.kind, f.signature, f.detail)
    if not fl:
        print("harness, driver and oracle agree: no violation on this input")
    return 1 if fl else 0
