"""C09 — connection limits hold and no capacity or resource is ever leaked.  Engine `daemon`.

Correspondence: harness/h_limits.c (the real daemon.c / response.c / connection.c, scripted) and
lean/Driver/Daemon.lean (the Lean model) execute the same histories; the events each script line
produces are compared.  Oracle: an independent re-statement of the property over the harness log.
"""
import json, os, re
import vlib, extract

ENGINE = "daemon"
SETTLE = "settle"

# ----------------------------------------------------------------- translator (A)

def gen_limits():
    from extract import c_eval, HEADER, GEN, prev_value
    r = vlib.sh(["gcc", "-E", "-dM"] + vlib.CFLAGS_COMMON + [os.path.join(vlib.REPO, "src/microhttpd/daemon.c")])
    d = dict(re.findall(r"^#define (MHD_MAX_CONNECTIONS_DEFAULT|MHD_POOL_SIZE_DEFAULT) (.*)$", r.stdout, re.M))
    if "MHD_MAX_CONNECTIONS_DEFAULT" in d and "MHD_POOL_SIZE_DEFAULT" in d:
        v = c_eval('#include "MHD_config.h"\n#include "internal.h"\n#include "mhd_itc.h"\n',
                   [("limit", "%d", "(int) (%s)" % d["MHD_MAX_CONNECTIONS_DEFAULT"]),
                    ("pool", "%d", "(int) (%s)" % d["MHD_POOL_SIZE_DEFAULT"])])
        limit, pool = v["limit"], v["pool"]
    else:   # macro renamed: keep the last value, the correspondence run decides
        limit = prev_value("Limits.lean", "defaultConnLimit", "1019")
        pool = prev_value("Limits.lean", "defaultPoolSize", "32768")
    out = HEADER % "src/microhttpd/daemon.c" + "namespace Mhd.Gen.Limits\n" \
        + "def defaultConnLimit : Nat := %s\n" % limit \
        + "def defaultPoolSize : Nat := %s\n" % pool \
        + "end Mhd.Gen.Limits\n"
    return vlib.write_if_changed(os.path.join(GEN, "Limits.lean"), out)


# ----------------------------------------------------------------- generators

# one response per constructor that takes a free callback (or owns a descriptor), with the degenerate inputs:
# 5 buffer_with_free_callback size 0, 6 buffer_with_free_callback_cls NULL/0, 7 iovec with no element, 8 iovec of empty
# elements, 9 iovec, 10 callback of unknown size, 11 pipe, 12 file descriptor, 13 callback of size 0, 14 iovec with
# empty elements in between.  A pipe / fd response "frees" by closing its descriptor (close() is interposed).
RESP_SETUP = ["resp-create 1 kind=freecb size=5", "resp-create 2 kind=cb size=600000",
              "resp-create 3 kind=upgrade", "resp-create 4 kind=cb size=5",
              "resp-create 5 kind=bufcb size=0", "resp-create 6 kind=freecbnull", "resp-create 7 kind=iov n=0",
              "resp-create 8 kind=iov n=3 size=0", "resp-create 9 kind=iov n=2 size=7", "resp-create 10 kind=cbunk size=5",
              "resp-create 11 kind=pipe size=5", "resp-create 12 kind=fd size=5", "resp-create 13 kind=cb size=0",
              "resp-create 14 kind=iov n=3 size=5 mix=1"]
ALL_RIDS = tuple(range(1, 15))
SMALL_RIDS = [1, 4, 5, 6, 7, 8, 9, 10, 11, 12, 13, 14]
SITES = ["ipnode", "conn", "addr", "pool"]


def tpc_write_wait_bounded():
    """regenerated flag: does a thread-per-connection thread that waits in select() for its socket to become writable
    use a bounded wait?  Without it MHD_stop_daemon() never returns when the connection is an AF_UNIX socket whose
    client does not read (shutdown() does not make a full AF_UNIX socket "writable" for select(): finding
    `tpc select stop hang`, build/fixes/C09_tpc_select_stop_hang.diff) - the scripts then keep away from it"""
    try:
        src = open(os.path.join(vlib.REPO, "src/microhttpd/daemon.c")).read()
    except OSError:
        return False
    i = src.find("thread_main_handle_connection (void *data)")
    body = src[i:i + 12000]
    return bool(re.search(r"MHD_EVENT_LOOP_INFO_WRITE == con->event_loop_info\)\s*\{[^}]*tvp = &tv;", body))


class Mirror:
    """generator-side guess of the script state (only used to pick sensible operations; the
    model driver removes whatever is not legal before a script is run)"""

    def __init__(self, cfg):
        self.cfg = cfg
        self.next = 0
        self.open = []       # ids believed to be open and idle
        self.susp = []
        self.upg = []
        self.held = []
        self.cclosed = set()
        self.resps = [1, 2, 4] + ([3] if cfg["upgrade"] else []) + SMALL_RIDS[2:]


def cfg_line(c):
    return "cfg mode=%s limit=%d perip=%d suspend=%d upgrade=%d nts=%d" % (
        c["mode"], c["limit"], c["perip"], c["suspend"], c["upgrade"], c["nts"]) \
        + (" listen=%d" % c["listen"] if c.get("listen") else "") + (" pool=%d" % c["pool"] if c.get("pool") else "")


ACCEPT_ERRNOS = ["EMFILE", "ENFILE", "ECONNABORTED", "EAGAIN"]


def script_addr(cfg, a):
    """script address -> the address class the configuration can produce: a real listen socket sees 127.0.0.<a>
    (listen=1) or its IPv4-mapped IPv6 form (listen=2, dual stack: keys 100+a); MHD_add_connection takes anything"""
    if cfg.get("listen") == 1:
        return (a % 100) or 9
    if cfg.get("listen") == 2:
        return 100 + ((a % 100) or 9)
    return a


def random_cfg(rng, modes):
    c = {"mode": rng.choice(modes), "limit": rng.randint(1, 4), "perip": rng.choice([0, 1, 1, 2, 2, 3]),
         "suspend": rng.choice([0, 1, 1]), "upgrade": rng.choice([0, 1, 1]), "nts": rng.choice([0, 0, 1])}
    if "-thr" in c["mode"] or c["mode"] == "tpc":
        # the daemon thread runs asynchronously: the model cannot tell which operations are legal at a given
        # script line, so no application-side suspend (a stop with a suspended connection is API misuse)
        c["suspend"] = 0; c["nts"] = 0
    return c


def close_everything(m):
    """script lines that end every connection the script may still have"""
    out = [SETTLE]
    for c in range(m.next):
        out.append("up-close %d" % c)
        out.append("resume %d" % c)
    out.append(SETTLE)
    for c in range(m.next):
        out.append("drain %d" % c)
        if c not in m.cclosed:
            out.append("cclose %d" % c)
            m.cclosed.add(c)
    out += [SETTLE, SETTLE]
    return out


def gen_history(rng, name, modes, nops=None, listen=0):
    cfg = random_cfg(rng, modes)
    if listen:
        cfg["listen"] = listen
    m = Mirror(cfg)
    L = ["case " + name, cfg_line(cfg), "start"] + RESP_SETUP
    n = nops if nops is not None else rng.randint(6, 26)
    naddr = 3

    def arrive():
        if m.next >= 22:
            return
        # 101, 102: the IPv4-mapped IPv6 forms of addresses 1, 2 (keys of their own in the per-address tree)
        a = rng.choice([1, 1, 2, 2, 3, 0, 101, 101, 102]) if rng.random() < 0.9 else rng.randint(0, naddr)
        a = script_addr(cfg, a)
        pol = 0 if rng.random() < 0.12 else 1
        if cfg.get("listen") and rng.random() < 0.25:
            L.append("accept-fail " + rng.choice(ACCEPT_ERRNOS))
        L.append("arrive %d %d %d" % (m.next, a, pol))
        m.open.append(m.next)
        m.next += 1

    for _ in range(n):
        r = rng.random()
        allc = list(range(m.next))
        if r < 0.34 or not allc:
            if rng.random() < 0.18:
                L.append("alloc-fail-site " + rng.choice(SITES))
            elif cfg["mode"].startswith("epoll") and rng.random() < 0.08:
                L.append("epoll-fail")
            arrive()
            if rng.random() < 0.15:
                L.append("alloc-fail-off")
        elif r < 0.52:
            L.append(SETTLE)
        elif r < 0.70:
            c = rng.choice(m.open) if m.open and rng.random() < 0.85 else rng.choice(allc)
            rid = rng.choice(m.resps + [1, 1, 4]) if rng.random() < 0.93 else rng.choice(list(ALL_RIDS))
            # a pipe can be read once: its response object serves one body (as an interim reply it is not read at all)
            if rid == 11:
                if getattr(m, "pipe_used", False):
                    rid = 12
                m.pipe_used = True
            kind = rng.choice(["reply", "reply", "reply", "replyc", "suspend" if cfg["suspend"] else "reply"])
            if rid == 3:
                # the application closes the upgraded session inside its upgrade handler / later / never before stop
                kind = rng.choice(["upgrade", "upgrade", "upgradec", "upgradec"])
            # (a client that stops reading blocks a big reply on the AF_UNIX pair only: loopback TCP buffers swallow it)
            # (and not in thread-per-connection mode as long as MHD_stop_daemon can hang there, see tpc_write_wait_bounded)
            if rid == 2 and rng.random() < 0.7 and not cfg.get("listen") and True:  # always, also in tpc mode (finding F39, repaired by 9f85107): a return of the stop hang must be reported
                L.append("hold %d" % c)
                m.held.append(c)
            # interim "102 Processing" replies before the final one (every handler call answers with one)
            pre = []
            if rng.random() < 0.3:
                pre = [rng.choice([4, 4, 1, 1, 2, 3] + m.resps) for _ in range(rng.choice([1, 1, 2, 3]))]
            if rng.random() < 0.06:
                kind, rid, pre = "bad", 0, []      # malformed request: the daemon answers with a response of its own
            L.append(" ".join(["req %d %s %d" % (c, kind, rid)] + [str(x) for x in pre]))
            if kind == "bad" and c in m.open:
                m.open.remove(c)
            if kind == "suspend":
                m.susp.append(c)
            if rid == 3 and c in m.open:
                m.open.remove(c); m.upg.append(c)
            if rng.random() < 0.7:
                L.append(SETTLE)
        elif r < 0.80:
            c = rng.choice(allc)
            # an upgrade reply and a client close must not be pending in the same settle:
            # whether the 101 header still reaches a closed AF_UNIX peer is not modelled
            # nor a client close with a suspended / just resumed connection (read-before-handler order is mode dependent)
            if c not in m.upg and c not in m.cclosed and c not in m.susp:
                if L[-1] != SETTLE:
                    L.append(SETTLE)
                L.append("cclose %d" % c)
                m.cclosed.add(c)
                if c in m.open:
                    m.open.remove(c)
        elif r < 0.86 and m.susp:
            c = rng.choice(m.susp); m.susp.remove(c)
            if rng.random() < 0.4:
                # the application queues the response from outside the handler while the connection is suspended
                if L[-1] != SETTLE:
                    L.append(SETTLE)
                L.append("ext-queue %d %d" % (c, rng.choice([x for x in m.resps if x != 11] + [1, 4])))
            L.append("resume %d" % c)
        elif r < 0.91 and m.upg:
            c = rng.choice(m.upg); m.upg.remove(c)
            L.append("up-close %d" % c)
        elif r < 0.94 and m.held:
            c = rng.choice(m.held); m.held.remove(c)
            L.append("drain %d" % c)
        elif r < 0.97 and m.resps:
            rid = rng.choice(m.resps); m.resps.remove(rid)
            L.append("resp-drop %d" % rid)
        else:
            L.append("query")
    L.append("alloc-fail-off")
    ending = rng.random()
    if ending < 0.6:
        # close everything, check that the whole capacity is back, then stop
        L += close_everything(m)
        L.append("mark all-closed")
        L.append("query")
        for i in range(cfg["limit"]):
            L.append("arrive %d %d 1" % (m.next, script_addr(cfg, 10 + i))); m.next += 1
        L.append(SETTLE)
        L.append("mark fresh-batch")
        L.append("query")
    else:
        # stop with whatever is still there (suspended connections must be resumed first: API contract)
        L.append(SETTLE)
        for c in range(m.next):
            L.append("resume %d" % c)
        if rng.random() < 0.5:
            L.append(SETTLE)
        # connections that are still in `new_connections` (thread-safe mode) when the daemon stops
        for _ in range(rng.choice([0, 1, 2, 3])):
            if m.next < 30:
                L.append("arrive %d %d %d" % (m.next, script_addr(cfg, rng.choice([1, 2, 3, 0])), 1)); m.next += 1
    L.append("stop")
    for rid in ALL_RIDS:
        L.append("resp-drop %d" % rid)
    return L


def gen_allocfail_enum(cfgs):
    """k-th allocation of an arrival (+ the round that processes it) fails, k = 1..7"""
    out = []
    for ci, cfg in enumerate(cfgs):
        for k in range(1, 8):
            for second in (0, 1):
                L = ["case af%d_%d_%d" % (ci, k, second), cfg_line(cfg), "start"] + RESP_SETUP
                nid = 0
                if second:
                    L += ["arrive 0 1 1", SETTLE]; nid = 1
                L += ["alloc-fail %d" % k, "arrive %d 1 1" % nid, SETTLE, "alloc-fail-off", SETTLE]
                nid += 1
                L += ["arrive %d 1 1" % nid, SETTLE]; nid += 1
                for c in range(nid):
                    L.append("cclose %d" % c)
                L += [SETTLE, SETTLE, "mark all-closed", "query"]
                for i in range(cfg["limit"]):
                    L.append("arrive %d %d 1" % (nid, 10 + i)); nid += 1
                L += [SETTLE, "mark fresh-batch", "query", "stop"]
                L += ["resp-drop %d" % r for r in ALL_RIDS]
                out.append(L)
    return out


def gen_stop_with_new(modes):
    """connections still waiting in `new_connections` (or just admitted) when MHD_stop_daemon runs"""
    out = []
    i = 0
    for mode in modes:
        for nts in (0, 1):
            for perip in (0, 2):
                for n in (1, 2, 3):
                    for pre in (0, 1):
                        cfg = {"mode": mode, "limit": 2, "perip": perip, "suspend": 1, "upgrade": 1, "nts": nts}
                        L = ["case sn%d" % i, cfg_line(cfg), "start"] + RESP_SETUP
                        i += 1
                        nid = 0
                        if pre:
                            L += ["arrive 0 1 1", SETTLE]; nid = 1
                        for k in range(n):
                            L.append("arrive %d %d 1" % (nid, 1 + k % 2)); nid += 1
                        L.append("stop")
                        L += ["resp-drop %d" % r for r in ALL_RIDS]
                        out.append(L)
    return out


def gen_refsites(modes):
    """every way a connection takes and drops a response reference, one site per history (x polling mode x
    thread-safe or not x the application drops its own reference before / after the connection does)"""
    sites = {
        "plain": ["req 0 reply 1"],
        "early": ["req 0 replyc 1"],
        "i1": ["req 0 reply 1 4"],
        "i2": ["req 0 reply 1 4 4"],
        "i3mix": ["req 0 reply 4 1 4 1"],
        "i_early": ["req 0 replyc 1 4"],
        "i_same": ["req 0 reply 4 4 4"],
        "i_big": ["req 0 reply 1 2"],
        "i_then_big_held": ["hold 0", "req 0 reply 2 4", SETTLE, "resp-drop 2", "resp-drop 4", "cclose 0"],
        "i_upgrade": ["req 0 upgrade 3 4 1", SETTLE, "resp-drop 3", "up-close 0"],
        "i_is_upgrade": ["req 0 reply 1 3"],
        "i_unknown": ["req 0 reply 1 15"],
        "i_dropped": ["resp-drop 4", "req 0 reply 1 4"],
        "final_unknown_after_i": ["req 0 reply 15 4"],
        "upgrade": ["req 0 upgrade 3", SETTLE, "up-close 0"],
        "upgrade_stop": ["req 0 upgrade 3", SETTLE],
        "error_reply": ["req 0 bad 0"],
        "error_reply_2": ["req 0 bad 0", "req 1 bad 0", "req 2 reply 1 4"],
        "suspend_i": ["req 0 suspend 1 4 4", SETTLE, "resume 0"],
        "suspend_ext": ["req 0 suspend 1", SETTLE, "ext-queue 0 4", SETTLE, "resume 0"],
        "suspend_ext_big": ["req 0 suspend 1", SETTLE, "hold 0", "ext-queue 0 2", "resp-drop 2", "resume 0", SETTLE, "cclose 0"],
        "suspend_ext_refused": ["req 0 suspend 1 4", SETTLE, "ext-queue 0 3", "ext-queue 0 15", "resume 0"],
        "suspend_ext_twice": ["req 0 suspend 1", SETTLE, "ext-queue 0 4", "ext-queue 0 1", "resume 0"],
        "shared3": ["hold 0", "hold 1", "hold 2", "req 0 reply 2 4", "req 1 reply 2", "req 2 reply 2 4 4", SETTLE, "resp-drop 2",
                    "cclose 0", SETTLE, "drain 1", SETTLE, "cclose 2"],
        "abort_in_body": ["hold 0", "req 0 reply 2 4", SETTLE, "cclose 0"],
        "keepalive_then_i": ["req 0 reply 1", SETTLE, "req 0 reply 4 1", SETTLE, "req 1 reply 1 4"],
        "upgrade_close_inside": ["req 0 upgradec 3"],
        "upgrade_close_inside_after_i": ["req 0 upgradec 3 4 7"],
        "upgrade_close_inside_x3": ["req 0 upgradec 3", "req 1 upgradec 3", "req 2 upgradec 3 8"],
        "upgrade_mixed_timing": ["req 0 upgradec 3", "req 1 upgrade 3", "req 2 upgrade 3", SETTLE, "up-close 1"],
        "upgrade_never_used": [],
    }
    # every constructor: queued never / once / as interim reply / by three connections at once
    for rid in SMALL_RIDS[2:]:
        sites["ctor%d_once" % rid] = ["req 0 reply %d" % rid]
        sites["ctor%d_interim" % rid] = ["req 0 reply 1 %d %d" % (rid, rid)]
        sites["ctor%d_shared" % rid] = ["req 0 reply %d" % rid, "req 1 reply %d %d" % (rid, rid), "req 2 replyc %d" % rid]
    out = []
    i = 0
    for mode in modes:
        for nts in (0, 1):
            for name, ops in sorted(sites.items()):
                for early_drop in (0, 1):
                    cfg = {"mode": mode, "limit": 3, "perip": 2, "suspend": 1, "upgrade": 1, "nts": nts}
                    L = ["case rs%d_%s" % (i, name), cfg_line(cfg), "start"] + RESP_SETUP
                    i += 1
                    L += ["arrive 0 1 1", "arrive 1 101 1", "arrive 2 2 1", SETTLE] + ops + [SETTLE]
                    drops = ["resp-drop %d" % r for r in ALL_RIDS]
                    if early_drop:
                        L += drops
                    # (two sites leave an upgraded session open until the daemon stops: no "everything closed" point there)
                    never = name in ("upgrade_stop", "upgrade_mixed_timing")
                    L += [SETTLE, "resume 0"] + ([] if never else ["up-close %d" % c for c in range(3)]) + [SETTLE] \
                        + ["drain %d" % c for c in range(3)] + ([] if never else ["cclose %d" % c for c in range(3)]) \
                        + [SETTLE, SETTLE] + ([] if never else ["mark all-closed"]) + ["query", "stop"]
                    L += drops
                    out.append(L)
    return out


def gen_abort_before_send(modes):
    """the client sends its request and goes away before the daemon gets to answer (response queued, then the
    connection is aborted before / inside the header send).  Whether the handler still runs depends on the
    polling mode and on what the socket reported last (the EOF may be seen first): oracle + LSan only"""
    out = []
    i = 0
    for mode in modes:
        for nts in (0, 1):
            for req in ("req 0 reply 1", "req 0 reply 1 4", "req 0 reply 2 4 4", "req 0 replyc 4", "req 0 upgrade 3 4"):
                cfg = {"mode": mode, "limit": 2, "perip": 0, "suspend": 1, "upgrade": 1, "nts": nts}
                L = ["case ab%s%d" % ("e" if mode == "epoll" else "s", i), cfg_line(cfg), "start"] + RESP_SETUP
                i += 1
                L += ["arrive 0 1 1", SETTLE, req, "cclose 0", SETTLE, SETTLE, "up-close 0", SETTLE, "mark all-closed", "query", "stop"]
                L += ["resp-drop %d" % r for r in ALL_RIDS]
                out.append(L)
    return out


def gen_listen(rng, modes, n):
    """a real listen socket: every arrival is a TCP client from 127.0.0.<a>, taken with accept4() by
    MHD_accept_connection (listen=1) — or seen as an IPv4-mapped IPv6 peer on a dual-stack socket (listen=2) —
    and accept4() failures (EMFILE, ENFILE, ECONNABORTED, EAGAIN) in between"""
    out = []
    for listen in (1, 2):
        for mode in modes:
            for nts in (0, 1):
                for perip in (0, 1, 2):
                    cfg = {"mode": mode, "limit": 2, "perip": perip, "suspend": 1, "upgrade": 1, "nts": nts, "listen": listen}
                    L = ["case ln%d" % len(out), cfg_line(cfg), "start"] + RESP_SETUP
                    nid = 0
                    for k, e in enumerate(ACCEPT_ERRNOS):
                        L += ["accept-fail " + e, "arrive %d %d %d" % (nid, script_addr(cfg, 1 + k % 2), 0 if k == 2 else 1)]; nid += 1
                    L += [SETTLE, "accept-fail EMFILE", "req 0 reply 1 4", SETTLE]
                    L += ["cclose %d" % c for c in range(nid)] + [SETTLE, SETTLE, "accept-fail ENFILE", "mark all-closed", "query"]
                    for k in range(cfg["limit"]):
                        L.append("arrive %d %d 1" % (nid, script_addr(cfg, 10 + k))); nid += 1
                    L += [SETTLE, "mark fresh-batch", "query", "stop"] + ["resp-drop %d" % r for r in ALL_RIDS]
                    out.append(L)
    for i in range(n):
        out.append(gen_history(rng, "lr%d" % i, modes, listen=1 + i % 2))
    return out


def gen_threads(rng, n):
    """real threads: thread per connection and worker pools, arrivals / closes scripted, every check at a
    quiescent point (after `settle`); thread-creation failures (the k-th pthread_create fails) in the
    admission path and inside MHD_start_daemon"""
    out = []
    for limit, perip in ((2, 0), (3, 2), (1, 1)):
        for k in (0, 1, 2, 3):
            cfg = {"mode": "tpc", "limit": limit, "perip": perip, "suspend": 0, "upgrade": 0, "nts": 0}
            L = ["case tpc%d" % len(out), cfg_line(cfg), "start"] + RESP_SETUP
            nid = 0
            for j in range(limit + 2):
                if k and j == k - 1:
                    L.append("thread-fail 1")
                L += ["arrive %d %d 1" % (nid, 1 + j % 2), SETTLE]; nid += 1
            L += ["thread-fail 0", "req 0 reply 1 4", "req 1 reply 4", SETTLE, "query"]
            L += ["cclose %d" % c for c in range(nid)] + [SETTLE, SETTLE, "mark all-closed", "query"]
            for j in range(limit):
                L += ["arrive %d %d 1" % (nid, 10 + j), SETTLE]; nid += 1
            L += ["mark fresh-batch", "query", "stop"] + ["resp-drop %d" % r for r in ALL_RIDS]
            out.append(L)
    if True:  # F39 repaired by 9f85107; always generated so that a regression is reported
        # stop while a connection thread waits for a client that does not read (hung before the fix)
        for drop in (0, 1):
            cfg = {"mode": "tpc", "limit": 2, "perip": 0, "suspend": 0, "upgrade": 0, "nts": 0}
            out.append(["case tpchs%d" % drop, cfg_line(cfg), "start"] + RESP_SETUP
                       + ["arrive 0 1 1", "arrive 1 2 1", SETTLE, "hold 0", "req 0 reply 2 4", "req 1 reply 1", SETTLE]
                       + (["resp-drop 2"] if drop else []) + ["stop"] + ["resp-drop %d" % r for r in ALL_RIDS])
    # MHD_start_daemon itself: the k-th thread cannot be created -> NULL, nothing left behind (LSan, thread count)
    for mode, pool in (("select-thr", 0), ("select-thr", 3), ("poll-thr", 4), ("epoll-thr", 2), ("tpc", 0)):
        for k in range(1, (pool or 1) + 1):
            cfg = {"mode": mode, "limit": 4, "perip": 0, "suspend": 0, "upgrade": 0, "nts": 0, "pool": pool}
            out.append(["case sf%d" % len(out), cfg_line(cfg), "thread-fail %d" % k, "start", "threads", "stop"])
    for i in range(n):
        mode = ("tpc", "select-thr", "poll-thr", "epoll-thr")[i % 4]
        h = gen_history(rng, "th%d" % i, [mode])
        if mode != "tpc" and i % 8 >= 4:
            # a pool picks the worker by its current count: a burst may be refused although the daemon as a whole has
            # room (not a loss of capacity) - arrivals one at a time, as in gen_pool_family
            h[1] += " pool=%d" % (2 + i % 3)
            h = [x for l in h for x in ((l, SETTLE) if l.startswith("arrive ") else (l,))]
        out.append(h)
    return out


def gen_pool_limits():
    """tie of the limit split among pool workers: white-box read of every worker's connection_limit
    right after MHD_start_daemon vs the model's `workerLimits`, all limits 1..12 x pool sizes 1..6"""
    out = []
    for mode in ("select-thr", "poll-thr", "epoll-thr"):
        for limit in range(1, 13):
            for pool in range(1, 7):
                if mode != "select-thr" and (limit * 7 + pool) % 5:   # the other two polling modes: a sample
                    continue
                out.append(["case pl_%s_%d_%d" % (mode, limit, pool),
                            "cfg mode=%s limit=%d perip=0 suspend=0 upgrade=0 nts=0 pool=%d" % (mode, limit, pool),
                            "start", "pool-limits", "stop"])
    return out


def gen_pool_family():
    """thread pool: more clients than the limit, one at a time (each is processed before the next arrives, so
    MHD_add_connection sees up-to-date worker counters and fills every worker up to its own limit)"""
    out = []
    for mode in ("select-thr", "poll-thr", "epoll-thr"):
        for limit, pool, perip in ((5, 4, 0), (7, 3, 0), (3, 2, 2)):
            L = ["case pool_%s_%d_%d" % (mode, limit, pool),
                 "cfg mode=%s limit=%d perip=%d suspend=0 upgrade=0 nts=0 pool=%d" % (mode, limit, perip, pool),
                 "start", "pool-limits"] + RESP_SETUP
            nid = 0
            for i in range(2 * limit):
                L += ["arrive %d %d 1" % (nid, 1 + i % 4), SETTLE]; nid += 1
            L += ["cclose 0", "cclose 1", SETTLE]
            for i in range(3):
                L.append("arrive %d %d 1" % (nid, 5 + i)); nid += 1
            L.append(SETTLE)
            for c in range(nid):
                L.append("cclose %d" % c)
            L += [SETTLE, SETTLE, "mark all-closed", "query"]
            for i in range(limit):
                L += ["arrive %d %d 1" % (nid, 10 + i), SETTLE]; nid += 1
            L += ["mark fresh-batch", "query", "stop"]
            L += ["resp-drop %d" % r for r in ALL_RIDS]
            out.append(L)
    return out


def gen_exhaustive_small(modes):
    """all arrival patterns of length 4 over 2 addresses x 2 verdicts, limits 1..2, per-IP 0..2, then one
    close, settle, capacity check"""
    import itertools
    out = []
    i = 0
    for mode in modes:
        for nts in (0, 1):
            for limit in (1, 2):
                for perip in (0, 1, 2):
                    cfg = {"mode": mode, "limit": limit, "perip": perip, "suspend": 1, "upgrade": 1, "nts": nts}
                    for pat in itertools.product([(1, 1), (2, 1), (1, 0)], repeat=3):
                        for mid in (0, 1):
                            L = ["case ex%d" % i, cfg_line(cfg), "start"] + RESP_SETUP
                            i += 1
                            for j, (a, p) in enumerate(pat):
                                L.append("arrive %d %d %d" % (j, a, p))
                                if mid and j == 0:
                                    L.append(SETTLE)
                            L += [SETTLE, "cclose 0", SETTLE, "arrive 3 1 1", SETTLE]
                            for c in range(4):
                                L.append("cclose %d" % c)
                            L += [SETTLE, SETTLE, "mark all-closed", "query"]
                            for k in range(limit):
                                L.append("arrive %d %d 1" % (4 + k, 10 + k))
                            L += [SETTLE, "mark fresh-batch", "query", "stop"]
                            L += ["resp-drop %d" % r for r in ALL_RIDS]
                            out.append(L)
    return out


# ----------------------------------------------------------------- log handling

def chunks(lines):
    """split an output stream into one chunk (list of lines) per script line"""
    out, cur = [], []
    for l in lines:
        if l == "--":
            out.append(cur); cur = []
        else:
            cur.append(l)
    return out, cur


IGNORED = ("reader ", "threads ")


def canon(chunk):
    return [l for l in chunk if not l.startswith(IGNORED)]


def per_conn(chunk):
    d = {}
    for l in chunk:
        m = re.search(r"\bc=(\d+)", l)
        if m:
            d.setdefault(int(m.group(1)), []).append(l)
    return d


def diff_chunk(h, m):
    h, m = canon(h), canon(m)
    if sorted(h) != sorted(m):
        return "events differ: code %s / model %s" % (sorted(set(h) - set(m)) or h, sorted(set(m) - set(h)) or m)
    if per_conn(h) != per_conn(m):
        return "per-connection order differs: code %s / model %s" % (per_conn(h), per_conn(m))
    return None


class Oracle:
    """C09 over the harness log alone.  Knows the script (what was asked), not the model."""

    def __init__(self):
        self.limit = self.perip = 0
        self.addr = {}            # c -> script address
        self.arrived = set()
        self.started = set(); self.closed = set(); self.fdclosed = set()
        self.live = set()
        self.created = {}         # rid -> kind
        self.dropped = set(); self.freed = set()
        self.stopped = False
        self.phase = None
        self.fresh = []           # ids of the fresh batch
        self.stats = {"accepted": 0, "refused": 0}

    def feed(self, op, chunk):
        w = op.split()
        if not w:
            return None
        if w[0] == "cfg":
            d = dict(x.split("=") for x in w[1:])
            self.limit = int(d.get("limit", 0)) or 10 ** 9
            self.perip = int(d.get("perip", 0))
        if w[0] == "arrive" and chunk and chunk[0] != "bad-op":
            self.arrived.add(int(w[1])); self.addr[int(w[1])] = int(w[2])
            if self.phase == "all-closed":
                self.fresh.append(int(w[1]))
        if w[0] == "resp-drop" and chunk and chunk[0] != "bad-op":
            self.dropped.add(int(w[1]))
        if w[0] == "resp-create" and chunk and chunk[0].endswith("-> 1"):
            self.created[int(w[1])] = dict(x.split("=") for x in w[2:]).get("kind", "freecb")
        for l in chunk:
            t = l.split()
            if not t:
                continue
            k = t[0]
            cm = re.search(r"\bc=(-?\d+)", l)
            c = int(cm.group(1)) if cm else None
            rm = re.search(r"\brid=(\d+)", l)
            rid = int(rm.group(1)) if rm else None
            if k in ("double-close", "use-after-free", "leak", "fault", "fdset-failed"):
                return "harness reports " + l
            if k == "conn-start":
                if c in self.started:
                    return "connection %d started twice" % c
                if c in self.fdclosed:
                    return "connection %d started after its socket was closed" % c
                self.started.add(c); self.live.add(c)
                if len(self.live) > self.limit:
                    return "%d connections being served, limit is %d" % (len(self.live), self.limit)
                a = self.addr.get(c, 0)
                if self.perip and a:
                    n = sum(1 for x in self.live if self.addr.get(x) == a)
                    if n > self.perip:
                        return "%d connections from address %d, per-address limit is %d" % (n, a, self.perip)
            elif k == "conn-close":
                if c not in self.started:
                    return "close notification for connection %d that was never started" % c
                if c in self.closed:
                    return "connection %d got two close notifications" % c
                self.closed.add(c); self.live.discard(c)
            elif k == "fd-close":
                if c in self.fdclosed:
                    return "socket of connection %d closed twice" % c
                if c in self.started and c not in self.closed:
                    return "socket of connection %d closed before its close notification" % c
                self.fdclosed.add(c)
            elif k == "arrive":
                self.stats["accepted" if l.endswith("-> 1") else "refused"] += 1
                if l.endswith("-> 0") and c not in self.fdclosed:
                    return "refused connection %d: socket not closed" % c
            elif k == "conns":
                if int(t[1]) > self.limit:
                    return "daemon reports %s connections, limit is %d" % (t[1], self.limit)
                if self.phase == "all-closed" and w[0] == "query" and not self.fresh and int(t[1]) != 0:
                    return "every connection was closed but the daemon still counts %s" % t[1]
                if self.phase == "fresh-batch" and w[0] == "query" and int(t[1]) != min(self.limit, len(self.fresh)):
                    return "capacity not restored: %s of %d fresh connections are served" % (t[1], len(self.fresh))
            elif k == "ipc" and self.phase == "all-closed" and w[0] == "query" and not self.fresh and l != "ipc -":
                return "every connection was closed but per-address counters remain: " + l
            elif k == "free-cb":
                if rid in self.freed:
                    return "free callback of response %d ran twice" % rid
                if rid not in self.dropped:
                    return "free callback of response %d ran while the application still holds it" % rid
                self.freed.add(rid)
            elif k == "reader" or (k == "queued" and l.endswith("-> 1")):
                if rid in self.freed:
                    return "response %d used after its free callback" % rid
            elif k == "resp-drop":
                pass
            elif k == "mark":
                self.phase = t[1]
                if self.phase == "all-closed" and self.live:
                    return "all clients have closed, connections %s are still served" % sorted(self.live)
                if self.phase == "fresh-batch":
                    miss = [c for c in self.fresh if c not in self.started]
                    if miss:
                        return "capacity not restored: fresh connections %s were not admitted" % miss
            elif k == "threads":
                if int(t[1]) != 1:
                    return "daemon stopped (or failed to start), %s threads are still alive" % (int(t[1]) - 1)
            elif k == "stopped":
                self.stopped = True
                miss = sorted(self.arrived - self.fdclosed)
                if miss:
                    return "daemon stopped, sockets of connections %s were never closed" % miss
                miss = sorted(self.started - self.closed)
                if miss:
                    return "daemon stopped, connections %s got no close notification" % miss
        return None

    def finish(self):
        if self.stopped:
            miss = sorted(r for r, k in self.created.items() if k != "upgrade" and r in self.dropped and r not in self.freed)
            if miss:
                return "responses %s: released by everybody but the free callback never ran" % miss
        return None


def shape(s):
    return re.sub(r"\d+", "N", s)[:160]


class Spec:
    props_module = "Mhd.Props.C09"
    lean_targets = ["Mhd.Props.C09", "drv_daemon"]
    required_theorems = ["Mhd.C09.upgrade_close_timing", "Mhd.C09.interim_replies_balanced", "Mhd.C09.stop_releases_every_response", "Mhd.C09.accept_failure_loses_nothing",
                         "Mhd.C09.step_inv", "Mhd.C09.run_inv", "Mhd.C09.limits_hold", "Mhd.C09.capacity_restored", "Mhd.C09.close_all_then_round",
                         "Mhd.C09.stop_exactly_once", "Mhd.C09.lifecycle_balance", "Mhd.C09.refcount_refines",
                         "Mhd.C09.free_callback_at_zero", "Mhd.C09.free_callback_exactly_once",
                         "Mhd.C09.pool_split_sum", "Mhd.C09.pool_bound"]
    trusted_base = ["Lean 4 kernel", "axioms: propext, Classical.choice, Quot.sound at most (audited per theorem)",
                    "hand-written model lean/Mhd/Model/Limits.lean tied to daemon.c/response.c by this run's correspondence",
                    "harness/h_limits.c (close/epoll_ctl/malloc interposers, scripted clients), gcc, ASan/UBSan/LSan",
                    "the HTTP exchange on a connection is scripted (reply / suspend / upgrade / blocked reply), not modelled byte-wise"]
    assumptions = ["single-threaded event loops (external select, epoll); MHD_USE_NO_THREAD_SAFETY on/off",
                   "API used as documented: suspended connections are resumed before MHD_stop_daemon, responses are "
                   "queued only while the application holds them",
                   "no TLS; tsearch abstracted to a finite map"]

    def gen(self, ctx):
        gen_limits()

    def build(self, ctx):
        self.harness = vlib.build_daemon_harness(name="h_limits", src="harness/h_limits.c",
                                                 exclude=("mhd_mono_clock.c", "daemon.c", "memorypool.c"),
                                                 ldextra=["-Wl,--wrap=malloc,--wrap=calloc", "-ldl"])
        self.driver = vlib.driver_path("drv_daemon")

    # -- model-side legality filter ------------------------------------------------
    def prefilter(self, cases):
        """drop the script lines the model driver rejects (`bad-op`): generators only guess legality"""
        lines = [l for c in cases for l in c]
        mout, rc, err = vlib.run_lines(self.driver, lines)
        ch, _ = chunks(mout)
        out, k = [], 0
        for c in cases:
            keep = []
            faulted = False
            for l in c:
                bad = k >= len(ch) or (ch[k] and ch[k][0] == "bad-op")
                faulted = faulted or (k < len(ch) and any(x.startswith("fault") for x in ch[k]))
                # `alloc-fail <k>` is translated after the harness run, keep it
                if not bad or l.startswith("alloc-fail "):
                    keep.append(l)
                k += 1
            if not faulted:      # API misuse (e.g. stop with a suspended connection): not a legal history
                out.append(keep)
        return out

    def run_cases(self, cases, failures, stats):
        """run a batch through harness and driver; compare; oracle"""
        pending = list(cases)
        while pending:
            lines = [l for c in pending for l in c] + ["case end"]
            hout, hrc, herr = vlib.run_lines(self.harness, lines, timeout=900)
            hch, tail = chunks(hout)
            # attribute per case
            k = 0
            redo = None
            per_case = []
            for ci, c in enumerate(pending):
                per_case.append(hch[k:k + len(c)])
                k += len(c)
            leak_case = None
            for ci, c in enumerate(pending):
                nxt = hch[sum(len(x) for x in pending[:ci + 1])] if sum(len(x) for x in pending[:ci + 1]) < len(hch) else []
                if "leak" in nxt:
                    leak_case = ci
                    break
            crashed_case = None
            if hrc != 0 and leak_case is None:
                done = len(hch)
                acc = 0
                for ci, c in enumerate(pending):
                    if acc + len(c) > done or (ci == len(pending) - 1):
                        crashed_case = ci
                        break
                    acc += len(c)
            upto = len(pending)
            if leak_case is not None:
                upto = leak_case + 1
            if crashed_case is not None:
                upto = crashed_case
            self.compare(pending[:upto], per_case[:upto], failures, stats)
            if leak_case is not None:
                c = pending[leak_case]
                failures.append(vlib.Failure("sanitizer", "daemon: memory leaked (LeakSanitizer) " + shape(c[1]),
                                             herr[-1500:], c, ENGINE))
                stats["leaks"] += 1
                pending = pending[leak_case + 1:]
            elif crashed_case is not None:
                c = pending[crashed_case]
                failures.append(vlib.Failure("sanitizer", "daemon: harness aborted (rc=%d) %s" % (hrc, shape(herr[-300:].splitlines()[-1] if herr.strip() else "")),
                                             herr[-2500:], c, ENGINE))
                stats["aborts"] += 1
                pending = pending[crashed_case + 1:]
            else:
                pending = []
            if len(failures) > 25:
                return

    def translate(self, case, hchunks):
        """`alloc-fail <k>` → what the harness observed (`alloc-fail-site X`); None if not modelled"""
        out = []
        for i, l in enumerate(case):
            if l.startswith("alloc-fail "):
                site = None
                for ch in hchunks[i:i + 3]:
                    for x in ch:
                        if x.startswith("alloc-failed site="):
                            site = x.split("=")[1]
                if site is None:
                    out.append("mark nofail")
                elif site in SITES:
                    out.append("alloc-fail-site " + site)
                else:
                    return None
            else:
                out.append(l)
        return out

    def compare(self, cases, hper, failures, stats):
        mcases, idx = [], []
        for ci, c in enumerate(cases):
            # internal-thread modes: the daemon thread runs asynchronously to the script, the model's round
            # structure does not apply — implementation-side oracle only
            # (exception: the `pl_` cases only start a pool and read the workers' limits — deterministic)
            # (the `ab` cases: request + client close in one settle, see gen_abort_before_send)
            t = None if ((("-thr" in c[1] or "mode=tpc" in c[1]) and not c[0].startswith("case pl_")) or c[0].startswith("case ab")) \
                else self.translate(c, hper[ci])
            if t is not None:
                mcases.append(t); idx.append(ci)
            else:
                stats["oracle_only"] += 1
        mout, mrc, merr = vlib.run_lines(self.driver, [l for c in mcases for l in c])
        mch, _ = chunks(mout)
        mper, k = {}, 0
        for j, c in enumerate(mcases):
            mper[idx[j]] = mch[k:k + len(c)]; k += len(c)
        for ci, c in enumerate(cases):
            # (iii) the oracle reads the whole harness log of the case, independently of the model
            orc = Oracle()
            obad = None
            h = hper[ci]
            for j, l in enumerate(c):
                hc = h[j] if j < len(h) else ["<no output>"]
                e = orc.feed(l, hc)
                if e:
                    obad = ("oracle", e, j); break
                for x in hc:
                    t = x.split()[0] if x.split() else ""
                    if t in stats["events"]:
                        stats["events"][t] += 1
                    if x.startswith("alloc-failed"):
                        stats["alloc_failed"][x.split("=")[1]] = stats["alloc_failed"].get(x.split("=")[1], 0) + 1
                    if x.startswith("queued") and x.endswith("-> 0"):
                        stats["events"]["queue-refused"] += 1
            if not obad:
                e = orc.finish()
                if e:
                    obad = ("oracle", e, len(c) - 1)
            # (ii) model vs code, line by line
            dbad = None
            if ci in mper:
                for j, l in enumerate(c):
                    if l.startswith("alloc-fail "):
                        continue
                    hc = h[j] if j < len(h) else ["<no output>"]
                    mc = mper[ci][j] if j < len(mper[ci]) else ["<no output>"]
                    d = diff_chunk(hc, mc)
                    if d:
                        dbad = ("diff", "line %d `%s`: %s" % (j, l, d), j); break
            stats["accepted"] += orc.stats["accepted"]; stats["refused"] += orc.stats["refused"]
            bad = obad or dbad
            if bad:
                kind, det, j = bad
                if obad and dbad:
                    det += "   [model/code also differ: %s]" % dbad[1][:300]
                failures.append(vlib.Failure(kind, "daemon: " + shape(det.split("   [")[0] if kind == "oracle" else "model/code differ: " + det.split(":", 1)[1]),
                                             det, c, ENGINE))

    def explore(self, ctx, boost):
        failures = []
        stats = {"leaks": 0, "aborts": 0, "oracle_only": 0, "accepted": 0, "refused": 0, "alloc_failed": {},
                 "events": {k: 0 for k in ("conn-start", "conn-close", "fd-close", "free-cb", "upgrade", "suspend",
                                           "resume", "up-close", "policy", "epoll-ctl-failed", "queued", "queue-refused",
                                           "accept-failed", "thread-create-failed", "start-failed", "threads")}}
        modes = ["select", "epoll"]
        # detector self-test: LeakSanitizer must be operational in this environment
        o, rc, err = vlib.run_lines(self.harness, ["case a", "leak-test", "case b"])
        if "leak" not in o:
            failures.append(vlib.Failure("model", "daemon: LeakSanitizer self-test did not fire", "\n".join(o[-5:]), [], ENGINE))
        cases = []
        cdir = os.path.join(vlib.VERIF, "corpus", ENGINE)
        ncorp = 0
        if os.path.isdir(cdir):
            for f in sorted(os.listdir(cdir)):
                cases.append([l for l in open(os.path.join(cdir, f)).read().splitlines() if l.strip()])
                ncorp += 1
        thorough = ctx.tier == "thorough"
        exh = gen_exhaustive_small(modes)
        afc = [{"mode": m, "limit": 2, "perip": p, "suspend": 1, "upgrade": 1, "nts": n}
               for m in modes for p in (0, 2) for n in (0, 1)]
        af = gen_allocfail_enum(afc) + gen_stop_with_new(modes)
        # tie (A): the regenerated defaults are what the running daemon really uses
        af.append(["case defaults", "cfg mode=select limit=0 perip=0 suspend=0 upgrade=0 nts=0", "start", "defaults",
                   "arrive 0 1 1", "settle", "stop"])
        nrand = (12000 if thorough else 1500) * (3 if boost else 1)
        rnd = [gen_history(ctx.rng, "r%d" % i, modes) for i in range(nrand)]
        # every acquisition / drop site of a response reference; aborted sends; a real listen socket with accept4 failures
        sites = gen_refsites(modes) + gen_abort_before_send(modes)
        lsn = gen_listen(ctx.rng, modes, 1500 if thorough else 200)
        allc = cases + self.prefilter(exh + af + sites + lsn + rnd)
        B = 400
        for i in range(0, len(allc), B):
            self.run_cases(allc[i:i + B], failures, stats)
            if len(failures) > 25:
                break
        # thread pool: limit split (exhaustive, compared with the model) + more clients than the limit (oracle)
        pool = gen_pool_limits() + gen_pool_family()
        self.run_cases(pool, failures, stats)
        allc = allc + pool
        # real threads (thread per connection, pools), thread-creation failures: oracle at quiescent points, LSan, thread count
        thq = gen_threads(ctx.rng, 160 if thorough else 24)
        for i in range(0, len(thq), 40):
            if len(failures) <= 25:
                self.run_cases(thq[i:i + 40], failures, stats)
        allc = allc + thq
        # internal polling thread (thorough tier only): oracle + sanitizers, no model comparison
        thr = []
        if thorough and len(failures) <= 25:
            for mode in ("select-thr", "poll-thr", "epoll-thr"):
                for i in range(80):
                    thr.append(gen_history(ctx.rng, "%s%d" % (mode, i), [mode]))
            for i in range(0, len(thr), 40):
                self.run_cases(thr[i:i + 40], failures, stats)
                if len(failures) > 25:
                    break
            allc = allc + thr
        distinct = len({json.dumps(c[1:]) for c in allc})
        feat = {"req_with_interim_102": 0, "interim_102_replies": 0, "req_bad_error_reply": 0, "ext_queue_while_suspended": 0,
                "accept_fail": {}, "thread_fail": 0, "arrivals_ipv6_mapped": 0, "arrivals_listen_socket": 0, "upgrade_after_102": 0,
                "histories_tpc": 0, "histories_pool": 0, "histories_listen": 0}
        for c in allc:
            lsn_c = " listen=" in c[1]
            feat["histories_tpc"] += "mode=tpc" in c[1]; feat["histories_pool"] += " pool=" in c[1]; feat["histories_listen"] += lsn_c
            for l in c:
                w = l.split()
                if w[0] == "req" and len(w) > 4:
                    feat["req_with_interim_102"] += 1; feat["interim_102_replies"] += len(w) - 4
                    feat["upgrade_after_102"] += w[2] == "upgrade"
                elif w[0] == "req" and w[2] == "bad":
                    feat["req_bad_error_reply"] += 1
                elif w[0] == "req" and w[2] == "upgradec":
                    feat["upgrade_closed_inside_handler"] = feat.get("upgrade_closed_inside_handler", 0) + 1
                elif w[0] == "ext-queue":
                    feat["ext_queue_while_suspended"] += 1
                elif w[0] == "accept-fail":
                    feat["accept_fail"][w[1]] = feat["accept_fail"].get(w[1], 0) + 1
                elif w[0] == "thread-fail":
                    feat["thread_fail"] += 1
                elif w[0] == "arrive":
                    feat["arrivals_ipv6_mapped"] += 100 <= int(w[2]) < 200; feat["arrivals_listen_socket"] += lsn_c
        cov = {"evaluations": len(allc), "distinct_nontrivial": distinct,
               "rule": "histories run on the real daemon and on the Lean model; distinct = different scripts (cfg + ops); "
                       "bounded-exhaustive: all 3-arrival patterns over {addr1,addr2,policy-refuse} x limits 1..2 x per-IP 0..2 "
                       "x select/epoll x thread-safe/not, each with close + capacity check; allocation-failure enumeration: "
                       "k-th allocation (k=1..7) of an arrival fails; random histories with arrivals from 3 addresses + a non-IP one",
               "samples": [rnd[0][:40], af[3]],
               "threaded_histories_oracle_only": len(thr), "pool_limit_split_cases": len(gen_pool_limits()),
               "pool_histories_oracle_only": len(gen_pool_family()), "exhaustive_histories": len(exh), "allocfail_histories": len(af), "random_histories": len(rnd), "corpus": ncorp,
               "refsite_histories": len(sites), "listen_histories": len(lsn), "thread_histories_quick": len(thq),
               "script_features_after_legality_filter": feat,
               "tpc_write_wait_bounded": tpc_write_wait_bounded(),
               "outcomes": stats, "exhaustive": False,
               "correspondence": {"MHD_add_connection/internal_add_connection/new_connection_prepare_/new_connection_process_/"
                                  "new_connections_list_process_/MHD_ip_limit_add/MHD_ip_limit_del/MHD_cleanup_connections/"
                                  "close_all_connections/MHD_stop_daemon/resume_suspended_connections/MHD_destroy_response": "bounded-exhaustive (above) + random %d" % len(rnd),
                                  "MHD_start_daemon_va (split of the limit among pool workers)": "exhaustive: limits 1..12 x pool sizes 1..6 (select-thr) + sample in poll-thr/epoll-thr, white-box read of worker limits vs model",
                                  "MHD_add_connection with a worker pool": "9 fixed histories (3 polling modes x 3 limit/pool pairs), oracle only",
                                  "MHD_queue_response(102) / FULL_REPLY_SENT 102 branch / transmit_error_response_ / MHD_queue_response on a suspended connection / "
                                  "MHD_response_execute_upgrade_ after 102": "%d site histories (acquisition/drop sites, every response constructor x {once, interim, shared}, upgrade close timings; each x select/epoll x thread-safe or not x early/late drop) + random" % len(sites),
                                  "MHD_accept_connection (accept4 on a real listen socket, IPv4 and dual stack; accept4 failures EMFILE/ENFILE/ECONNABORTED/EAGAIN)":
                                      "%d histories compared with the model (accept driven synchronously by the harness); limit gating of the listen fd inside the event loop (at_limit) not exercised" % len(lsn),
                                  "thread per connection / worker pools / MHD_create_named_thread_ failure (admission and MHD_start_daemon)": "%d histories, oracle + LSan + thread count, no model comparison" % len(thq)}}
        return failures, cov


def replay(ctx, path):
    r = json.load(open(path))
    sp = Spec(); sp.gen(ctx); vlib.lake_build(sp.lean_targets); sp.build(ctx)
    fl = []
    st = {"leaks": 0, "aborts": 0, "oracle_only": 0, "accepted": 0, "refused": 0, "alloc_failed": {},
          "events": {k: 0 for k in ("conn-start", "conn-close", "fd-close", "free-cb", "upgrade", "suspend",
                                    "resume", "up-close", "policy", "epoll-ctl-failed", "queued", "queue-refused",
                                    "accept-failed", "thread-create-failed", "start-failed", "threads")}}
    sp.run_cases([r["input"]], fl, st)
    for f in fl:
        print(f.kind, f.signature, f.detail)
    print("harness+driver+oracle:", "FAIL" if fl else "ok")
    return 1 if fl else 0
