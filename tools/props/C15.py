"""C15 — POST processor returns the encoded fields for every split of the body
(postprocessor.c).  Engine `pp`."""
import itertools, json, os, re
import vlib, extract

URLENC = b"application/x-www-form-urlencoded"
MULTIPART = b"multipart/form-data"
BUFSIZES = [256, 257, 300, 1024, 65536]


# --------------------------------------------------------------- translator (A)

def gen_pp():
    from extract import c_eval, src, prev_value, HEADER, GEN
    s = src("src/microhttpd/postprocessor.c")
    m = re.search(r"^[ \t]*#[ \t]*define[ \t]+XBUF_SIZE[ \t]+(.+)$", s, re.M)
    if not m:
        raise RuntimeError("XBUF_SIZE is no longer #defined in postprocessor.c")
    # the #define text is evaluated by the C compiler next to the real headers
    v = c_eval('#include "MHD_config.h"\n#include "internal.h"\n#include "postprocessor.h"\n#define VERIF_XBUF_SIZE (%s)\n' % m.group(1).strip(),
               [("xbuf", "%zu", "(size_t) VERIF_XBUF_SIZE"),
                ("ppxbuf", "%zu", "sizeof (((struct MHD_PostProcessor *) 0)->xbuf)"),
                ("url", "%s", "MHD_HTTP_POST_ENCODING_FORM_URLENCODED"),
                ("mp", "%s", "MHD_HTTP_POST_ENCODING_MULTIPART_FORMDATA")])
    m = re.search(r"buffer_size\s*<\s*(\d+)\s*\)", s)
    minbuf = m.group(1) if m else prev_value("PP.lean", "minBufferSize", "256")
    m = re.search(r"buffer_size\s*\+=\s*(\d+)\s*;", s)
    slack = m.group(1) if m else prev_value("PP.lean", "bufferSlack", "4")

    def blist(b):
        return "[" + ", ".join(str(x) for x in b.encode()) + "]"
    out = HEADER % "src/microhttpd/postprocessor.c" + "namespace Mhd.Gen.PP\n" \
        + "def xbufSize : Nat := %s\n" % v["xbuf"] \
        + "def ppXbufLen : Nat := %s\n" % v["ppxbuf"] \
        + "def minBufferSize : Nat := %s\n" % minbuf \
        + "def bufferSlack : Nat := %s\n" % slack \
        + "def encUrl : List UInt8 := %s\n" % blist(v["url"]) \
        + "def encMultipart : List UInt8 := %s\n" % blist(v["mp"]) \
        + "end Mhd.Gen.PP\n"
    return vlib.write_if_changed(os.path.join(GEN, "PP.lean"), out)


# ------------------------------------------------------------------- encoders

def hx(b):
    return b.hex() if b else "-"


UNRESERVED = set(b"ABCDEFGHIJKLMNOPQRSTUVWXYZabcdefghijklmnopqrstuvwxyz0123456789-._~")
# bytes that may stand for themselves in a urlencoded key/value without changing the parse
URL_LITERAL_OK = set(range(1, 256)) - set(b"%+&=\r\n")


def enc_url_bytes(rng, s, style):
    """style 0: canonical (unreserved literal, space '+', rest %XX upper);
       style 1: random rendering (any allowed literal, random hex case, %20 or '+')"""
    out = bytearray()
    for c in s:
        if style == 0:
            if c in UNRESERVED:
                out.append(c)
            elif c == 0x20:
                out += b"+"
            else:
                out += b"%%%02X" % c
        else:
            r = rng.random()
            if c == 0x20 and r < 0.5:
                out += b"+"
            elif c in URL_LITERAL_OK and r < 0.6:
                out.append(c)
            else:
                h = "%02x" % c
                h = "".join(ch.upper() if rng.random() < 0.5 else ch for ch in h)
                out += b"%" + h.encode()
    return bytes(out)


def enc_url(rng, fields, style):
    return b"&".join(enc_url_bytes(rng, k, style) + b"=" + enc_url_bytes(rng, v, style) for k, v in fields)


def enc_part_headers(rng, p, vary):
    """p = dict(name, filename, ctype, enc, value)"""
    def nm(s):
        if not vary:
            return s
        return rng.choice([s, s.lower(), s.upper(), s[:9] + s[9:].lower()])
    h = nm(b"Content-Disposition") + b": form-data"
    params = [b"; name=\"" + p["name"] + b"\""]
    if p.get("filename") is not None:
        params.append(b"; filename=\"" + p["filename"] + b"\"")
        if vary and rng.random() < 0.5:
            params.reverse()            # RFC 7578 does not fix the order of the parameters
    h += b"".join(params) + b"\r\n"
    if p.get("ctype") is not None:
        h += nm(b"Content-Type") + b": " + p["ctype"] + b"\r\n"
    if p.get("enc") is not None:
        h += nm(b"Content-Transfer-Encoding") + b": " + p["enc"] + b"\r\n"
    return h + b"\r\n"


def enc_multipart(rng, boundary, parts, vary=False):
    out = b""
    for p in parts:
        out += b"--" + boundary + b"\r\n"
        if "nested" in p:
            nb = p["nested_boundary"]
            out += b"Content-Disposition: form-data; name=\"" + p["name"] + b"\"\r\n"
            out += b"Content-Type: multipart/mixed; boundary=" + nb + b"\r\n\r\n"
            for q in p["nested"]:
                out += b"--" + nb + b"\r\n"
                out += b"Content-Disposition: attachment; filename=\"" + q["filename"] + b"\"\r\n"
                if q.get("ctype") is not None:
                    out += b"Content-Type: " + q["ctype"] + b"\r\n"
                if q.get("enc") is not None:
                    out += b"Content-Transfer-Encoding: " + q["enc"] + b"\r\n"
                out += b"\r\n" + q["value"] + b"\r\n"
            out += b"--" + nb + b"--\r\n"
        else:
            out += enc_part_headers(rng, p, vary) + p["value"] + b"\r\n"
    return out + b"--" + boundary + b"--\r\n"


def expected_multipart(parts):
    """list of (key, filename, ctype, enc, value) the application must see"""
    exp = []
    for p in parts:
        if "nested" in p:
            for q in p["nested"]:
                exp.append((p["name"], q["filename"], q.get("ctype"), q.get("enc"), q["value"]))
        else:
            exp.append((p["name"], p.get("filename"), p.get("ctype"), p.get("enc"), p["value"]))
    return exp


# ------------------------------------------------------ independent reference

def ref_pct_decode_strict(raw):
    """reference decoder for *well-formed* urlencoded text (used only to cross-check the
    generator: decode(encode(x)) == x)"""
    out = bytearray()
    i = 0
    while i < len(raw):
        c = raw[i]
        if c == 0x25:
            out.append(int(raw[i + 1:i + 3], 16)); i += 3
        elif c == 0x2B:
            out.append(0x20); i += 1
        else:
            out.append(c); i += 1
    return bytes(out)


EV_RE = re.compile(r"\[k=(\S+) f=(\S+) t=(\S+) e=(\S+) off=(\d+) d=(\S+)\]")


def unhex_opt(s):
    if s == "~":
        return None
    if s == "-":
        return b""
    return bytes.fromhex(s)


def parse_line(line):
    """-> (ret, [events]) or None for ok/null/bad-op/fault lines"""
    m = re.match(r"ret=(\d) n=(\d+)", line)
    if not m:
        return None
    evs = [(unhex_opt(a), unhex_opt(b), unhex_opt(c), unhex_opt(d), int(o), unhex_opt(x))
           for a, b, c, d, o, x in EV_RE.findall(line)]
    if len(evs) != int(m.group(2)):
        return None
    return int(m.group(1)), evs


def match_fields(evs, exp):
    """Do the iterator calls `evs` deliver exactly the fields `exp` = [(key, fn, ct, enc, value)]
    in order: per field at least one call, all with the field's metadata, offsets contiguous
    from 0, data concatenating to the value.  Dynamic programming over (event index, field
    index) because a zero-length call may belong to either neighbour."""
    n, m = len(evs), len(exp)
    # reach[j] = set of event indices i such that evs[:i] delivers exp[:j]
    reach = {0}
    for j in range(m):
        key, fn, ct, en, val = exp[j]
        nxt = set()
        for i0 in reach:
            i, acc = i0, 0
            while i < n:
                k, f, t, e, off, d = evs[i]
                if (k, f, t, e) != (key, fn, ct, en) or off != acc or val[acc:acc + len(d)] != d:
                    break
                acc += len(d)
                i += 1
                if acc == len(val):
                    nxt.add(i)
        reach = nxt
        if not reach:
            return "field %d (key %r): calls do not deliver it (metadata, offsets or bytes differ)" % (j, key)
    if n not in reach:
        return "extra iterator calls after the last field"
    return None


def contiguous(evs):
    """for any input: an offset is 0 or continues the previous call of the same field"""
    prev = None
    for ev in evs:
        k, f, t, e, off, d = ev
        if off != 0:
            if prev is None or prev[4] + len(prev[5]) != off or prev[:4] != ev[:4]:
                return "offset %d does not continue the previous call" % off
        prev = ev
    return None


def url_not_fabricated(evs, body):
    """every delivered value byte comes from the body: it occurs literally, or is the space of
    a '+', or is the value of some %XX occurring in the body; and no more bytes are delivered
    than were received"""
    avail = set(body)
    if 0x2B in avail:
        avail.add(0x20)
    for m in re.finditer(rb"%([0-9A-Fa-f]{2})", body):
        avail.add(int(m.group(1), 16))
    # overlapping escapes such as %%41
    for i in range(len(body) - 2):
        if body[i] == 0x25:
            try:
                avail.add(int(body[i + 1:i + 3], 16))
            except ValueError:
                pass
    tot = 0
    for k, f, t, e, off, d in evs:
        tot += len(d)
        if not set(d) <= avail:
            return "delivered byte %r never occurred in the body" % bytes(sorted(set(d) - avail))
        if f is not None or t is not None or e is not None:
            return "urlencoded call with file name / type / encoding"
    if tot > len(body):
        return "more value bytes delivered (%d) than received (%d)" % (tot, len(body))
    return None


def mp_not_fabricated(evs, body):
    """multipart: every delivered chunk and every metadata string is a contiguous piece of the body"""
    for k, f, t, e, off, d in evs:
        if d and body.find(d) < 0:
            return "delivered data is not a substring of the body"
        for s in (k, f, t, e):
            if s and body.find(s) < 0:
                return "metadata string %r is not a substring of the body" % s
    return None


# ----------------------------------------------------------------- generators

class Case:
    """one post-processor life: create, feed chunks, destroy"""
    __slots__ = ("kind", "bufsize", "ctype", "chunks", "exp", "tag", "body")

    def __init__(self, kind, bufsize, ctype, chunks, exp, tag):
        self.kind, self.bufsize, self.ctype, self.chunks, self.exp, self.tag = kind, bufsize, ctype, chunks, exp, tag
        self.body = b"".join(chunks)

    def lines(self):
        return ["create %d %s" % (self.bufsize, hx(self.ctype))] + ["feed " + hx(c) for c in self.chunks] + ["destroy"]

    def to_json(self):
        """replayable form (also the corpus format)"""
        return {"kind": self.kind, "bufsize": self.bufsize, "ctype": self.ctype.hex(), "tag": self.tag,
                "chunks": [c.hex() for c in self.chunks], "script": self.lines(),
                "exp": None if self.exp is None else [[None if y is None else y.hex() for y in e] for e in self.exp]}

    @staticmethod
    def from_json(r, tag=None):
        exp = None
        if r.get("exp") is not None:
            exp = [tuple(None if y is None else bytes.fromhex(y) for y in e) for e in r["exp"]]
        return Case(r["kind"], r["bufsize"], bytes.fromhex(r["ctype"]), [bytes.fromhex(x) for x in r["chunks"]],
                    exp, tag or r.get("tag", "replay"))


def split_at(body, cuts):
    cuts = [0] + list(cuts) + [len(body)]
    return [body[cuts[i]:cuts[i + 1]] for i in range(len(cuts) - 1)]


def random_split(rng, body, maxchunks=8):
    n = rng.randint(0, min(maxchunks, len(body)))
    cuts = sorted(rng.randint(0, len(body)) for _ in range(n))
    return split_at(body, cuts)


def rand_bytes(rng, n, alphabet=None):
    if alphabet is None:
        return bytes(rng.randrange(256) for _ in range(n))
    return bytes(rng.choice(alphabet) for _ in range(n))


def gen_url_fields(rng, small):
    nf = rng.choice([0, 1, 1, 2, 3, 5])
    fields = []
    for _ in range(nf):
        klen = rng.choice([1, 1, 2, 5, 12] if small else [1, 3, 10, 40])
        k = rand_bytes(rng, klen, list(range(1, 256)) if rng.random() < 0.5 else list(b"abcxyz019 +%&=_"))
        r = rng.random()
        if r < 0.2:
            v = b""
        elif r < 0.6:
            v = rand_bytes(rng, rng.randint(1, 8 if small else 40), list(b"abc019 +%&=\r\n\x00\xff%%"))
        else:
            v = rand_bytes(rng, rng.randint(1, 10 if small else 120))
        fields.append((k, v))
    return fields


def url_exp(fields):
    return [(k, None, None, None, v) for k, v in fields]


def gen_url_small_cases(ctx, thorough):
    """well-formed bodies <= 200 B x all 2-way splits (+ all 3-way in thorough / sampled in
    quick) + byte-by-byte"""
    rng = ctx.rng
    nb = 500 if thorough else 70
    for i in range(nb):
        fields = gen_url_fields(rng, small=True)
        body = enc_url(rng, fields, style=i % 2)
        if len(body) > (200 if thorough else 120) or not fields:
            continue
        exp = url_exp(fields)
        bs = rng.choice(BUFSIZES)
        n = len(body)
        yield Case("url", bs, URLENC, [body], exp, "url-whole")
        yield Case("url", bs, URLENC, [body[j:j + 1] for j in range(n)], exp, "url-bytewise")
        for a in range(n + 1):
            yield Case("url", bs, URLENC, split_at(body, [a]), exp, "url-2way")
        if thorough and n <= 90:
            for a in range(n + 1):
                for b in range(a, n + 1):
                    yield Case("url", bs, URLENC, split_at(body, [a, b]), exp, "url-3way")
        else:
            for _ in range(3 * n):
                a = rng.randint(0, n); b = rng.randint(a, n)
                yield Case("url", bs, URLENC, split_at(body, [a, b]), exp, "url-3way")


def gen_url_staging_cases(ctx, thorough):
    """escape sequences straddling the XBUF_SIZE staging buffer: '%' at raw positions 505..516
    of a value, with 0/1/2 carried bytes from the previous call"""
    rng = ctx.rng
    for pos in range(505, 517):
        for esc in (b"%41", b"%00", b"%2B", b"%25"):
            for pre in ([b"", b"%", b"%4"] if thorough else [b"", b"%4"]):
                tail = b"1" if pre == b"%4" else (b"41" if pre == b"%" else b"")
                rawv = tail + b"x" * (pos - len(tail)) + esc + b"yz+%7e" * rng.randint(0, 3)
                # a long run of escapes so that several staging rounds end inside one
                if rng.random() < 0.3:
                    rawv += b"%61" * 400
                body = b"key=" + pre + rawv + b"&k2=v2"
                val = ref_pct_decode_strict(pre + rawv)
                exp = [(b"key", None, None, None, val), (b"k2", None, None, None, b"v2")]
                cut = 4 + len(pre)
                bs = rng.choice(BUFSIZES)
                yield Case("url", bs, URLENC, split_at(body, [cut]), exp, "url-staging")
                yield Case("url", bs, URLENC, split_at(body, [cut, cut + pos + rng.randint(0, 4)]), exp, "url-staging")
                if thorough:
                    yield Case("url", bs, URLENC, random_split(rng, body, 5), exp, "url-staging")


def gen_url_big_cases(ctx, thorough):
    rng = ctx.rng
    n = 2500 if thorough else 150
    for i in range(n):
        fields = gen_url_fields(rng, small=False)
        if rng.random() < 0.5:
            fields.append((b"big", rand_bytes(rng, rng.randint(400, 3000), list(b"ab %+&=\x00\xfe12"))))
            rng.shuffle(fields)
        if not fields:
            continue
        body = enc_url(rng, fields, style=rng.randint(0, 1))
        exp = url_exp(fields)
        for bs in BUFSIZES:
            yield Case("url", bs, URLENC, random_split(rng, body, rng.choice([1, 3, 8, 40])), exp, "url-random")
        if i % 10 == 0:
            yield Case("url", 256, URLENC, [body[j:j + 1] for j in range(len(body))], exp, "url-bytewise")
    # key length against the buffer size: raw key of bufsize+3 bytes fits, bufsize+4 does not
    for bs in [256, 257, 300]:
        for dl, ok in ((3, True), (4, False)):
            k = b"k" * (bs + dl)
            body = k + b"=v"
            exp = [(k, None, None, None, b"v")] if ok else None
            yield Case("url", bs, URLENC, [body], exp, "url-keylimit" if ok else "url-keytoolong")
            yield Case("url", bs, URLENC, random_split(rng, body, 4), exp, "url-keylimit" if ok else "url-keytoolong")
            # the same limit on the path through PP_Callback (key and its terminator in one call)
            body2 = k + b"=v&a=b"
            exp2 = [(k, None, None, None, b"v"), (b"a", None, None, None, b"b")] if ok else None
            yield Case("url", bs, URLENC, [body2], exp2, "url-keylimit" if ok else "url-keytoolong")
            yield Case("url", bs, URLENC, [k[:7], k[7:] + b"=v&a=b"], exp2, "url-keylimit" if ok else "url-keytoolong")


MAL_URL_ALPHA = list(b"a=&%+\n\r1fg\x00%=&")


def gen_url_malformed(ctx, thorough):
    rng = ctx.rng
    n = 40000 if thorough else 1500
    for i in range(n):
        body = rand_bytes(rng, rng.randint(1, 40), MAL_URL_ALPHA)
        if i % 7 == 0:
            body += b"v=" + rand_bytes(rng, rng.randint(500, 530), list(b"ab%1")) + b"%"
        yield Case("url", rng.choice(BUFSIZES[:3]), URLENC, random_split(rng, body, 6), None, "url-malformed")
    # truncated well-formed bodies
    for i in range(n // 4):
        fields = gen_url_fields(rng, small=True)
        body = enc_url(rng, fields, 1)
        if body:
            body = body[:rng.randint(0, len(body))]
            yield Case("url", 256, URLENC, random_split(rng, body, 4), None, "url-truncated")


BCHARS = list(b"0123456789abcdefghijklmnopqrstuvwxyzABCDEFGHIJKLMNOPQRSTUVWXYZ'()+_,./:=?")
TOKCHARS = list(b"abcdefghijklmnopqrstuvwxyz0123456789/-.")


def lookalikes(rng, boundary):
    d = b"\r\n--" + boundary
    out = [d[:j] for j in range(1, len(d))]                   # every proper prefix of the delimiter
    out += [d[:-1] + bytes([d[-1] ^ 1]), b"--" + boundary, b"\n--" + boundary, b"\r--" + boundary,
            b"\r\r\n--" + boundary[:-1], b"\r\n\r\n", b"\r", b"--", b"\r\n--"]
    return out


def gen_mp_parts(rng, boundary, small, nested_ok):
    np_ = rng.choice([0, 1, 1, 2, 3, 4])
    parts = []
    for _ in range(np_):
        p = {"name": rand_bytes(rng, rng.choice([0, 1, 4, 10]), list(b"abcxyz019_- ;[]")),
             "filename": None, "ctype": None, "enc": None}
        if rng.random() < 0.4:
            p["filename"] = rand_bytes(rng, rng.randint(0, 12), list(b"abc.txt-_ 01"))
        if rng.random() < 0.4:
            p["ctype"] = rand_bytes(rng, rng.randint(1, 15), TOKCHARS)
        if rng.random() < 0.3:
            p["enc"] = rng.choice([b"binary", b"8bit", b"base64"])
        r = rng.random()
        if r < 0.15:
            v = b""
        elif r < 0.6:
            pieces = []
            for _ in range(rng.randint(1, 4 if small else 12)):
                pieces.append(rng.choice(lookalikes(rng, boundary)) if rng.random() < 0.6
                              else rand_bytes(rng, rng.randint(0, 6 if small else 200)))
            v = b"".join(pieces)
        else:
            v = rand_bytes(rng, rng.randint(1, 12 if small else 1500))
        p["value"] = v
        if nested_ok and rng.random() < 0.25:
            nb = rand_bytes(rng, rng.randint(2, 12), BCHARS[:62])
            if nb != boundary and not boundary.startswith(nb) and not nb.startswith(boundary):
                inner = []
                for _ in range(rng.randint(0, 3)):
                    inner.append({"filename": rand_bytes(rng, rng.randint(0, 8), list(b"abc.txt")),
                                  "ctype": rand_bytes(rng, 6, TOKCHARS) if rng.random() < 0.5 else None,
                                  "enc": b"binary" if rng.random() < 0.3 else None,
                                  "value": rand_bytes(rng, rng.randint(0, 20))})
                p = {"name": p["name"], "nested": inner, "nested_boundary": nb}
        parts.append(p)
    return parts


def mp_fresh(boundary, parts):
    """the generator's side condition: CRLF--boundary does not occur in a value (+ what follows it)"""
    for p in parts:
        if "nested" in p:
            nb = p["nested_boundary"]
            for q in p["nested"]:
                if (b"\r\n--" + nb) in (q["value"] + b"\r\n--" + nb)[:-1] or (b"\r\n--" + boundary) in q["value"] + b"\r\n--":
                    return False
        else:
            d = b"\r\n--" + boundary
            if d in (p["value"] + d)[:-1]:
                return False
    return True


def mp_ctype(rng, boundary):
    r = rng.random()
    if r < 0.7:
        return MULTIPART + b"; boundary=" + boundary
    if r < 0.85:
        return MULTIPART + b"; boundary=\"" + boundary + b"\""
    return b"Multipart/Form-Data; charset=x; boundary=" + boundary


def gen_mp_cases(ctx, thorough, nested):
    rng = ctx.rng
    nsmall = (400 if thorough else 40) if not nested else (250 if thorough else 30)
    nbig = (2000 if thorough else 120) if not nested else (1200 if thorough else 80)
    tagp = "mpn" if nested else "mp"
    for i in range(nsmall + nbig):
        small = i < nsmall
        boundary = rand_bytes(rng, rng.choice([2, 3, 6, 12, 30] + ([70] if not small else [])), BCHARS)
        if boundary[0] == 0x22:
            continue
        parts = gen_mp_parts(rng, boundary, small, nested)
        if nested and not any("nested" in p for p in parts):
            continue
        if not mp_fresh(boundary, parts):
            continue
        body = enc_multipart(rng, boundary, parts, vary=(i % 3 == 0))
        if rng.random() < 0.2:
            body = rng.choice([b"preamble\r\n", b"\r\n", b"x-y--z\r\n"]) + body
        exp = expected_multipart(parts)
        ct = mp_ctype(rng, boundary)
        n = len(body)
        if small and n <= ((200 if thorough else 160) if not nested else 330):
            bs = rng.choice(BUFSIZES)
            yield Case("mp", bs, ct, [body], exp, tagp + "-whole")
            yield Case("mp", bs, ct, [body[j:j + 1] for j in range(n)], exp, tagp + "-bytewise")
            for a in range(n + 1):
                yield Case("mp", bs, ct, split_at(body, [a]), exp, tagp + "-2way")
            if thorough and n <= 100:
                for a in range(n + 1):
                    for b in range(a, n + 1):
                        yield Case("mp", bs, ct, split_at(body, [a, b]), exp, tagp + "-3way")
            else:
                for _ in range(2 * n):
                    a = rng.randint(0, n); b = rng.randint(a, n)
                    yield Case("mp", bs, ct, split_at(body, [a, b]), exp, tagp + "-3way")
        else:
            for bs in BUFSIZES:
                if len(boundary) * 2 + 2 > bs:
                    continue
                yield Case("mp", bs, ct, random_split(rng, body, rng.choice([1, 3, 8, 40])), exp, tagp + "-random")
            if i % 8 == 0 and n < 1500:
                yield Case("mp", rng.choice(BUFSIZES[:4]), ct, [body[j:j + 1] for j in range(n)], exp, tagp + "-bytewise")


def gen_mp_limits(ctx, thorough):
    """header line length against the buffer: a line of bufsize+3 bytes fits, bufsize+4 does not"""
    rng = ctx.rng
    for bs in [256, 257, 300]:
        for dl, ok in ((3, True), (4, False)):
            fixed = len(b"Content-Disposition: form-data; name=\"\"")
            name = b"n" * (bs + dl - fixed)
            parts = [{"name": name, "filename": None, "ctype": None, "enc": None, "value": b"v" * 700}]
            body = enc_multipart(rng, b"XyZ", parts)
            exp = expected_multipart(parts) if ok else None
            ct = MULTIPART + b"; boundary=XyZ"
            yield Case("mp", bs, ct, [body], exp, "mp-linelimit" if ok else "mp-linetoolong")
            yield Case("mp", bs, ct, random_split(rng, body, 5), exp, "mp-linelimit" if ok else "mp-linetoolong")
            yield Case("mp", bs, ct, [body[j:j + 1] for j in range(len(body))], exp, "mp-linelimit" if ok else "mp-linetoolong")


def gen_mp_borders(ctx, thorough):
    """boundary look-alikes against the borders: (a) every cut position inside and around each
    look-alike of a value (2-way, and 3-way with a second cut 1..|delimiter|+1 bytes later);
    (b) a value longer than the buffer whose look-alike straddles the end of the *full* window
    (filler of bufsize+4-k bytes before it, k = 0..|delimiter|+5), whole / cut at the window end /
    byte-by-byte; buffer sizes 256 and 257 (+300 in thorough)"""
    rng = ctx.rng
    sizes = [256, 257, 300] if thorough else [256, 257]
    for boundary in ([b"B0", b"AaB03x", b"-----------------------------1234567890"] if thorough else [b"B0", b"AaB03x"]):
        d = b"\r\n--" + boundary
        ct = MULTIPART + b"; boundary=" + boundary
        las = lookalikes(rng, boundary)
        # (a)
        for la in las:
            for pre, post in ((b"ab", b"cd"), (b"", b""), (b"\r", b"\r\n")):
                v = pre + la + post
                parts = [{"name": b"k", "filename": b"f.bin", "ctype": None, "enc": None, "value": v},
                         {"name": b"z", "filename": None, "ctype": None, "enc": None, "value": b"t"}]
                if not mp_fresh(boundary, parts):
                    continue
                body = enc_multipart(rng, boundary, parts)
                exp = expected_multipart(parts)
                v0 = body.index(v, body.index(b"\r\n\r\n")) if v else body.index(b"\r\n\r\n") + 4
                for bs in sizes:
                    for a in range(max(0, v0 - 2), min(len(body), v0 + len(v) + len(d) + 3) + 1):
                        yield Case("mp", bs, ct, split_at(body, [a]), exp, "mp-border-2way")
                        for gap in ((1, len(d), len(d) + 1) if thorough else (1, len(d))):
                            if a + gap <= len(body):
                                yield Case("mp", bs, ct, split_at(body, [a, a + gap]), exp, "mp-border-3way")
        # (b)
        for bs in sizes:
            win = bs + 4
            for la in (las[::2] + [d[:-1], d[:4], d[:5]] if thorough else las[::3] + [d[:-1], d[:4], d[:5]]):
                for k in range(0, len(d) + 6):
                    if win - k < 0:
                        continue
                    v = b"x" * (win - k) + la + b"yy" + (b"\r" if k % 2 else b"")
                    parts = [{"name": b"k", "filename": None, "ctype": None, "enc": None, "value": v}]
                    if not mp_fresh(boundary, parts):
                        continue
                    body = enc_multipart(rng, boundary, parts)
                    exp = expected_multipart(parts)
                    v0 = body.index(b"\r\n\r\n") + 4
                    yield Case("mp", bs, ct, [body], exp, "mp-border-window")
                    yield Case("mp", bs, ct, split_at(body, [v0]), exp, "mp-border-window")
                    yield Case("mp", bs, ct, split_at(body, [v0, v0 + win]), exp, "mp-border-window")
                    yield Case("mp", bs, ct, split_at(body, [v0 + win - k, v0 + win]), exp, "mp-border-window")
                    if k % 4 == 0:
                        yield Case("mp", bs, ct, [body[j:j + 1] for j in range(len(body))], exp, "mp-border-window")


def gen_mp_linefill(ctx, thorough):
    """header lines that exactly fill the buffer (bufsize+3 bytes + CR = the whole buffer), for each of the
    three header kinds, cut before the CR / between CR and LF / after the LF / one byte into the next line,
    whole, byte-by-byte; one byte more is rejected; buffer sizes 256, 257 (+300 thorough)"""
    rng = ctx.rng
    ct = MULTIPART + b"; boundary=XyZ"
    for bs in ([256, 257, 300] if thorough else [256, 257]):
        for which in ("name", "filename", "ctype", "enc"):
            for dl, ok in ((2, True), (3, True), (4, False)):
                p = {"name": b"n", "filename": b"f" if which == "filename" else None,
                     "ctype": b"t/x" if which == "ctype" else None, "enc": b"binary" if which == "enc" else None,
                     "value": b"v\r\n--Xy" + b"w" * 300}
                fixed = {"name": len(b'Content-Disposition: form-data; name=""'),
                         "filename": len(b'Content-Disposition: form-data; name="n"; filename=""'),
                         "ctype": len(b"Content-Type: "), "enc": len(b"Content-Transfer-Encoding: ")}[which]
                p[which] = (b"q" if which != "ctype" else b"t") * (bs + dl - fixed)
                parts = [p, {"name": b"z", "filename": None, "ctype": None, "enc": None, "value": b""}]
                body = enc_multipart(rng, b"XyZ", parts)
                exp = expected_multipart(parts) if ok else None
                tag = "mp-linefill" if ok else "mp-linefill-toolong"
                key = {"name": b"name=", "filename": b"filename=", "ctype": b"Content-Type: ", "enc": b"Content-Transfer-Encoding: "}[which]
                e = body.index(b"\r\n", body.index(key))     # the CR that ends the long line
                yield Case("mp", bs, ct, [body], exp, tag)
                for a in (e - 1, e, e + 1, e + 2, e + 3):
                    yield Case("mp", bs, ct, split_at(body, [a]), exp, tag)
                    yield Case("mp", bs, ct, split_at(body, [a, a + 1]), exp, tag)
                yield Case("mp", bs, ct, [body[j:j + 1] for j in range(len(body))], exp, tag)


def gen_mp_hdrquirks(ctx, thorough):
    """conforming encodings whose quoted parameter values / header values contain text that looks like
    another parameter or header (finding C15_hdrparse): ` filename=` / ` name=` inside a quoted name,
    `Content-Transfer-Encoding: ` inside a Content-Type parameter, `Content-Type: ` inside an encoding"""
    rng = ctx.rng
    names = [b"a filename=", b"a filename=b", b"x filename=y; z", b" filename=", b"filename=", b"a name=b", b"name=",
             b"k=v", b"a; filename=q", b"form-data; name=x"]
    fnames = [None, b"y.txt", b"a name=b", b" name=", b"x; name=z"]
    ctypes = [None, b"text/plain", b'text/plain; x="Content-Transfer-Encoding: foo"', b"text/x; Content-Type: a/b",
              b'a/b; q="Content-disposition: form-data; name=zz"']
    encs = [None, b"binary", b"x-Content-Type: evil", b'8bit; c="content-type: t/t"']
    ct = MULTIPART + b"; boundary=XyZ"
    combos = [(n, f, t, e) for n in names for f in fnames for t in ctypes for e in encs]
    if not thorough:
        combos = [c for i, c in enumerate(combos) if i % 7 == 0 or (c[1] in (None, b"y.txt") and c[2] is None and c[3] is None)]
    for n, f, t, e in combos:
        parts = [{"name": n, "filename": f, "ctype": t, "enc": e, "value": b"v1"},
                 {"name": b"z", "filename": None, "ctype": None, "enc": None, "value": b"t"}]
        body = enc_multipart(rng, b"XyZ", parts)
        exp = expected_multipart(parts)
        yield Case("mp", 256, ct, [body], exp, "mp-hdrquirk")
        yield Case("mp", 257, ct, random_split(rng, body, 6), exp, "mp-hdrquirk")
        if thorough:
            yield Case("mp", 300, ct, [body[j:j + 1] for j in range(len(body))], exp, "mp-hdrquirk")


def gen_mp_malformed(ctx, thorough):
    rng = ctx.rng
    n = 40000 if thorough else 1500
    frag = [b"--", b"B0", b"--B0", b"\r\n", b"\r", b"\n", b"--B0--", b"Content-Disposition: form-data; name=\"a\"",
            b"content-type: multipart/mixed; boundary=N1", b"Content-Type: multipart/mixed", b"--N1", b"--N1--",
            b"Content-Transfer-Encoding: binary", b"name=", b"\"", b"x", b"-", b"\x00", b": ", b"filename=\"f\"",
            b"Content-disposition: attachment; filename=\"q\"", b"boundary=", b"data", b"\r\n--B", b"\r\n--B0"]
    for i in range(n):
        body = b"".join(rng.choice(frag) for _ in range(rng.randint(1, 25)))
        if i % 5 == 0:
            body = b"--B0\r\n" + body
        if i % 11 == 0:
            body += rand_bytes(rng, rng.randint(250, 400), list(b"ab-\r\n"))
        ct = rng.choice([MULTIPART + b"; boundary=B0", MULTIPART + b"; boundary=\"B0\"", MULTIPART + b"; boundary=\"\"",
                         MULTIPART + b"; boundary=B", MULTIPART, MULTIPART + b"; boundary=" + b"Z" * 127,
                         MULTIPART + b"; boundary=" + b"Z" * 128, b"text/plain", URLENC + b"; charset=utf-8", b""])
        yield Case("mp", rng.choice(BUFSIZES[:3]), ct, random_split(rng, body, 6), None, "mp-malformed")
    # truncated / corrupted well-formed bodies
    for i in range(n // 4):
        boundary = rand_bytes(rng, rng.choice([2, 6, 12]), BCHARS[:62])
        parts = gen_mp_parts(rng, boundary, True, True)
        body = bytearray(enc_multipart(rng, boundary, parts))
        if rng.random() < 0.5:
            body = body[:rng.randint(0, len(body))]
        else:
            for _ in range(rng.randint(1, 3)):
                body[rng.randrange(len(body))] = rng.choice(list(b"\r\n-\x00Zb\""))
        yield Case("mp", 256, MULTIPART + b"; boundary=" + boundary, random_split(rng, bytes(body), 5), None, "mp-corrupted")


# --------------------------------------------------------------------- oracle

def oracle(case, outs):
    """Independent statement of C15 over what the real code did (knows nothing of the model).
    outs: harness output lines for case.lines()."""
    if outs[0] == "null":
        if case.exp is not None:
            return "create refused a valid content type"
        return None
    if outs[0] != "ok":
        return "unexpected create result %r" % outs[0]
    evs, rets = [], []
    for o in outs[1:]:
        p = parse_line(o)
        if p is None:
            return "cannot parse harness line %r" % o[:80]
        rets.append(p[0])
        evs += p[1]
    e = contiguous(evs)
    if e:
        return e
    if case.kind == "url" or case.ctype.lower().startswith(URLENC):
        e = url_not_fabricated(evs, case.body)
    else:
        e = mp_not_fabricated(evs, case.body)
    if e:
        return e
    if case.exp is not None:
        if not all(rets):
            return "well-formed body rejected (return values %s)" % "".join(map(str, rets))
        return match_fields(evs, case.exp)
    return None


def signature(case, kind, msg):
    return "pp %s %s: %s" % (case.tag, kind, re.sub(r"\d+", "N", msg)[:100])


class Spec:
    props_module = "Mhd.Props.C15"
    lean_targets = ["Mhd.Props.C15", "drv_pp"]
    required_theorems = ["Mhd.C15.url_roundtrip_tokens", "Mhd.C15.url_every_call_accepts", "Mhd.C15.url_roundtrip",
                         "Mhd.C15.url_split_independent", "Mhd.C15.url_no_fault",
                         "Mhd.C15.multipart_all_inputs", "Mhd.C15.multipart_roundtrip",
                         "Mhd.C15.multipart_split_independent", "Mhd.C15.multipart_nested_roundtrip",
                         "Mhd.C15.multipart_preamble_roundtrip", "Mhd.C15.multipart_roundtrip_syntactic"]
    trusted_base = ["Lean 4 kernel", "axioms: propext, Classical.choice, Quot.sound at most (audited per theorem)",
                    "hand-written model lean/Mhd/Model/PP*.lean tied to postprocessor.c by this run's correspondence "
                    "(it includes small models of MHD_unescape_plus, MHD_str_pct_decode_in_place_lenient_, "
                    "MHD_str_equal_caseless_n_, strstr/memchr/strdup uses — tied the same way)",
                    "tools/props/C15.py gen_pp (XBUF_SIZE, sizeof pp->xbuf, encoding names, minimum buffer regenerated)",
                    "harness/h_pp.c, gcc, ASan/UBSan"]
    assumptions = ["the iterator callback returns MHD_YES", "chunk lengths, buffer size and value lengths < 2^63 (no size_t / uint64_t wrap)",
                   "Content-Type header value is a C string (no NUL)", "malloc/strdup/calloc succeed (allocation failure is C07)"]

    def gen(self, ctx):
        gen_pp()

    def build(self, ctx):
        srcp = os.path.join(vlib.VERIF, "harness/h_pp.c")
        keys = vlib.repo_sources() + [srcp, os.path.join(vlib.VERIF, "harness/common/lp.h")]

        def b():
            objs = vlib.cc_lib_objects("lib_san_h_pp")
            vlib.cc("h_pp", [srcp], libs=["-lgnutls", "-lpthread"], objs=objs)
        self.harness = vlib.build_cached("h_pp", keys, b)
        self.driver = vlib.driver_path("drv_pp")

    # -- running
    def run_batch(self, cases, failures, stats):
        lines = [l for c in cases for l in c.lines()]
        hout, hrc, herr = vlib.run_lines(self.harness, lines)
        if hrc != 0 or len(hout) != len(lines):
            if len(cases) == 1:
                failures.append(vlib.Failure("sanitizer", signature(cases[0], "sanitizer", "harness aborted"),
                                             herr[-2000:], cases[0].to_json(), "pp"))
                return
            # bisect: which case made the process abort
            pos, k = len(hout), 0
            for i, c in enumerate(cases):
                n = len(c.lines())
                if k + n > pos:
                    self.run_batch(cases[:i], failures, stats)
                    self.run_batch([c], failures, stats)
                    self.run_batch(cases[i + 1:], failures, stats)
                    return
                k += n
            return
        mout, mrc, merr = vlib.run_lines(self.driver, lines)
        k = 0
        for c in cases:
            n = len(c.lines())
            ho, mo = hout[k:k + n], mout[k:k + n]
            k += n
            stats["cases"] += 1
            stats["tags"][c.tag] = stats["tags"].get(c.tag, 0) + 1
            stats["chunks"] += len(c.chunks)
            stats["bytes"] += len(c.body)
            err = None
            try:
                err = oracle(c, ho)
            except Exception as ex:   # oracle must not hide anything
                err = "oracle cannot follow: %r" % (ex,)
            calls = sum(int(m) for o in ho for m in re.findall(r"^ret=\d n=(\d+)", o))
            stats["calls"] += calls
            rets = "".join(o[4] for o in ho if o.startswith("ret="))
            outcome = "null" if ho[0] == "null" else ("accepted" if "0" not in rets else "rejected")
            stats["outcomes"][outcome] = stats["outcomes"].get(outcome, 0) + 1
            if err:
                failures.append(vlib.Failure("oracle", signature(c, "oracle", err), err, c.to_json(), "pp"))
                continue
            if ho != mo:
                j = next(i for i in range(n) if i >= len(mo) or ho[i] != mo[i])
                kind = "model" if j < len(mo) and mo[j].startswith("fault") else "diff"
                det = "op %d (%s): code says %r, model says %r" % (j, c.lines()[j][:60], ho[j][:300],
                                                                  mo[j][:300] if j < len(mo) else None)
                failures.append(vlib.Failure(kind, signature(c, kind, "model/code differ on " + c.lines()[j].split()[0]),
                                             det, c.to_json(), "pp"))

    def all_cases(self, ctx):
        th = ctx.tier == "thorough"
        cdir = os.path.join(vlib.VERIF, "corpus", "pp")
        if os.path.isdir(cdir):
            for f in sorted(os.listdir(cdir)):
                yield Case.from_json(json.load(open(os.path.join(cdir, f))), "corpus-" + f)
        yield from gen_url_small_cases(ctx, th)
        yield from gen_url_staging_cases(ctx, th)
        yield from gen_url_big_cases(ctx, th)
        yield from gen_url_malformed(ctx, th)
        yield from gen_mp_cases(ctx, th, nested=False)
        yield from gen_mp_limits(ctx, th)
        yield from gen_mp_borders(ctx, th)
        yield from gen_mp_linefill(ctx, th)
        yield from gen_mp_hdrquirks(ctx, th)
        yield from gen_mp_cases(ctx, th, nested=True)
        yield from gen_mp_malformed(ctx, th)

    def explore(self, ctx, boost):
        failures = []
        stats = {"cases": 0, "chunks": 0, "bytes": 0, "calls": 0, "tags": {}, "outcomes": {}}
        batch, nlines, seen = [], 0, set()
        samples = []
        for c in self.all_cases(ctx):
            batch.append(c)
            seen.add((c.bufsize, c.ctype, tuple(c.chunks)))
            nlines += len(c.chunks) + 2
            if len(samples) < 4 and c.tag in ("url-3way", "mp-2way", "url-staging", "mpn-random") \
                    and c.tag not in [s["tag"] for s in samples]:
                samples.append({"tag": c.tag, "script": [l[:120] for l in c.lines()[:6]]})
            if nlines > 40000:
                self.run_batch(batch, failures, stats)
                batch, nlines = [], 0
                if len(failures) > 30:
                    break
        if batch:
            self.run_batch(batch, failures, stats)
        cov = {"evaluations": stats["cases"], "distinct_nontrivial": len(seen),
               "rule": "one evaluation = one post-processor life (create, feed the chunks of one split, destroy) run on the "
                       "real code and on the Lean model, oracle applied to the real code's iterator calls; distinct = "
                       "different (buffer size, content type, chunk list); bounded-exhaustive sub-domains: all 2-way splits "
                       "(thorough: all 3-way splits too) of every small body",
               "samples": samples, "cases_by_generator": stats["tags"], "outcomes": stats["outcomes"],
               "chunks_fed": stats["chunks"], "bytes_fed": stats["bytes"], "iterator_calls": stats["calls"],
               "buffer_sizes": BUFSIZES, "exhaustive": False}
        return failures, cov


def replay(ctx, path):
    r = json.load(open(path))
    sp = Spec(); sp.gen(ctx); vlib.lake_build(sp.lean_targets); sp.build(ctx)
    c = Case.from_json(r["input"])
    lines = c.lines()
    hout, hrc, herr = vlib.run_lines(sp.harness, lines)
    mout, _, _ = vlib.run_lines(sp.driver, lines)
    for i, l in enumerate(lines):
        print(l[:100])
        print("  code :", hout[i][:400] if i < len(hout) else None)
        print("  model:", mout[i][:400] if i < len(mout) else None)
    if hrc != 0:
        print(herr[-1500:])
    fl, st = [], {"cases": 0, "chunks": 0, "bytes": 0, "calls": 0, "tags": {}, "outcomes": {}}
    sp.run_batch([c], fl, st)
    for f in fl:
        print(f.kind, f.signature, "--", f.detail[:600])
    return 1 if fl else 0
