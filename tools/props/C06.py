"""C06 — progress / no lost wake-up (daemon.c event loops).  Engine `loop`.

Detectors:
 (i)   Lean theorems in Mhd/Props/C06.lean (round post-condition, no lost wake-up, progress)
       over the executable loop model Mhd/Model/Loop*.lean; the three "next pointer is saved
       before the handlers are called" facts and the enum values the loops test are
       regenerated from /repo into Mhd/Gen/Loop.lean.
 (ii)  correspondence: harness/h_loop.c logs, for every event-loop round of the real daemon,
       every handler call daemon.c makes (link-time wrappers) with a white-box snapshot of the
       lists / flags / event_loop_info; this module turns the per-handler outcomes into the
       environment table of the model (the abstract `connStep` parameter) and the model driver
       predicts the call sequence, the lists, the flags, the fd sets and the hint class.
 (iii) independent oracle over the harness log alone: "quiescent while a client awaits".
"""
import itertools, json, os, re
import vlib

GEN_PATH = os.path.join(vlib.LEAN, "Mhd", "Gen", "Loop.lean")


# ------------------------------------------------------------------ translator (A)

def _func_body(text, name):
    """text of the definition of C function `name` (from its name at line start to the closing brace);
    prototypes (parameter list followed by `;`) are skipped"""
    for m in re.finditer(r"^%s \(" % re.escape(name), text, re.M):
        depth, j = 0, m.end() - 1
        while j < len(text):            # end of the parameter list
            if text[j] == "(":
                depth += 1
            elif text[j] == ")":
                depth -= 1
                if depth == 0:
                    break
            j += 1
        k = j + 1
        while k < len(text) and text[k] in " \t\r\n":
            k += 1
        if k >= len(text) or text[k] != "{":
            continue
        depth, j = 0, k
        while j < len(text):
            if text[j] == "{":
                depth += 1
            elif text[j] == "}":
                depth -= 1
                if depth == 0:
                    return text[m.start():j + 1]
            j += 1
    return None


def _saves_prev(body, link):
    """does the loop around `call_handlers (` read the `link` pointer of `pos` before the call?
    None if the shape is not recognised."""
    if body is None:
        return None
    k = body.find("call_handlers (")
    if k < 0:
        return None
    starts = [m.start() for m in re.finditer(r"\b(for|while)\s*\(", body[:k])]
    if not starts:
        return None
    seg = body[starts[-1]:k]
    if re.search(r"=\s*pos->%s\s*;" % link, seg):
        return True
    if re.search(r"pos\s*=\s*pos->%s\s*\)" % link, seg):
        return False
    return None


def gen_loop():
    from extract import c_eval, src, prev_value, HEADER
    v = c_eval('#include "MHD_config.h"\n#include "internal.h"\n',
               [("stInit", "%d", "(int) MHD_CONNECTION_INIT"),
                ("stHeadersSending", "%d", "(int) MHD_CONNECTION_HEADERS_SENDING"),
                ("stNormalBodyReady", "%d", "(int) MHD_CONNECTION_NORMAL_BODY_READY"),
                ("stChunkedBodyReady", "%d", "(int) MHD_CONNECTION_CHUNKED_BODY_READY"),
                ("stClosed", "%d", "(int) MHD_CONNECTION_CLOSED"),
                ("eliRead", "%d", "(int) MHD_EVENT_LOOP_INFO_READ"),
                ("eliWrite", "%d", "(int) MHD_EVENT_LOOP_INFO_WRITE"),
                ("eliProcess", "%d", "(int) MHD_EVENT_LOOP_INFO_PROCESS"),
                ("eliProcessRead", "%d", "(int) MHD_EVENT_LOOP_INFO_PROCESS_READ"),
                ("eliCleanup", "%d", "(int) MHD_EVENT_LOOP_INFO_CLEANUP"),
                ("epReadReady", "%d", "(int) MHD_EPOLL_STATE_READ_READY"),
                ("epWriteReady", "%d", "(int) MHD_EPOLL_STATE_WRITE_READY"),
                ("epInEready", "%d", "(int) MHD_EPOLL_STATE_IN_EREADY_EDLL"),
                ("epInEpollSet", "%d", "(int) MHD_EPOLL_STATE_IN_EPOLL_SET"),
                ("epSuspended", "%d", "(int) MHD_EPOLL_STATE_SUSPENDED"),
                ("epError", "%d", "(int) MHD_EPOLL_STATE_ERROR")])
    dsrc = src("src/microhttpd/daemon.c")
    flags = {}
    for key, fn, link in (("selectSavesPrev", "internal_run_from_select", "prev"),
                          ("pollSavesPrev", "MHD_poll_all", "prev"),
                          ("epollSavesPrev", "MHD_epoll", "prevE")):
        r = _saves_prev(_func_body(dsrc, fn), link)
        if r is None:   # shape not recognised: keep the committed value, the correspondence run decides
            r = prev_value("Loop.lean", key, "true") == "true"
        flags[key] = r
    # which connections MHD_epoll takes off the eready list after their handlers ran: only those waiting for READ exactly
    eb = _func_body(dsrc, "MHD_epoll") or ""
    k = eb.find("call_handlers (pos")
    seg = eb[k:eb.find("EDLL_remove", k)] if k >= 0 else ""
    if re.search(r"MHD_EVENT_LOOP_INFO_READ\s*==\s*pos->event_loop_info|pos->event_loop_info\s*==\s*MHD_EVENT_LOOP_INFO_READ", seg):
        drop_exact = True
    elif re.search(r"MHD_EVENT_LOOP_INFO_READ\s*&\s*pos->event_loop_info|pos->event_loop_info\s*&\s*MHD_EVENT_LOOP_INFO_READ", seg):
        drop_exact = False
    else:
        drop_exact = prev_value("Loop.lean", "ereadyDropExactRead", "true") == "true"
    # thread-per-connection: is `suspended` looked at again after the idle call that follows a resume?
    tb = _func_body(dsrc, "thread_main_handle_connection") or ""
    k = tb.find("was_suspended = false;", max(tb.find("MHD_connection_handle_idle (con)"), 0))   # the one after the idle call
    if k >= 0:
        tpc_recheck = bool(re.match(r"\s*if\s*\(\s*\(?\s*con->suspended\s*\)?\s*(\|\|[^;{}]*)?\)\s*continue\s*;", tb[k + len("was_suspended = false;"):k + 300]))
    else:
        tpc_recheck = prev_value("Loop.lean", "tpcRechecksSuspend", "true") == "true"
    # thread-per-connection: does the thread remember a suspension made by its own handler (a field of the connection set in
    # internal_suspend_connection_ and tested next to `was_suspended`), or only one it still finds at the loop head?
    m = re.search(r"if\s*\(\s*\(?\s*was_suspended\s*\)?\s*\|\|\s*\(?\s*con->(\w+)", tb)
    if m:
        sb = _func_body(dsrc, "internal_suspend_connection_") or ""
        tpc_marks = bool(re.search(r"connection->%s\s*=\s*true\s*;" % re.escape(m.group(1)), sb))
    elif re.search(r"if\s*\(\s*was_suspended\s*\)", tb):
        tpc_marks = False
    else:
        tpc_marks = prev_value("Loop.lean", "tpcMarksSuspend", "false") == "true"
    # every cycle of every back-end calls resume_suspended_connections() before it blocks, whatever the threading mode: the call
    # is a statement of the function's top level (not inside a block), it comes before the blocking call, and nothing evaluated
    # before it in the same statement (left operands of a short-circuit) depends on the thread-per-connection mode
    def resumes_every_cycle(fn, blocker):
        body = _func_body(dsrc, fn)
        if body is None:
            return None
        k = body.find("resume_suspended_connections (daemon)")
        b = body.find(blocker)
        if k < 0 or b < 0:
            return None
        if k > b:
            return False
        depth = body.count("{", 0, k) - body.count("}", 0, k)
        st = max(body.rfind(";", 0, k), body.rfind("{", 0, k), body.rfind("}", 0, k))
        before = body[st + 1:k]
        return depth == 1 and "THREAD_PER_CONN" not in before
    cyc = {}
    for key, fn, blocker in (("selectResumesEveryCycle", "MHD_select", "MHD_SYS_select_ ("),
                             ("pollAllResumesEveryCycle", "MHD_poll_all", "MHD_sys_poll_ ("),
                             ("pollListenResumesEveryCycle", "MHD_poll_listen_socket", "MHD_sys_poll_ ("),
                             ("epollResumesEveryCycle", "MHD_epoll", "epoll_wait (daemon->epoll_fd")):
        r = resumes_every_cycle(fn, blocker)
        cyc[key] = (prev_value("Loop.lean", key, "true") == "true") if r is None else r
    # thread-per-connection with select(): the wait for writability is bounded when there is no connection timeout
    m = re.search(r"else if \(MHD_EVENT_LOOP_INFO_WRITE == con->event_loop_info\)\s*\{[^}]*?tv\.tv_sec = (\d+);", tb, re.S)
    sel_wr_bounded = bool(m and int(m.group(1)) > 0)
    # the state -> event_loop_info table of MHD_connection_update_event_loop_info (unconditional cases only)
    csrc = src("src/microhttpd/connection.c")
    # MHD_connection_handle_idle, case FULL_REPLY_SENT: is connection_reset() followed by an unconditional `continue` (the state
    # loop goes on with the new state, so bytes of the next request that are already buffered are looked at in the same call)?
    ib = _func_body(csrc, "MHD_connection_handle_idle") or ""
    k = ib.find("case MHD_CONNECTION_FULL_REPLY_SENT:")
    k = ib.find("connection_reset (", k) if k >= 0 else -1
    if k >= 0:
        depth, j = 0, ib.index("(", k)
        while j < len(ib):
            depth += ib[j] == "("; depth -= ib[j] == ")"
            if depth == 0:
                break
            j += 1
        reset_continues = bool(re.match(r"\s*;\s*continue\s*;", ib[j + 1:j + 80]))
    else:
        reset_continues = prev_value("Loop.lean", "replySentContinues", "true") == "true"
    body = _func_body(csrc, "MHD_connection_update_event_loop_info") or ""
    table, labels = {}, []
    for line in body.splitlines():
        m = re.match(r"\s*case (MHD_CONNECTION_\w+):", line)
        if m:
            labels.append(m.group(1)); continue
        m = re.match(r"\s*connection->event_loop_info = (MHD_EVENT_LOOP_INFO_\w+);", line)
        if m and labels and labels != ["MHD_CONNECTION_BODY_RECEIVING"]:
            for lb in labels:
                table[lb] = m.group(1)
            labels = []; continue
        if re.match(r"\s*(if|else|mhd_assert|break|return|switch|\{|\})", line) or "/*" in line:
            if re.match(r"\s*(if|mhd_assert|break|return)", line):
                labels = []
    classes = {"READ": [], "WRITE": [], "PROCESS": []}
    if table:
        vals = c_eval('#include "MHD_config.h"\n#include "internal.h"\n', [(k, "%d", "(int) " + k) for k in sorted(table)])
        for k, e in table.items():
            cls = e.replace("MHD_EVENT_LOOP_INFO_", "")
            if cls in classes:
                classes[cls].append(int(vals[k]))
    out = HEADER % "src/microhttpd/internal.h, src/microhttpd/daemon.c, src/microhttpd/connection.c" + "namespace Mhd.Gen.Loop\n"
    for k in ("stInit", "stHeadersSending", "stNormalBodyReady", "stChunkedBodyReady", "stClosed",
              "eliRead", "eliWrite", "eliProcess", "eliProcessRead", "eliCleanup",
              "epReadReady", "epWriteReady", "epInEready", "epInEpollSet", "epSuspended", "epError"):
        out += "def %s : Nat := %s\n" % (k, v[k])
    out += "/-- does the connection traversal of `internal_run_from_select` read `pos->prev` before it calls the handlers? -/\n"
    for k in ("selectSavesPrev", "pollSavesPrev", "epollSavesPrev"):
        out += "def %s : Bool := %s\n" % (k, "true" if flags[k] else "false")
    out += "/-- MHD_epoll drops a connection from eready for `READ == event_loop_info` (not for `READ & event_loop_info`) -/\n"
    out += "def ereadyDropExactRead : Bool := %s\n" % ("true" if drop_exact else "false")
    out += "/-- thread_main_handle_connection goes back to the suspended branch if the post-resume idle call suspended again -/\n"
    out += "def tpcRechecksSuspend : Bool := %s\n" % ("true" if tpc_recheck else "false")
    out += "/-- … and remembers a suspension at the moment its own handler suspends (not only when it finds `suspended` set at the loop head) -/\n"
    out += "def tpcMarksSuspend : Bool := %s\n" % ("true" if tpc_marks else "false")
    out += "/-- the back-end's cycle calls resume_suspended_connections() before it blocks, in every threading mode -/\n"
    for k in ("selectResumesEveryCycle", "pollAllResumesEveryCycle", "pollListenResumesEveryCycle", "epollResumesEveryCycle"):
        out += "def %s : Bool := %s\n" % (k, "true" if cyc[k] else "false")
    out += "/-- thread_main_handle_connection, select(): a bounded wait (1 s) while a reply is blocked and there is no connection timeout -/\n"
    out += "def tpcSelectWriteBounded : Bool := %s\n" % ("true" if sel_wr_bounded else "false")
    out += "/-- MHD_connection_handle_idle goes on with the state loop (`continue`) after connection_reset() in case FULL_REPLY_SENT -/\n"
    out += "def replySentContinues : Bool := %s\n" % ("true" if reset_continues else "false")
    out += "/-- states for which MHD_connection_update_event_loop_info unconditionally answers READ / WRITE / PROCESS -/\n"
    for cls, nm in (("READ", "readStates"), ("WRITE", "writeStates"), ("PROCESS", "processStates")):
        if table:
            out += "def %s : List Nat := [%s]\n" % (nm, ", ".join(str(x) for x in sorted(classes[cls])))
        else:
            out += "def %s : List Nat := %s\n" % (nm, prev_list(nm))
    out += "end Mhd.Gen.Loop\n"
    return vlib.write_if_changed(GEN_PATH, out)


def prev_list(name):
    try:
        m = re.search(r"def %s : List Nat := (\[[^\]]*\])" % name, open(GEN_PATH).read())
        return m.group(1) if m else "[]"
    except OSError:
        return "[]"


# ------------------------------------------------------------------ scenarios

WRAP = "-Wl,--wrap=MHD_connection_handle_read,--wrap=MHD_connection_handle_write," \
       "--wrap=MHD_connection_handle_idle,--wrap=MHD_connection_close_"


def hx(b):
    return b.hex() if b else "-"


# connection profiles: request bytes, harness setup (response / behaviour), what the client may expect
#   complete : the request is complete or definitively malformed once all bytes are sent
#   suspends : the handler suspends the connection (needs an explicit resume: action U)
#   extra    : rounds the reply legitimately needs beyond the base bound (not-ready callback calls, slow reads)
def profile(kind, c):
    rid = 1 + c
    G = b"GET / HTTP/1.1\r\nHost: a\r\n\r\n"
    if kind == "G":    # plain GET, static reply (fast track)
        return dict(req=G, setup=[], extra=0)
    if kind == "C":    # content callback of unknown size, not ready for 2 calls
        return dict(req=G, setup=["resp %d kind=cb-unknown size=10 cbnr=2" % rid, "beh %d 0 l=r%d" % (c, rid)], extra=2)
    if kind == "c":    # content callback of known size, not ready for 3 calls, 4 bytes per call
        return dict(req=G, setup=["resp %d kind=cb-known size=9 cbnr=3 cbmax=4" % rid, "beh %d 0 l=r%d" % (c, rid)], extra=6)
    if kind == "S":    # handler suspends at the first call, replies after the resume
        return dict(req=G, setup=["beh %d 0 f=s9999" % c], suspends=True, extra=0)
    if kind == "L":    # late reply: handler suspends at the final call
        return dict(req=G, setup=["beh %d 0 l=s9999" % c], suspends=True, extra=0)
    if kind == "P":    # POST with Content-Length, body consumed 2 bytes per call
        return dict(req=b"POST /p HTTP/1.1\r\nHost: a\r\nContent-Length: 5\r\n\r\nhello",
                    setup=["beh %d 0 u=2" % c], extra=4)
    if kind == "K":    # chunked POST
        return dict(req=b"POST /k HTTP/1.1\r\nHost: a\r\nTransfer-Encoding: chunked\r\n\r\n5\r\nhello\r\n0\r\n\r\n",
                    setup=[], extra=2)
    if kind == "E":    # Expect: 100-continue, body sent with the head
        return dict(req=b"POST /e HTTP/1.1\r\nHost: a\r\nExpect: 100-continue\r\nContent-Length: 3\r\n\r\nabc",
                    setup=[], extra=2)
    if kind == "H":    # HEAD
        return dict(req=b"HEAD /h HTTP/1.1\r\nHost: a\r\n\r\n", setup=[], extra=0, head=True)
    if kind == "M":    # malformed: field line without colon -> 400 + close
        return dict(req=b"GET / HTTP/1.1\r\nBad Header\r\n\r\n", setup=[], extra=0)
    if kind == "m":    # not HTTP at all -> close without reply
        return dict(req=b"GET\r\n\r\n", setup=[], extra=0)
    if kind == "O":    # header larger than the arena (needs cfg mem=1024): handle_recv_no_space -> 431
        return dict(req=b"GET / HTTP/1.1\r\nHost: a\r\nX: " + b"a" * 1500 + b"\r\n\r\n", setup=[], extra=70, mem=1024)
    if kind == "U":    # request target larger than the arena: 414
        return dict(req=b"GET /" + b"u" * 1500 + b" HTTP/1.1\r\nHost: a\r\n\r\n", setup=[], extra=70, mem=1024)
    if kind == "N":    # chunk-size line larger than the arena: handle_req_chunk_size_line_no_space
        return dict(req=b"POST /k HTTP/1.1\r\nHost: a\r\nTransfer-Encoding: chunked\r\n\r\n" + b"0" * 1500 + b"5\r\nhello\r\n0\r\n\r\n",
                    setup=[], extra=70, mem=1024)
    if kind == "k":    # chunked POST, handler takes one byte per call (PROCESS_READ: unprocessed upload data stays in the buffer)
        return dict(req=b"POST /k HTTP/1.1\r\nHost: a\r\nTransfer-Encoding: chunked\r\n\r\n5\r\nhello\r\n0\r\n\r\n",
                    setup=["beh %d 0 u=1" % c], extra=10)
    if kind == "p":    # POST with Content-Length, handler takes 3, 1, all (a handler that takes NOTHING while all data has
                       # arrived and does not suspend makes MHD wait for more network data by design: outside the property)
        return dict(req=b"POST /p HTTP/1.1\r\nHost: a\r\nContent-Length: 8\r\n\r\nhellohel",
                    setup=["beh %d 0 u=3,1,all" % c], extra=8)
    if kind == "F":    # file response larger than two sendfile chunks (needs cfg sigpipe=1 for sendfile in the application's thread)
        return dict(req=G, setup=["resp %d kind=fd size=300000" % rid, "beh %d 0 l=r%d" % (c, rid)], extra=10, sigpipe=1, tcp=1)
    if kind == "f":    # small file response at an offset
        return dict(req=G, setup=["resp %d kind=fdoff size=700" % rid, "beh %d 0 l=r%d" % (c, rid)], extra=4, sigpipe=1, tcp=1)
    if kind == "o":    # unterminated first header line, exactly as many bytes as the arena holds (nothing else is stored yet)
        return dict(req=(b"GET /index.html HTTP/1.1\r\nX-Filler: " + b"a" * 2000)[:1024], setup=[], extra=70, mem=1024)
    if kind == "u":    # unterminated request target, exactly arena-size bytes
        return dict(req=(b"GET /" + b"u" * 2000)[:1024], setup=[], extra=70, mem=1024)
    if kind == "t":    # unterminated method token, exactly arena-size bytes
        return dict(req=(b"G" * 2000)[:1024], setup=[], extra=70, mem=1024)
    if kind == "T":    # method token larger than the arena: closed without a reply in MHD_connection_update_event_loop_info
        return dict(req=b"G" * 1500 + b" / HTTP/1.1\r\nHost: a\r\n\r\n", setup=[], extra=70, mem=1024)
    if kind == "X":    # chunk extension larger than the arena (the double error response path, F9)
        return dict(req=b"POST /k HTTP/1.1\r\nHost: a\r\nTransfer-Encoding: chunked\r\n\r\n5;x=" + b"a" * 1500 + b"\r\nhello\r\n0\r\n\r\n",
                    setup=[], extra=70, mem=1024)
    if kind == "R":    # content callback fails in the middle of the body -> close
        return dict(req=G, setup=["resp %d kind=cb-known size=20 cbmax=4 cberr=8" % rid, "beh %d 0 l=r%d" % (c, rid)], extra=6)
    P1 = b"POST /p HTTP/1.1\r\nHost: a\r\nContent-Length: 5\r\n\r\nhello"
    if kind == "2":    # two pipelined requests (HTTP/1.1 keep-alive): both must be answered although the client then stays silent
        return dict(req=G + G, setup=[], extra=4, nreq=2, bounds=[len(G)])
    if kind == "3":    # three pipelined requests
        return dict(req=G + G + G, setup=[], extra=8, nreq=3, bounds=[len(G), 2 * len(G)])
    if kind == "D":    # first reply from a content callback that is not ready twice (chunked), second request already buffered
        return dict(req=G + G, setup=["resp %d kind=cb-unknown size=10 cbnr=2" % rid, "beh %d 0 l=r%d" % (c, rid)], extra=8, nreq=2, bounds=[len(G)])
    if kind == "B":    # upload consumed 2 bytes per call, then a pipelined GET
        return dict(req=P1 + G, setup=["beh %d 0 u=2" % c], extra=10, nreq=2, bounds=[len(P1)])
    if kind == "l":    # pipelined pair, the handler of the second request suspends at its final call (late reply)
        return dict(req=G + G, setup=["beh %d 1 l=s9999" % c], suspends=True, extra=4, nreq=2, bounds=[len(G)])
    if kind == "W":    # handler not ready: no reply for ever (busy loop by design, hint stays 0); never counted as awaiting
        return dict(req=G, setup=["beh %d 0 l=no" % c], extra=0)
    raise ValueError(kind)


BASE_ROUNDS = 8      # rounds a complete request may need after its last byte / its resume (state rank of the model)


class Case:
    """one scripted history: mode, per-connection profiles, list of events.
    event = tuple of per-connection actions:
      '-' nothing, 'A' arrive, 'Q' send the whole request, 'q' send the first half, 'r' send the rest,
      'X' client closes, 'W' client half-closes (shutdown SHUT_WR), 'U' resume, 'H' withhold this connection's
      readiness in this round (select only), 'Z' (tpc only) send the whole request and resume the connection right
      after the handler suspended it, the daemon thread processing the resume before the connection's thread is
      back at its loop head.  Every event ends with one event-loop round.  After the
      events the application keeps calling the loop as the API demands (`drain`)."""

    def __init__(self, name, mode, profs, events, drain=24, timeout=0, strict=False, suspend=1, cut=None, split=None):
        self.name, self.mode, self.profs, self.events, self.drain, self.timeout = name, mode, profs, events, drain, timeout
        self.suspend = suspend    # MHD_ALLOW_SUSPEND_RESUME (implies the inter-thread channel: add/resume make a watched fd readable)
        self.strict = strict      # the application calls the loop only when the API obliges it to (timeout known or watched fd ready)
        self.P = [profile(k, c) for c, k in enumerate(profs)]
        self.split = split        # where actions q / r of connection 0 split its request bytes (default: in the middle)
        self.cut = cut            # connection 0 sends only the first `cut` bytes of its request (prefix sweeps); then it is
        if cut is not None:       # not known to be complete: only the cross-back-end comparison judges it
            self.P[0] = dict(self.P[0], req=self.P[0]["req"][:cut], incomplete=True)

    def key(self):
        return "%s|%s|%s|%d%s%s%s" % (self.mode, "".join(self.profs), " ".join("".join(e) for e in self.events), self.timeout,
                                      "s" if self.strict else "", "" if self.suspend else "n",
                                      ("" if self.cut is None else "c%d" % self.cut) + ("" if self.split is None else "p%d" % self.split))

    def split_at(self, c):
        n = len(self.P[c]["req"])
        return self.split if (c == 0 and self.split is not None and 0 < self.split < n) else n // 2

    def lines(self):
        mem = max([p.get("mem", 0) for p in self.P] + [0])
        sp = max([p.get("sigpipe", 0) for p in self.P] + [0])
        tcp = max([p.get("tcp", 0) for p in self.P] + [0])
        out = ["case " + self.name,
               "cfg mode=%s suspend=%d%s%s%s" % ({"poll": "poll-thr", "tpc": "tpc-poll", "tpcs": "tpc-select"}.get(self.mode, self.mode), self.suspend, (" sigpipe=1" if sp else "") + (" tcp=1" if tcp else ""), " mem=%d" % mem if mem else "", " timeout=%d" % self.timeout if self.timeout else ""),
               "start"]
        for p in self.P:
            out += p["setup"]
        n = len(self.profs)
        for ev in self.events:
            hold = []
            for c in range(n):
                a = ev[c]
                req = self.P[c]["req"]
                if a == "A":
                    out.append("arrive %d %d" % (c, c + 1))
                elif a == "Q":
                    out.append("send %d %s" % (c, hx(req)))
                elif a == "Z":      # tpc: as Q, and the application resumes at the very moment the handler suspends
                    out.append("race %d" % c)
                    out.append("send %d %s" % (c, hx(req)))
                elif a == "q":
                    out.append("send %d %s" % (c, hx(req[:self.split_at(c)])))
                elif a == "r":
                    out.append("send %d %s" % (c, hx(req[self.split_at(c):])))
                elif a == "X":
                    out.append("cclose %d" % c)
                elif a == "W":
                    out.append("shutwr %d" % c)
                elif a == "U":
                    out.append("resume %d" % c)
                elif a == "H":
                    hold.append(c)
            w = "w" if self.strict else ""
            if hold and self.mode == "select":
                out.append("round-ready%s " % ("-w" if self.strict else "") + " ".join("%d:%s" % (c, k) for c in range(n) if c not in hold for k in "rwe"))
            else:
                out.append("round" + w)
        out.append("drain %d" % self.drain)
        out.append("stop")
        return out


# ------------------------------------------------------------------ harness log

def parse_snap(text):
    """'A=[..] S=[..] C=[..] N=[..] E=[..] dap=0 res=0 new=0' -> dict; connection tokens idx:st:eli:ep:res:bs"""
    d = {}
    for m in re.finditer(r"(\w+)=(\[[^\]]*\]|\S+)", text):
        k, v = m.group(1), m.group(2)
        if v.startswith("["):
            items = [x for x in v[1:-1].split(",") if x]
            if k == "E":
                d[k] = [int(x) for x in items]
            else:
                d[k] = [tuple(int(y) for y in x.split(":")) for x in items]
        else:
            d[k] = v
    return d


def parse_idlist(text):
    """'r=[0,1] w=[] e=[1]' -> dict of lists"""
    return {m.group(1): [int(x) for x in m.group(2).split(",") if x] for m in re.finditer(r"(\w)=\[([^\]]*)\]", text)}


def split_cases(lines):
    cases, cur = [], None
    for ln in lines:
        if ln.startswith("case "):
            cur = []
            cases.append((ln[5:].strip(), cur))
        elif cur is not None:
            cur.append(ln)
    return cases


class Round:
    def __init__(self):
        self.begin = None; self.end = None; self.passed = None; self.evs = []; self.calls = []   # calls: (kind, c, arg, snap)
        self.state = None; self.fdset = None; self.kready = None; self.hint = None; self.app = []  # app: callback lines inside the round
        self.raw = []        # every line of the round in order (thread-per-connection: steps of the individual threads)


def parse_case(lines):
    """-> list of items: ('arrive', c, ok, report) | ('resume', c) | ('round', Round) | ('other', line)"""
    items, i, cur = [], 0, None
    pending_report = None
    def take_report(tgt, ln):
        if ln.startswith("state "):
            tgt["state"] = parse_snap(ln[6:]); return True
        if ln.startswith("fdset "):
            tgt["fdset"] = ln[6:].strip(); return True
        if ln.startswith("kready "):
            tgt["kready"] = ln[7:].strip(); return True
        if ln.startswith("hint "):
            tgt["hint"] = ln[5:].strip(); return True
        if ln.startswith("conns "):
            tgt["conns"] = int(ln[6:]); tgt["closed"] = True; return True
        if re.match(r"(wire|eof|rst) c=", ln):
            tgt.setdefault("io", []).append(ln); return True
        return False
    for ln in lines:
        if ln.startswith("round-begin "):
            cur = Round(); cur.begin = parse_snap(ln[12:]); continue
        if cur is not None and cur.end is None:
            cur.raw.append(ln)
            if ln.startswith("round-end "):
                cur.end = parse_snap(ln[10:]); rep = {}
                items.append(("round", cur, rep)); pending_report = rep
            elif ln.startswith("passed "):
                cur.passed = parse_idlist(ln[7:])
            elif ln.startswith("ev ["):
                for t in ln[4:].rstrip("]").split(","):
                    if t:
                        c, _, m = t.partition(":")
                        cur.evs.append((int(c), m))
            elif ln.startswith("H "):
                m = re.match(r"H (\w+) c=(-?\d+) arg=(-?\d+) ret=(-?\d+) \| (.*)", ln)
                cur.calls.append((m.group(1), int(m.group(2)), int(m.group(3)), parse_snap(m.group(5))))
            else:
                cur.app.append(ln)
            continue
        if cur is not None and cur.end is not None:
            cur = None
        m = re.match(r"arrive c=(\d+) -> (\d+)", ln)
        if m:
            rep = {}
            items.append(("arrive", int(m.group(1)), int(m.group(2)), rep)); pending_report = rep
            continue
        m = re.match(r"resume c=(\d+)", ln)
        if m:
            rep = {}
            items.append(("resume", int(m.group(1)), rep)); pending_report = rep; continue
        if ln == "skipped":
            rep = {}
            items.append(("skipped", None, rep)); pending_report = rep; continue
        if pending_report is not None and take_report(pending_report, ln):
            if pending_report.get("closed"):
                pending_report = None
            continue
        items.append(("other", ln))
    return items


def where_of(snap, c):
    for wh in ("A", "S", "C"):
        for t in snap.get(wh, []):
            if t[0] == c:
                return wh, t
    return None, None


def canon_conns(lst):
    return "[" + ",".join("%d.%d.%d.%d.%d" % (t[0], t[1], t[2], t[3], t[4]) for t in lst) + "]"


def canon_state(snap, rep, mode):
    if mode == "epoll":
        fd = "ep"
    else:
        f = parse_idlist(rep.get("fdset", ""))
        fd = "r:[%s];w:[%s];e:[%s]" % tuple(",".join(map(str, f.get(k, []))) for k in "rwe")
    h = rep.get("hint", "?")
    hint = "none" if h == "none" else ("0" if h == "0" else "some")
    return "A=%s S=%s C=%s N=[%s] E=[%s] dap=%s res=%s new=%s fdset=%s hint=%s" % (
        canon_conns(snap.get("A", [])), canon_conns(snap.get("S", [])), canon_conns(snap.get("C", [])),
        ",".join(str(t[0]) for t in snap.get("N", [])), ",".join(map(str, snap.get("E", []))),
        snap.get("dap"), snap.get("res"), snap.get("new"), fd, hint)


def to_driver(case, items):
    """-> (driver input lines, expected output lines, labels) for one case"""
    mode = case.mode
    inp = ["mode %s suspend=%d" % ("pollthr" if mode == "poll" else mode, case.suspend)]
    exp = ["ok"]
    lab = ["mode"]
    for it in items:
        if it[0] == "arrive" and it[2] == 1:
            inp.append("new %d nb=1 tmo=%d" % (it[1], case.timeout * 1000))
            exp.append("state " + canon_state(it[3].get("state", {}), it[3], mode))
            lab.append("arrive %d" % it[1])
        elif it[0] == "resume":
            inp.append("resume %d" % it[1])
            exp.append("state " + canon_state(it[2].get("state", {}), it[2], mode) if "hint" in it[2] else None)
            lab.append("resume %d" % it[1])
        elif it[0] == "skipped":
            inp.append("state")
            exp.append("state " + canon_state(it[2].get("state", {}), it[2], mode) if "hint" in it[2] else None)
            lab.append("skipped round")
        elif it[0] == "round":
            r, rep = it[1], it[2]
            toks = []
            for kind, c, arg, snap in r.calls:
                wh, t = where_of(snap, c)
                if wh is None:
                    toks.append("%s.%d.0.0.0.0.X" % (kind, c))   # unparsable on purpose: reported as drift
                else:
                    toks.append("%s.%d.%d.%d.%d.%d.%s" % (kind, c, t[1], t[2], t[3], t[5], wh))
            out = ",".join(toks) if toks else "-"
            if mode == "epoll":
                ev = ",".join("%d:%s" % (c, m if m else "-") for c, m in r.evs) or "-"
                inp.append("round ev=%s out=%s" % (ev, out))
            else:
                p = r.passed or {}
                inp.append("round r=%s w=%s e=%s out=%s" % tuple([",".join(map(str, p.get(k, []))) or "-" for k in "rwe"] + [out]))
            calls = ",".join("%s.%d" % (k, c) for k, c, _, _ in r.calls)
            if "hint" in rep:
                exp.append("round calls=[%s] %s" % (calls, canon_state(rep.get("state", r.end), rep, mode)))
            else:       # rounds run inside `stop` are not followed by a report
                exp.append(None)
            lab.append("round")
    return inp, exp, lab


# ------------------------------------------------------------------ thread-per-connection: steps of the individual threads

class TStepRec:
    def __init__(self, who):
        self.who = who; self.passed = {}; self.calls = []; self.mid = False; self.block = None; self.new = []; self.snap = None
        self.nested = []


def tpc_steps(r):
    """the thread steps of one sweep, in order of their begin; a step nested in another one (the daemon thread's cycle at the
    extra scheduling point) is in `.nested` of the outer one"""
    steps, stack, pending_new = [], [], None
    for ln in r.raw:
        m = re.match(r"tstep who=(\w+)", ln)
        if m:
            st = TStepRec(m.group(1))
            (stack[-1].nested if stack else steps).append(st)
            stack.append(st); continue
        if not stack:
            continue
        cur = stack[-1]
        m = re.match(r"passed who=(\w+) (.*)", ln)
        if m:
            cur.passed = dict(kv.split("=") for kv in m.group(2).split()); continue
        m = re.match(r"H (\w+) c=(-?\d+) arg=(-?\d+) ret=(-?\d+) \| (.*)", ln)
        if m:
            cur.calls.append((m.group(1), int(m.group(2)), int(m.group(3)), parse_snap(m.group(5)))); continue
        if ln.startswith("tmid who="):
            cur.mid = True; continue
        m = re.match(r"tnew who=(\d+)", ln)
        if m:
            pending_new = int(m.group(1)); continue
        m = re.match(r"(tpark|texit) who=(\w+)(.*)", ln)
        if m:
            blk = "texit" if m.group(1) == "texit" else "tpark" + m.group(3)
            if pending_new is not None:
                cur.new.append((pending_new, blk)); pending_new = None
            else:
                cur.block = blk
            continue
        if ln.startswith("tstate "):
            cur.snap = parse_snap(ln[7:]); stack.pop(); continue
    return steps


TPC_MODES = ("tpc", "tpcs")     # thread-per-connection with poll() / with select()


def canon_block_of(blk, case):
    """harness `tpark on=sock ev=r tmo=-1` -> the model's vocabulary"""
    if blk is None:
        return "?"
    if blk == "texit":
        return "texit"
    kv = dict(x.split("=") for x in blk.split()[1:])
    t = int(kv.get("tmo", "-9"))
    if kv.get("on") == "itc":
        return "tpark on=itc ev=r tmo=%d" % t
    if t > 0 and case.mode == "tpcs" and case.timeout == 0:
        return "tpark on=sock ev=%s tmo=%d" % (kv.get("ev", ""), t)       # the bounded wait of the select() back-end while a reply is blocked
    return "tpark on=sock ev=%s tmo=%s" % (kv.get("ev", ""), "inf" if t < 0 else "0" if t == 0 else "some")


def snap_sets(snap):
    return "A=[%s] S=[%s] C=[%s]" % tuple(",".join(str(x) for x in sorted(t[0] for t in snap.get(k, []))) for k in "ASC")


def to_driver_tpc(case, items, tstats=None):
    inp, exp, lab = ["mode %s suspend=%d" % (case.mode, case.suspend)], ["ok"], ["mode"]
    canon_block = lambda blk: canon_block_of(blk, case)
    def tokens(calls):
        toks = []
        for kind, c, arg, snap in calls:
            wh, t = where_of(snap, c)
            toks.append("%s.%d.0.0.0.0.X" % (kind, c) if wh is None else "%s.%d.%d.%d.%d.%d.%s" % (kind, c, t[1], t[2], t[3], t[5], wh))
        return ",".join(toks) if toks else "-"
    def emit_daemon(st, check):
        inp.append("tdaemon"); exp.append(None); lab.append("daemon thread cycle")
        for c, blk in st.new:
            inp.append("tnew %d tmo=%d" % (c, case.timeout * 1000))
            exp.append("tnew wh=A " + canon_block(blk)); lab.append("new thread %d" % c)
        if check and st.snap is not None:
            inp.append("tstate"); exp.append("tstate " + snap_sets(st.snap)); lab.append("lists after the daemon thread's cycle")
        if tstats is not None:
            tstats["tpc_daemon_cycles"] = tstats.get("tpc_daemon_cycles", 0) + 1
    for it in items:
        if it[0] == "resume":
            inp.append("tresume %d" % it[1]); exp.append("ok"); lab.append("resume %d" % it[1])
        elif it[0] == "round":
            for st in tpc_steps(it[1]):
                if st.who == "D":
                    emit_daemon(st, True)
                    continue
                c = int(st.who)
                for nd in st.nested:
                    emit_daemon(nd, False)
                p = st.passed
                wh, _ = where_of(st.snap or {}, c)
                inp.append("tstep %d r=%s w=%s e=%s%s out=%s" % (c, p.get("r", "0"), p.get("w", "0"), p.get("e", "0"),
                                                                 " res=1" if st.mid else "", tokens(st.calls)))
                exp.append("tstep calls=[%s] wh=%s %s" % (",".join("%s.%d" % (k, cc) for k, cc, _, _ in st.calls), wh or "?", canon_block(st.block)))
                lab.append("thread %d: blocking call returned (%s)%s" % (c, " ".join("%s=%s" % kv for kv in sorted(p.items())), " + resume before the loop head" if st.mid else ""))
                if tstats is not None:
                    tstats["tpc_thread_steps"] = tstats.get("tpc_thread_steps", 0) + 1
                    if st.mid:
                        tstats["tpc_resume_before_loop_head"] = tstats.get("tpc_resume_before_loop_head", 0) + 1
                    b = canon_block(st.block)
                    key = "tpc_block_" + ("exit" if b == "texit" else "itc" if "on=itc" in b else "sock_" + b.rsplit("tmo=", 1)[1])
                    if case.mode == "tpcs":
                        tstats["tpc_select_thread_steps"] = tstats.get("tpc_select_thread_steps", 0) + 1
                    tstats[key] = tstats.get(key, 0) + 1
    return inp, exp, lab


def tpc_segments(items):
    """pseudo rounds for the law monitor: the handler calls of one thread between two scheduling points"""
    out = []
    for it in items:
        if it[0] != "round":
            continue
        def walk(st):
            k = 0
            for nd in st.nested:
                walk(nd)
            if st.calls:
                segs = [st.calls]
                if st.mid:      # the calls before and after the resume are separate segments: find the suspending idle call
                    for i, (kind, c, arg, snap) in enumerate(st.calls):
                        if kind == "idle" and where_of(snap, c)[0] == "S":
                            segs = [st.calls[:i + 1], st.calls[i + 1:]]; break
                for sg in segs:
                    if sg:
                        r = Round(); r.calls = sg
                        out.append(("round", r, {}))
        for st in tpc_steps(it[1]):
            walk(st)
    return out


# ------------------------------------------------------------------ law monitor (what the theorems assume of `Ops`)

ST_CLOSED = 22          # refreshed from Gen by law_monitor's caller (Spec.build)
ST_INIT = 0
ELI = {"read": 1, "write": 2, "process": 4, "processRead": 5, "cleanup": 8}
TABLE = {}              # state -> event_loop_info MHD_connection_update_event_loop_info must leave (from Gen)


def law_monitor(items, tmo0=True):
    """What the theorems assume of the abstract per-connection step (Mhd.Proofs.LoopCH `Laws`, LoopEpoll
    `LawsEp`), checked on every logged handler call:
      frame       a handler call changes only its own connection;
      idle_where  it moves it only active -> suspended/cleanup or suspended -> cleanup;
      idle_closed after handle_idle a closed connection is in the cleanup list, not in the active one (tmo0: no timeouts);
      read_force  handle_read (socket_error = true) leaves the connection closed;
      idle_table  after handle_idle an active connection's event_loop_info is the one its state calls for (sending states
                  WRITE, "unready"/full-request states PROCESS, line/header receiving states READ; table from Gen);
      idle_buffered after handle_idle an active connection in state INIT has an empty read buffer (bytes left over from the
                  previous request have been looked at: buffered unexamined input is work that needs no network input);
      idle_quiet  handle_idle on a connection without pending work that is blocked on the network (no PROCESS bit, not
                  read-ready while waiting to read, not write-ready while waiting to write; monitored for the first
                  call on a connection in a round that is not in eready) leaves it blocked, or in a PROCESS state,
                  or removes it from the active list."""
    errs = []
    for it in items:
        if it[0] != "round":
            continue
        r = it[1]
        prev = None
        touched = set()
        for kind, c, arg, snap in r.calls:
            if prev is not None:
                for wh in ("A", "S", "C"):   # epoll bits other than READ/WRITE_READY belong to the loop, not to the handlers
                    before = [(t[0], t[1], t[2], t[3] & 3, t[4], t[5]) for t in prev.get(wh, []) if t[0] != c]
                    after = [(t[0], t[1], t[2], t[3] & 3, t[4], t[5]) for t in snap.get(wh, []) if t[0] != c]
                    if before != after:
                        errs.append("frame: handler %s on c=%d changed other connections in list %s: %s -> %s" % (kind, c, wh, before, after))
                w0, t0 = where_of(prev, c)
                w1, t1 = where_of(snap, c)
                if (w0, w1) not in (("A", "A"), ("A", "S"), ("A", "C"), ("S", "S"), ("S", "C"), ("C", "C")):
                    errs.append("idle_where: handler %s moved c=%d from %s to %s" % (kind, c, w0, w1))
                if kind == "idle" and w1 == "A" and t1 is not None and t1[1] in TABLE and t1[2] != TABLE[t1[1]]:
                    errs.append("idle_table: after handle_idle c=%d is in state %d with event_loop_info %d (the state's wait class is %d)"
                                % (c, t1[1], t1[2], TABLE[t1[1]]))
                if kind == "idle" and w1 == "A" and t1 is not None and t1[1] == ST_CLOSED and tmo0:
                    errs.append("idle_closed: handle_idle left the closed connection c=%d in the active list" % c)
                if kind == "idle" and w0 == "A" and w1 == "A" and t0 is not None and t1 is not None:
                    def blocked(t):
                        e, ep = t[2], t[3]
                        return not (e & ELI["process"]) and not ((e & ELI["read"]) and (ep & 1)) and not (e == ELI["write"] and (ep & 2))
                    # only for connections without pending work: not touched by read/write in this round, not in eready
                    if c not in touched and not (t0[3] & 4) and blocked(t0) and not (t1[2] & ELI["process"]) and not blocked(t1):
                        errs.append("idle_quiet: handle_idle turned the blocked connection c=%d into %s" % (c, t1))
            if kind == "idle":
                wb, tb = where_of(snap, c)
                if wb == "A" and tb is not None and tb[1] == ST_INIT and len(tb) > 6 and tb[6]:
                    errs.append("idle_buffered: handle_idle left c=%d in state INIT (waiting for the client) with unexamined bytes in its read buffer" % c)
            touched.add(c)
            if kind == "read" and arg == 1:
                w1, t1 = where_of(snap, c)
                if t1 is not None and t1[1] != ST_CLOSED:
                    errs.append("read_force: handle_read with socket_error left c=%d in state %d" % (c, t1[1]))
            prev = snap
    return errs


# ------------------------------------------------------------------ independent oracle (harness log only)

def reply_end(data, pos=0, head=False):
    """end offset of the first complete HTTP/1.1 reply (after any 1xx interim replies) in data[pos:], or None"""
    while True:
        k = data.find(b"\r\n\r\n", pos)
        if k < 0:
            return None
        headp = data[pos:k].split(b"\r\n")
        m = re.match(rb"HTTP/1\.[01] (\d\d\d)", headp[0])
        if not m:
            return None
        code = int(m.group(1))
        body = k + 4
        if 100 <= code < 200 and code != 101:
            pos = body
            continue
        hd = {}
        for h in headp[1:]:
            n, _, v = h.partition(b":")
            hd[n.strip().lower()] = v.strip().lower()
        if head or code in (204, 304):
            return body
        if b"chunked" in hd.get(b"transfer-encoding", b""):
            q = body
            while True:
                e = data.find(b"\r\n", q)
                if e < 0:
                    return None
                try:
                    n = int(data[q:e].split(b";")[0], 16)
                except ValueError:
                    return None
                if n == 0:
                    t = data.find(b"\r\n\r\n", e)      # end of the (possibly empty) trailer section
                    return None if t < 0 else t + 4
                q = e + 2 + n + 2
                if q > len(data):
                    return None
        if b"content-length" in hd:
            try:
                end = body + int(hd[b"content-length"])
            except ValueError:
                return None
            return end if len(data) >= end else None
        return None     # delimited by close only


def replies_complete(data, head=False):
    """number of complete replies in the bytes the client received"""
    n, pos = 0, 0
    while pos < len(data):
        e = reply_end(data, pos, head)
        if e is None:
            break
        n += 1; pos = e
    return n


def reply_complete(data, head=False):
    """is `data` (bytes the client received) a complete HTTP/1.1 reply (after any 1xx interim replies)?"""
    pos = 0
    while True:
        k = data.find(b"\r\n\r\n", pos)
        if k < 0:
            return False
        headp = data[pos:k].split(b"\r\n")
        m = re.match(rb"HTTP/1\.[01] (\d\d\d)", headp[0])
        if not m:
            return False
        code = int(m.group(1))
        body = k + 4
        if 100 <= code < 200 and code != 101:
            pos = body
            continue
        hd = {}
        for h in headp[1:]:
            n, _, v = h.partition(b":")
            hd[n.strip().lower()] = v.strip().lower()
        if head or code in (204, 304):
            return True
        if b"chunked" in hd.get(b"transfer-encoding", b""):
            q = body
            while True:
                e = data.find(b"\r\n", q)
                if e < 0:
                    return False
                try:
                    n = int(data[q:e].split(b";")[0], 16)
                except ValueError:
                    return False
                if n == 0:
                    return data.find(b"\r\n\r\n", e) >= 0 or data[e:e + 4] == b"\r\n\r\n"
                q = e + 2 + n + 2
                if q > len(data):
                    return False
        if b"content-length" in hd:
            try:
                return len(data) - body >= int(hd[b"content-length"])
            except ValueError:
                return False
        return False     # delimited by close only


def oracle(case, items):
    """C06 over what the real daemon did, knowing only the script and the harness log:
       (a) whenever the daemon answers "no timeout" and no watched descriptor is ready, every client that has
           sent its complete (or definitively malformed) request, has not closed and whose connection is not
           suspended by the application has its full reply or a close;
       (b) such a client is served within BASE_ROUNDS + extra(profile) fair rounds;
       (c) the loop reaches a quiescent point (no endless zero-timeout spinning while a client awaits);
       (d) at such a quiescent point no connection sits in the active list marked closed / CLEANUP (its socket is
           still open, its slot still counted, its termination not yet notified: work that needs no input)."""
    n = len(case.profs)
    sent_done = [False] * n
    cclosed = [False] * n
    suspended = [False] * n
    wire = [b""] * n
    gone = [False] * n              # client saw EOF / reset
    fair = [0] * n                  # fair rounds since the request became complete / the connection was resumed
    errs = []

    def served(c):
        k = case.P[c].get("nreq", 1)      # pipelined requests: every one of them must be answered (or the connection closed)
        if k > 1:
            return gone[c] or replies_complete(wire[c], case.P[c].get("head", False)) >= k
        return gone[c] or reply_complete(wire[c], case.P[c].get("head", False))

    def awaiting(c):
        return sent_done[c] and not cclosed[c] and not suspended[c] and case.profs[c] != "W" and \
            not case.P[c].get("incomplete") and not served(c)

    case.final_served = None
    try:
        evq = list(case.events)
        nround = 0
        for it in items:
            if it[0] == "other":
                if it[1].startswith("drain-exhausted"):
                    aw = [c for c in range(n) if awaiting(c)]
                    if aw:
                        errs.append(("spinning-while-awaiting", "the loop was still demanded after the drain budget, clients %s unserved" % aw, nround))
                continue
            if it[0] == "resume":
                c = it[1]
                if c < n:
                    suspended[c] = False
                    fair[c] = 0
                rep = it[2]
            elif it[0] == "arrive":
                rep = it[3]
            elif it[0] in ("round", "skipped"):
                rep = it[2]
                ev = evq.pop(0) if evq else tuple("-" * n)
                for c in range(n):
                    a = ev[c]
                    if a in "QrZ" and not sent_done[c]:
                        sent_done[c] = True; fair[c] = 0
                    if a in "XW":
                        cclosed[c] = True
                if it[0] == "round":
                    for ln in it[1].app:
                        m = re.match(r"suspend c=(\d+)", ln)
                        if m and int(m.group(1)) < n:
                            suspended[int(m.group(1))] = True
                        m = re.match(r"resume c=(\d+)", ln)     # tpc: resumed by another thread while the round is under way
                        if m and int(m.group(1)) < n:
                            suspended[int(m.group(1))] = False; fair[int(m.group(1))] = 0
                    nround += 1
                    for c in range(n):
                        if ev[c] != "H":
                            fair[c] += 1
            else:
                continue
            for ln in rep.get("io", []):
                m = re.match(r"wire c=(\d+) (\S+)", ln)
                if m and int(m.group(1)) < n:
                    wire[int(m.group(1))] += bytes.fromhex(m.group(2)); continue
                m = re.match(r"(eof|rst) c=(\d+)", ln)
                if m and int(m.group(2)) < n:
                    gone[int(m.group(2))] = True
            kr = rep.get("kready", "")
            any_ready = ("ep=1" in kr) or ("itc=1" in kr) or any(v for v in parse_idlist(kr).values())
            if rep.get("hint") == "none" and not any_ready:
                stuck = [t[0] for t in rep.get("state", {}).get("A", []) if t[2] == ELI["cleanup"]]
                if stuck:
                    errs.append(("quiescent-with-closed-connection",
                                 "after round %d: hint none, no watched descriptor ready, but connections %s are marked closed and "
                                 "still in the active list (not cleaned up); state %s" % (nround, stuck, rep.get("state")), nround))
                    break
                aw = [c for c in range(n) if awaiting(c)]
                if aw:
                    st = rep.get("state", {})
                    tok = [t for t in st.get("A", []) if t[0] == aw[0]]
                    what = "connection marked closed but left in the active list" if tok and tok[0][2] == ELI["cleanup"] else \
                           "connection waits for processing" if tok and (tok[0][2] & ELI["process"]) else \
                           "connection waits for the wrong event" if tok else "connection is in no active list"
                    errs.append(("quiescent-while-awaiting (%s)" % what,
                                 "after round %d: hint none, no watched descriptor ready, but clients %s (profiles %s) have "
                                 "sent a complete request and have neither a full reply nor a close; state %s"
                                 % (nround, aw, [case.profs[c] for c in aw], st), nround))
                    break
            for c in range(n):
                if awaiting(c) and fair[c] > BASE_ROUNDS + case.P[c].get("extra", 0):
                    errs.append(("not-served-within-bound", "client %d (profile %s) unserved after %d fair rounds (bound %d)"
                                 % (c, case.profs[c], fair[c], BASE_ROUNDS + case.P[c].get("extra", 0)), nround))
                    return errs
        return errs
    finally:
        case.final_served = [served(c) for c in range(n)]


# ------------------------------------------------------------------ generators

ACTS = "-AQXUH"


def conn_sequences(length, suspends, with_hold, with_race=False):
    """all action sequences of one connection over `length` events:
       -* A (-|H)* [Q (-|H|U)*] [X -*]   (U only for suspending profiles, at most once, after Q;
       with_race: Z instead of Q for suspending profiles — resumed at the moment of the suspension, no U afterwards)"""
    out = []
    def rec(seq, arrived, sent, closed, resumed):
        if len(seq) == length:
            out.append(tuple(seq)); return
        opts = ["-"]
        if not arrived:
            opts.append("A")
        elif not closed:
            if not sent:
                opts.append("Q")
                if with_race and suspends:
                    opts.append("Z")
            opts.append("X")
            if with_hold:
                opts.append("H")
            if suspends and sent and not resumed:
                opts.append("U")
        for a in opts:
            rec(seq + [a], arrived or a == "A", sent or a in "QZ", closed or a == "X", resumed or a in "UZ")
    rec([], False, False, False, False)
    return out


def gen_exhaustive(mode, length, prof_pairs, strict=False, suspend=1):
    """all schedules of exactly `length` events over 2 connections (shorter ones are prefixes padded with idle rounds)"""
    for pa, pb in prof_pairs:
        sa = conn_sequences(length, profile(pa, 0).get("suspends", False), mode == "select", mode in TPC_MODES)
        sb = conn_sequences(length, profile(pb, 1).get("suspends", False), mode == "select", mode in TPC_MODES)
        for a in sa:
            if "A" not in a:
                continue
            for b in sb:
                if "A" not in b and any(x != "-" for x in b):
                    continue
                evs = [(a[i], b[i]) for i in range(length)]
                while evs and evs[-1] == ("-", "-"):
                    evs.pop()
                if len(evs) < length:
                    continue          # covered by the shorter enumeration
                yield Case("x", mode, [pa, pb], evs, strict=strict, suspend=suspend)


def gen_directed():
    """scenario classes that every run covers in both back-ends, with the eager and with the obligation-only application:
    piecewise consumed uploads next to an idle keep-alive connection, file responses larger than a sendfile chunk,
    requests that fill the arena exactly, plus prefix sweeps of oversized requests around the arena size (pairs
    select/epoll for the cross-back-end comparison).  -> (cases, pairs)"""
    cases, pairs = [], []
    one = [("A",), ("Q",)]
    two = [("A", "A"), ("Q", "-"), ("-", "Q")]
    two_b = [("A", "A"), ("Q", "Q")]
    for mode in ("select", "epoll", "poll", "tpc", "tpcs"):
        for strict in ((False, True) if mode not in ("poll", "tpc", "tpcs") else (True,)):
            for profs, evs in ((["k"], one), (["G", "k"], two), (["G", "k"], two_b), (["k", "G"], two), (["p"], one), (["G", "p"], two),
                               (["G", "K"], two), (["k", "k"], two_b), (["F"], one), (["G", "F"], two), (["F", "C"], two_b), (["f"], one),
                               (["o"], one), (["u"], one), (["t"], one), (["G", "o"], two), (["o", "C"], two_b)):
                cases.append(Case("d", mode, profs, evs, drain=100, strict=strict))
    # late replies in every back-end: the handler suspends, another thread resumes while the loop is idle
    for mode in ("select", "epoll", "poll", "tpc", "tpcs"):
        for profs, evs in ((["S"], [("A",), ("Q",), ("-",), ("U",)]), (["L"], [("A",), ("Q",), ("-",), ("U",)]),
                           (["S", "G"], [("A", "A"), ("Q", "Q"), ("-", "-"), ("U", "-")]),
                           (["C", "S"], [("A", "A"), ("Q", "Q"), ("-", "-"), ("-", "-"), ("-", "-"), ("-", "-"), ("-", "U")])):
            cases.append(Case("d", mode, profs, evs, drain=100, strict=True))
    # thread-per-connection: the application resumes at the moment the handler suspends, the daemon thread processes the resume
    # before the connection's thread is back at its loop head
    for profs, evs in ((["S"], [("A",), ("Z",)]), (["L"], [("A",), ("Z",)]), (["S", "G"], [("A", "A"), ("Z", "Q")]),
                       (["C", "S"], [("A", "A"), ("Q", "Z")]), (["S", "S"], [("A", "A"), ("Z", "Z")]), (["L", "k"], [("A", "A"), ("Z", "Q")])):
        cases.append(Case("d", "tpc", profs, evs, drain=100, strict=True))
        cases.append(Case("d", "tpcs", profs, evs, drain=100, strict=True))
    for tmo in (0, 5):      # connection timeouts: the thread's own deadline
        for profs, evs in ((["P"], [("A",), ("q",), ("-",), ("r",)]), (["G", "P"], [("A", "A"), ("Q", "q")]), (["K"], [("A",), ("q",)])):
            cases.append(Case("d", "tpc", profs, evs, drain=100, strict=True, timeout=tmo))
            cases.append(Case("d", "tpcs", profs, evs, drain=100, strict=True, timeout=tmo))
    # pipelining: k complete requests delivered in one segment, or split anywhere (in particular at every request boundary), then
    # silence — every request must be answered in every back-end; alone, next to other connections, with late replies
    for mode in ("select", "epoll", "poll", "tpc", "tpcs"):
        stricts = (False, True) if mode in ("select", "epoll") else (True,)
        for strict in stricts:
            for shape in "23DB":
                cases.append(Case("p", mode, [shape], one, drain=100, strict=strict))
            for profs, evs in ((["2", "C"], two_b), (["C", "2"], two), (["2", "2"], two_b), (["k", "3"], two_b), (["D", "G"], two),
                               (["l"], [("A",), ("Q",), ("-",), ("U",)]), (["l", "2"], [("A", "A"), ("Q", "Q"), ("-", "-"), ("U", "-")]),
                               (["2", "S"], [("A", "A"), ("Q", "Q"), ("-", "-"), ("-", "U")])):
                cases.append(Case("p", mode, profs, evs, drain=100, strict=strict))
        for shape in "23DB":
            pr = profile(shape, 0)
            n = len(pr["req"])
            cuts = range(1, n) if shape in "23" else sorted({b + d for b in pr["bounds"] for d in (-2, -1, 0, 1, 2)} | {n // 2})
            for p in cuts:
                if 0 < p < n:
                    cases.append(Case("p", mode, [shape], [("A",), ("q",), ("r",)], drain=100, strict=True, split=p))
                    if p in pr["bounds"]:      # … and with idle rounds between the pieces
                        cases.append(Case("p", mode, [shape], [("A",), ("q",), ("-",), ("r",)], drain=100, strict=(mode != "select"), split=p))
    for shape in "OUTo":
        full = len(profile(shape, 0)["req"])
        for n in range(1024 - 72, 1024 + 4):
            if n > full:
                continue
            a = Case("w", "select", [shape], one, drain=100, strict=True, cut=n)
            b = Case("w", "epoll", [shape], one, drain=100, strict=True, cut=n)
            cases += [a, b]; pairs.append((a, b))
    return cases, pairs


def gen_random(rng, mode, nconn=None):
    n = nconn or rng.choice([1, 2, 2, 3, 3])
    pool = "GGCcSLPKEHMmRWkpf23DBl" if mode not in TPC_MODES else "GGCcSSLLPKEHMmRkp23DBl"    # (W spins by design: one thread at zero timeout for ever)
    small = rng.random() < 0.25
    if small:
        pool = "GCSOUNXMTkout"
    profs = [rng.choice(pool) for _ in range(n)]
    P = [profile(k, c) for c, k in enumerate(profs)]
    length = rng.randint(2, 9)
    st = [dict(arr=False, sent=0, closed=False, res=False) for _ in range(n)]
    evs = []
    for _ in range(length):
        ev = []
        for c in range(n):
            s = st[c]
            opts = ["-", "-"]
            if not s["arr"]:
                opts += ["A", "A", "A"]
            elif not s["closed"]:
                if s["sent"] == 0:
                    opts += ["Q", "Q", "Q", "q"]
                elif s["sent"] == 1:
                    opts += ["r", "r"]
                opts += ["X"] if rng.random() < 0.5 else []
                opts += ["W"] if rng.random() < 0.15 else []
                if mode == "select":
                    opts.append("H")
                if P[c].get("suspends") and s["sent"] == 2 and not s["res"]:
                    opts += ["U", "U"]
                if mode in TPC_MODES and P[c].get("suspends") and s["sent"] == 0 and rng.random() < 0.3:
                    opts += ["Z"]
            a = rng.choice(opts)
            if a == "A":
                s["arr"] = True
            elif a == "Q":
                s["sent"] = 2
            elif a == "Z":
                s["sent"] = 2; s["res"] = True
            elif a == "q":
                s["sent"] = 1
            elif a == "r":
                s["sent"] = 2
            elif a in "XW":
                s["closed"] = True
            elif a == "U":
                s["res"] = True
            ev.append(a)
        evs.append(tuple(ev))
    tmo = rng.choice([0, 0, 0, 0, 5]) if mode in ("select", "poll", "tpc", "tpcs") else 0   # timeout lists are C10's; the epoll model needs 0
    susp = 1 if any(p.get("suspends") for p in P) or rng.random() < 0.6 else 0
    return Case("r", mode, profs, evs, drain=100 if small else 30, timeout=tmo, strict=rng.random() < 0.5, suspend=susp)


# ------------------------------------------------------------------ running

def first_diff(a, b):
    wa, wb = a.split(" "), b.split(" ")
    for x, y in zip(wa, wb):
        if x != y:
            return "code %s / model %s" % (x, y)
    return "code %r / model %r" % (a[-60:], b[-60:])


def same_line(exp, got):
    """the model answers `some` where MHD_get_timeout64 computes a value from the timeout lists (C10's subject):
    any number the code returned is accepted there; `none` and `0` must agree exactly"""
    if exp == got:
        return True
    if got.endswith("tmo=some") and re.search(r"tmo=\d+$", exp):     # thread-per-connection: a deadline computed from the connection timeout
        return exp.rsplit(" tmo=", 1)[0] == got.rsplit(" tmo=", 1)[0]
    if got.endswith("hint=some") and not exp.endswith("hint=none"):
        return exp.rsplit(" hint=", 1)[0] == got.rsplit(" hint=", 1)[0]
    return False


def strip_nums(s):
    return re.sub(r"\d+", "N", s)


class Spec:
    props_module = "Mhd.Props.C06"
    lean_targets = ["Mhd.Props.C06", "drv_loop"]
    required_theorems = ["Mhd.C06.code_select_saves_prev", "Mhd.C06.code_poll_saves_prev", "Mhd.C06.code_epoll_saves_prev",
                         "Mhd.C06.code_eready_drop_exact", "Mhd.C06.wait_table_sane", "Mhd.C06.round_wait_class",
                         "Mhd.C06.call_handlers_idles", "Mhd.C06.call_handlers_sync",
                         "Mhd.C06.select_round_post", "Mhd.C06.poll_round_post", "Mhd.C06.epoll_round_post",
                         "Mhd.C06.pending_flag", "Mhd.C06.pending_flag_epoll", "Mhd.C06.round_leaves_no_closed",
                         "Mhd.C06.invariant_reachable", "Mhd.C06.invariant_reachable_epoll",
                         "Mhd.C06.no_lost_wakeup", "Mhd.C06.no_lost_wakeup_epoll",
                         "Mhd.C06.progress_one_round", "Mhd.C06.progress",
                         "Mhd.C06.select_unsaved_prev_loses_wakeup", "Mhd.C06.select_unsaved_prev_breaks_invariant",
                         "Mhd.C06.code_tpc_rechecks_suspend", "Mhd.C06.code_tpc_marks_suspend", "Mhd.C06.tpc_resume_any_time",
                         "Mhd.C06.tpc_invariant_reachable", "Mhd.C06.tpc_no_lost_wakeup",
                         "Mhd.C06.tpc_resume_is_served", "Mhd.C06.tpc_progress_one_iteration", "Mhd.C06.tpc_progress",
                         "Mhd.C06.tpc_no_recheck_loses_wakeup", "Mhd.C06.tpc_unnoticed_resume_loses_wakeup",
                         "Mhd.C06.tpc_unnoticed_resume_breaks_invariant", "Mhd.C06.connsm_wait_class_in_table",
                         "Mhd.C06.connsm_satisfies_laws", "Mhd.C06.connsm_satisfies_law_table", "Mhd.C06.connsm_satisfies_law_open",
                         "Mhd.C06.no_lost_wakeup_connsm", "Mhd.C06.no_unexamined_input_when_quiescent", "Mhd.C06.tpc_no_lost_wakeup_connsm",
                         "Mhd.C06.progress_connsm", "Mhd.C06.code_backends_resume_every_cycle", "Mhd.C06.daemon_cycle_processes_resumes", "Mhd.C06.tpc_resume_request_is_served",
                         "Mhd.C06.deaf_daemon_never_resumes", "Mhd.C06.code_reply_sent_continues", "Mhd.C06.reply_sent_leaves_no_unexamined_input", "Mhd.C06.reply_sent_break_loses_wakeup"]
    trusted_base = ["Lean 4 kernel", "axioms: propext, Classical.choice, Quot.sound at most (audited per theorem)",
                    "hand-written loop model lean/Mhd/Model/Loop.lean, LoopRounds.lean, LoopTpc.lean tied to daemon.c by this run's correspondence "
                    "(handler-call order, list contents and order, flags, epoll bits, fd sets, hint class predicted for every logged round)",
                    "tools/props/C06.py gen_loop (enum values regenerated semantically; the three saves-prev facts syntactically, "
                    "cross-checked by the correspondence: a wrong flag shows up as a call-order difference)",
                    "harness/h_loop.c (link-time wrappers around the handler entry points, white-box snapshots, interposed epoll_wait), gcc, ASan/UBSan",
                    "the per-connection step is a parameter of the model (Ops); for C05's state machine (Mhd.Model.ConnSM via Mhd.Model.LoopConnSM."
                    "connsmOps) the safety laws Laws, LawTable and (without time-outs) LawOpen are PROVED (connsm_satisfies_laws …) and the select/"
                    "poll/thread-per-connection no-lost-wake-up theorems are instantiated; what remains assumed for that step: ProgLaws (reply "
                    "counter / measure) and the epoll-only laws of LawsEp (idle_quiet needs a consistency invariant); "
                    "in general the theorems assume the law records Laws (Proofs/LoopCH), "
                    "LawsEp (LoopEpoll), ProgLaws / LawOpen (LoopProgress); frame, idle_where, idle_closed/LawOpen, read_force, idle_quiet, idle_buffered are "
                    "monitored on every logged handler call, idle_sync and ProgLaws are what the independent oracle tests end-to-end"]
    assumptions = ["event loops in the correspondence: external select, external epoll, MHD_poll_all with the internal thread and thread-per-connection "
                   "(poll and select) — the last two in lock-step through interposed, gated poll() / select(); the thread pool is not run",
                   "thread-per-connection model: one iteration of a connection's thread (blocking call returned -> handlers -> loop head -> next "
                   "blocking call) is atomic with respect to the daemon thread; a resume is processed between iterations, including right after "
                   "the iteration in which the handler suspended (the harness has that scheduling point); theorems tpc_* hold for resumes at any "
                   "moment because the regenerated tpcMarksSuspend is true (code_tpc_marks_suspend; the unfixed loop: tpc_unnoticed_resume_loses_wakeup)",
                   "no listen socket / accept, no TLS, no upgraded connections, connection limit not reached",
                   "application callbacks touch only their own connection (suspend it, queue a reply); MHD_resume_connection / MHD_add_connection "
                   "are called between rounds; MHD_resume_connection only on suspended connections (API)",
                   "the inter-thread channel (present with MHD_ALLOW_SUSPEND_RESUME) is a watched descriptor for the oracle and is not modelled: the "
                   "model's quiescence uses the resuming / have_new flags only, which is the stronger statement",
                   "connection timeout 0 in the epoll correspondence and in round_leaves_no_closed (timeout lists are C10's subject); with a timeout "
                   "the model predicts only `none / 0 / some value` for MHD_get_timeout64",
                   "kernel epoll semantics are an input of the model (the events epoll_wait delivered are read from the harness log)"]

    def gen(self, ctx):
        gen_loop()

    def build(self, ctx):
        global ST_CLOSED, ST_INIT, ELI, TABLE
        try:        # numeric codes the monitor and the oracle use to read the white-box snapshots: from the regenerated file
            g = dict(re.findall(r"def (\w+) : Nat := (\d+)", open(GEN_PATH).read()))
            ST_CLOSED = int(g.get("stClosed", ST_CLOSED)); ST_INIT = int(g.get("stInit", ST_INIT))
            ELI = {"read": int(g["eliRead"]), "write": int(g["eliWrite"]), "process": int(g["eliProcess"]),
                   "processRead": int(g["eliProcessRead"]), "cleanup": int(g["eliCleanup"])}
            TABLE = {}
            for nm, e in (("readStates", "read"), ("writeStates", "write"), ("processStates", "process")):
                m = re.search(r"def %s : List Nat := \[([^\]]*)\]" % nm, open(GEN_PATH).read())
                for x in (m.group(1).split(",") if m and m.group(1).strip() else []):
                    TABLE[int(x)] = ELI[e]
        except (OSError, KeyError, ValueError):
            pass
        self.harness = vlib.build_daemon_harness(name="h_loop", src="harness/h_loop.c", ldextra=[WRAP, "-ldl"])
        self.driver = vlib.driver_path("drv_loop")

    # -- one batch of cases through harness, driver, monitor, oracle
    def run_batch(self, cases, failures, stats):
        lines = []
        for i, cs in enumerate(cases):
            cs.name = "k%d" % i
            lines += cs.lines()
        hout, hrc, herr = vlib.run_lines(self.harness, lines, timeout=900,
                                         env={"ASAN_OPTIONS": "detect_leaks=0:abort_on_error=0:allocator_may_return_null=1"})
        logs = split_cases(hout)
        if hrc != 0:
            k = len(logs) - 1
            cs = cases[k] if 0 <= k < len(cases) else cases[-1]
            failures.append(vlib.Failure("sanitizer", "loop: harness aborted", "rc=%d %s" % (hrc, herr[-1500:]), cs.lines(), "loop"))
            logs = logs[:max(k, 0)]
        dinp, dexp, dmeta = [], [], []
        per_case = []
        for k, (name, ll) in enumerate(logs):
            cs = cases[k]
            items = parse_case(ll)
            per_case.append(items)
            inp, exp, lab = to_driver_tpc(cs, items, stats) if cs.mode in TPC_MODES else to_driver(cs, items)
            for j in range(len(inp)):
                dinp.append(inp[j]); dexp.append(exp[j]); dmeta.append((k, lab[j]))
        mout, mrc, merr = vlib.run_lines(self.driver, dinp, timeout=900)
        bad_case = {}
        for j in range(len(dinp)):
            k, lab = dmeta[j]
            if k in bad_case:
                continue
            got = mout[j] if j < len(mout) else "<no output>"
            if dexp[j] is None:
                if got == "bad-op":
                    bad_case[k] = ("diff", "model rejects op '%s'" % dinp[j][:80], lab)
                continue
            if "fault=" in got:
                bad_case[k] = ("model", "model fault at %s: %s" % (lab, got[got.index("fault="):]), lab)
            elif not same_line(dexp[j], got):
                bad_case[k] = ("diff", "%s: %s" % (lab, first_diff(dexp[j], got)), lab)
        for k, items in enumerate(per_case):
            cs = cases[k]
            stats["cases"] += 1
            nr = sum(1 for it in items if it[0] == "round")
            stats["rounds"] += nr
            stats["calls"] += sum(len(it[1].calls) for it in items if it[0] == "round")
            for it in items:
                if it[0] == "round":
                    r = it[1]
                    a0 = {t[0] for t in r.begin.get("A", [])}
                    a1 = {t[0] for t in r.end.get("A", [])}
                    s1 = {t[0] for t in r.end.get("S", [])}
                    if (a0 - a1) and (a0 & a1):
                        stats["rounds_with_close_or_suspend_and_survivor"] += 1
                    if s1 & a0:
                        stats["rounds_with_suspend"] += 1
                    if r.begin.get("N"):
                        stats["rounds_with_new"] += 1
                    if any(t[2] & ELI["process"] for t in r.end.get("A", [])):
                        stats["rounds_ending_in_process"] += 1
                    if it[2].get("hint") == "none":
                        stats["quiescent_reports"] += 1
            law = law_monitor(tpc_segments(items) if cs.mode in TPC_MODES else items, tmo0=(cs.timeout == 0))
            orc = oracle(cs, items)
            cs.orc_errs = orc
            if orc:
                kind, det, at = orc[0]
                failures.append(vlib.Failure("oracle", "loop: %s mode=%s" % (kind, cs.mode), det + " | case " + cs.key(), cs.lines(), "loop"))
                stats["oracle_violations"] += 1
            if law:
                failures.append(vlib.Failure("diff", "loop: law of the abstract step violated: " + strip_nums(law[0])[:90],
                                             law[0] + " | case " + cs.key(), cs.lines(), "loop"))
            if k in bad_case:
                kind, det, lab = bad_case[k]
                if not orc:
                    failures.append(vlib.Failure(kind, "loop: model/code differ (%s) mode=%s" % (strip_nums(det)[:70], cs.mode),
                                                 det + " | case " + cs.key(), cs.lines(), "loop"))
                stats["diffs"] += 1

    def run_parallel(self, cases, failures, stats, chunk=400):
        from concurrent.futures import ThreadPoolExecutor
        chunks = [cases[i:i + chunk] for i in range(0, len(cases), chunk)]
        res = []
        def work(ch):
            f, st = [], {k: 0 for k in stats}
            self.run_batch(ch, f, st)
            return f, st
        with ThreadPoolExecutor(max_workers=min(vlib.NCPU, 16)) as ex:
            for f, st in ex.map(work, chunks):
                failures += f
                for k, v in st.items():
                    stats[k] = stats.get(k, 0) + v

    def corpus(self):
        out = []
        cdir = os.path.join(vlib.VERIF, "corpus", "loop")
        if os.path.isdir(cdir):
            for f in sorted(os.listdir(cdir)):
                try:
                    j = json.load(open(os.path.join(cdir, f)))
                    out.append(Case("c", j["mode"], j["profs"], [tuple(e) for e in j["events"]], j.get("drain", 30), j.get("timeout", 0),
                                    j.get("strict", False), j.get("suspend", 1)))
                except (OSError, ValueError, KeyError):
                    pass
        return out

    def explore(self, ctx, boost):
        failures = []
        stats = {k: 0 for k in ("cases", "rounds", "calls", "rounds_with_close_or_suspend_and_survivor", "rounds_with_suspend",
                                "rounds_with_new", "rounds_ending_in_process", "quiescent_reports", "oracle_violations", "diffs")}
        thorough = ctx.tier == "thorough"
        cases = self.corpus()
        ncorp = len(cases)
        directed, pairs = gen_directed()
        cases += directed
        exh_len = 5 if thorough else 4
        pairs_sel = [(a, b) for a in "GCS" for b in "GCS"] if not thorough else [(a, b) for a in "GCSM" for b in "GCSM"]
        pairs_ep = [("G", "C"), ("C", "G"), ("C", "C"), ("S", "C"), ("C", "S"), ("G", "k"), ("k", "C")] if not thorough else \
            [(a, b) for a in "GCSk" for b in "GCSk"]
        pipe_pairs = [("2", "C")] if not thorough else [("2", "C"), ("C", "2"), ("2", "S"), ("2", "2")]   # pipelined pair next to another connection
        pairs_sel = pairs_sel + pipe_pairs + ([("C", "2")] if not thorough else [])
        pairs_ep = pairs_ep + pipe_pairs
        exh = []
        for L in range(1, exh_len + 1):
            exh += list(gen_exhaustive("select", L, pairs_sel))
        nsel = len(exh)
        for L in range(1, exh_len + 1):
            exh += list(gen_exhaustive("epoll", L, pairs_ep))
        pairs_poll = [("G", "C"), ("C", "G"), ("S", "C"), ("C", "S"), ("S", "S")] if not thorough else [(a, b) for a in "GCSk" for b in "GCSk"]
        pairs_poll = pairs_poll + pipe_pairs
        npoll0 = len(exh)
        for L in range(1, exh_len + 1):      # the internal poll thread, driven in lock-step (it runs only when its poll() would return)
            exh += list(gen_exhaustive("poll", L, pairs_poll, strict=True))
        npoll = len(exh) - npoll0
        pairs_tpc = [("G", "C"), ("S", "C"), ("C", "S"), ("S", "S"), ("G", "S")] if not thorough else [(a, b) for a in "GCSk" for b in "GCSk"]
        pairs_tpc = pairs_tpc + pipe_pairs
        ntpc0 = len(exh)
        for L in range(1, exh_len + 1):      # thread-per-connection, every thread driven in lock-step through the gated poll()
            exh += list(gen_exhaustive("tpc", L, pairs_tpc, strict=True))
        ntpc = len(exh) - ntpc0
        pairs_tpcs = [("S", "C"), ("C", "S"), ("S", "S")] if not thorough else [(a, b) for a in "GCS" for b in "GCS"] + pipe_pairs
        for L in range(1, exh_len + 1):      # … and with the select() back-end (interposed, gated select())
            exh += list(gen_exhaustive("tpcs", L, pairs_tpcs, strict=True))
        ntpcs = len(exh) - ntpc0 - ntpc
        nstrict0 = len(exh)
        for L in range(1, exh_len):        # the same schedules with an application that calls the loop only when obliged to
            exh += list(gen_exhaustive("select", L, pairs_sel, strict=True))
            exh += list(gen_exhaustive("epoll", L, pairs_ep, strict=True))
            # … and without MHD_ALLOW_SUSPEND_RESUME, i.e. without the inter-thread channel that would wake the application
            nosusp = [(a, b) for a in "GC" for b in "GC"]
            exh += list(gen_exhaustive("select", L, nosusp, strict=True, suspend=0))
            exh += list(gen_exhaustive("epoll", L, nosusp, strict=True, suspend=0))
        nrand = (20000 if thorough else 1500) * (3 if boost else 1)
        rnd = [gen_random(ctx.rng, ctx.rng.choice(["select", "select", "select", "epoll", "epoll", "poll", "poll", "tpc", "tpcs"])) for _ in range(nrand)]
        allc = cases + exh + rnd
        self.run_parallel(allc, failures, stats)
        # the same client bytes must be answered (or not) independently of the polling back-end
        ndiffer = 0
        for a, b in pairs:
            fa, fb = getattr(a, "final_served", None), getattr(b, "final_served", None)
            if fa is None or fb is None or getattr(a, "orc_errs", None) or getattr(b, "orc_errs", None):
                continue
            if fa[0] != fb[0]:
                ndiffer += 1
                bad = a if not fa[0] else b
                failures.append(vlib.Failure("oracle", "loop: served-differs-between-backends (unserved in %s)" % bad.mode,
                                             "client 0 sent the same %d bytes (profile %s prefix) and nothing more; with the %s back-end it got a "
                                             "reply/close, with the %s back-end the daemon became quiescent without serving it | case %s"
                                             % (a.cut, a.profs[0], (b if bad is a else a).mode, bad.mode, bad.key()), bad.lines(), "loop"))
        stats["backend_pairs"] = len(pairs)
        stats["backend_pairs_differ"] = ndiffer
        # order failures: oracle first (concrete), shortest script first
        failures.sort(key=lambda f: (0 if f.kind == "oracle" else 1 if f.kind == "sanitizer" else 2, len(f.input)))
        modes = {}
        for c in allc:
            modes[c.mode] = modes.get(c.mode, 0) + 1
        profs = {}
        for c in allc:
            for p in c.profs:
                profs[p] = profs.get(p, 0) + 1
        cov = {"evaluations": len(allc), "distinct_nontrivial": len({c.key() for c in allc if len(c.events) >= 2}),
               "rule": "scripted histories run through the real daemon (harness h_loop) and, round by round, through the Lean loop model; "
                       "distinct = different (mode, profiles, schedule) with >= 2 events; bounded-exhaustive: every schedule of <= %d events over 2 "
                       "connections, per-connection actions {-,A,Q,X,U,H}, profile pairs select=%d epoll=%d; random: 1..3 connections, 14+ profiles"
                       % (exh_len, len(pairs_sel), len(pairs_ep)),
               "samples": [allc[ncorp].key() if len(allc) > ncorp else "", exh[len(exh) // 2].key(), rnd[0].key() if rnd else ""],
               "exhaustive_schedules_select": nsel, "exhaustive_schedules_epoll": npoll0 - nsel, "exhaustive_schedules_poll_thread": npoll,
               "exhaustive_schedules_thread_per_connection": ntpc, "exhaustive_schedules_thread_per_connection_select": ntpcs,
               "exhaustive_schedules_strict_application": len(exh) - nstrict0, "exhaustive_bound_events": exh_len,
               "random_histories": len(rnd), "corpus": ncorp, "directed": len(directed), "modes": modes, "profiles": profs, "outcomes": stats,
               "correspondence": {"call_handlers / internal_run_from_select / MHD_epoll / resume / new-connection processing / cleanup / "
                                  "internal_get_fdset2 / MHD_get_timeout64 (class)": "bounded-exhaustive (schedules <= %d events, 2 connections) + random %d" % (exh_len, len(rnd)),
                                  "MHD_poll_all (internal thread, gated poll(): one release = one cycle, the timeout argument is the hint)":
                                      "bounded-exhaustive (schedules <= %d events, 2 connections, %d profile pairs) + directed + random share" % (exh_len, len(pairs_poll)),
                                  "thread_main_handle_connection + the daemon thread of MHD_USE_THREAD_PER_CONNECTION|MHD_USE_POLL (every thread parks in the gated "
                                  "poll(); one release = one iteration of one thread; per iteration the model predicts the handler calls, the list the "
                                  "connection is in and the next blocking call: ITC or socket, events, timeout class zero/finite/infinite/250 ms; extra "
                                  "scheduling point right after the handler suspends: resume processed before the thread is back at the loop head)":
                                      "bounded-exhaustive (schedules <= %d events, 2 connections, %d profile pairs, actions {-,A,Q,Z,X,U}) + directed + random share; "
                                      "thread iterations %d, daemon-thread cycles %d, resumes before the loop head %d; next blocking call: socket/infinite %d, "
                                      "socket/zero %d, socket/deadline %d, ITC/250ms %d, thread left the loop %d"
                                      % (exh_len, len(pairs_tpc), stats.get("tpc_thread_steps", 0), stats.get("tpc_daemon_cycles", 0),
                                         stats.get("tpc_resume_before_loop_head", 0), stats.get("tpc_block_sock_inf", 0), stats.get("tpc_block_sock_0", 0),
                                         stats.get("tpc_block_sock_some", 0), stats.get("tpc_block_itc", 0), stats.get("tpc_block_exit", 0)),
                                  "thread-per-connection with select() (MHD_select as the daemon thread's cycle, the select() branch of "
                                  "thread_main_handle_connection; interposed gated select(), same predictions incl. the bounded 1 s wait for writability)":
                                      "bounded-exhaustive (schedules <= %d events, 2 connections, %d profile pairs) + directed + random share; thread iterations %d"
                                      % (exh_len, len(pairs_tpcs), stats.get("tpc_select_thread_steps", 0))},
               "exhaustive": False}
        return failures, cov


def replay(ctx, path):
    r = json.load(open(path))
    sp = Spec(); sp.gen(ctx); vlib.lake_build(["drv_loop"]); sp.build(ctx)
    lines = r["input"]
    # rebuild the Case from the recorded key
    det = r.get("detail", "")
    m = re.search(r"case (\w+)\|(\w+)\|([^|]*)\|(\d+)(s?)(n?)(?:c(\d+))?(?:p(\d+))?", det)
    if not m:
        print("replay: cannot find the case key in the replay file"); return 2
    n = len(m.group(2))
    evs = [tuple(e) for e in m.group(3).split(" ") if e]
    cs = Case("replay", m.group(1), list(m.group(2)), evs, drain=100, timeout=int(m.group(4)), strict=bool(m.group(5)),
              suspend=0 if m.group(6) else 1, cut=int(m.group(7)) if m.group(7) else None, split=int(m.group(8)) if m.group(8) else None)
    fl, st = [], {k: 0 for k in ("cases", "rounds", "calls", "rounds_with_close_or_suspend_and_survivor", "rounds_with_suspend",
                                 "rounds_with_new", "rounds_ending_in_process", "quiescent_reports", "oracle_violations", "diffs")}
    sp.run_batch([cs], fl, st)
    print("script:"); print("\n".join(cs.lines()))
    print("harness/driver/oracle verdicts:")
    for f in fl:
        print(" ", f.kind, "|", f.signature, "|", f.detail[:400])
    if not fl:
        print("  all three agree: no violation")
    return 1 if fl else 0
