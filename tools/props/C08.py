"""C08 — connection arena (memorypool.c).  Engine `pool`."""
import itertools, os, json
import vlib, extract

W = 1 << 64
EXH_ALPHA = 0


def pattern(seed, n):
    return [(seed * 31 + j * 7 + 1) % 256 for j in range(n)]


# the pool's second build variant: red zones + user poisoning (the flags C01 uses for its second daemon build)
POISON = ["-DMHD_ASAN_POISON_ACTIVE=1", "-DHAVE_SANITIZER_ASAN_INTERFACE_H=1", "-DFUNC_ATTR_NOSANITIZE_WORKS=1",
          "-DHAVE___ASAN_REGION_IS_POISONED=1", "-DHAVE___ASAN_ADDRESS_IS_POISONED=1"]
POISON_PROBE = ["-DMHD_ASAN_POISON_ACTIVE=1", "-DMHD_ASAN_ACTIVE=1", "-DHAVE_SANITIZER_ASAN_INTERFACE_H=1", "-DFUNC_ATTR_NOSANITIZE_WORKS=1"]


def gen_values():
    """(red zone of the poison build, sizeWrapByCompare) as regenerated into Gen/Pool.lean"""
    import re
    t = open(os.path.join(extract.GEN, "Pool.lean")).read()
    rz = int(re.search(r"def redZoneAsan : Nat := (\d+)", t).group(1))
    chk = re.search(r"def sizeWrapByCompare : Bool := (\w+)", t).group(1) == "true"
    return rz, chk


def gen_pool():
    from extract import c_eval, src, prev_value, HEADER, GEN
    import re
    v = c_eval('#include "MHD_config.h"\n#include "memorypool.c"\n',
               [("align", "%zu", "(size_t) ALIGN_SIZE"), ("rz", "%zu", "(size_t) _MHD_RED_ZONE_SIZE"),
                ("maxalign", "%zu", "(size_t) _Alignof (max_align_t)"),
                ("szt", "%zu", "sizeof(size_t)"),
                ("page", "%zu", "(MHD_init_mem_pools_ (), MHD_sys_page_size_)")])
    # second build variant (MHD_ASAN_POISON_ACTIVE): its red-zone size, and a behaviour probe of the "size too
    # close to SIZE_MAX" test (64-byte pool: are allocate / try_alloc / reallocate of SIZE_MAX refused?).  Compiled
    # without the sanitizer: the ASAN_*_MEMORY_REGION macros of <sanitizer/asan_interface.h> are no-ops then.
    pz = c_eval('#include "MHD_config.h"\n#include "memorypool.c"\nstatic size_t nd;\n',
                [("rz", "%zu", "(size_t) _MHD_RED_ZONE_SIZE"),
                 ("a", "%d", "(MHD_init_mem_pools_ (), NULL == MHD_pool_allocate (MHD_pool_create (64), (size_t) -1, false))"),
                 ("t", "%d", "(NULL == MHD_pool_try_alloc (MHD_pool_create (64), (size_t) -1, &nd))"),
                 ("r", "%d", "(NULL == MHD_pool_reallocate (MHD_pool_create (64), NULL, 0, (size_t) -1))")],
                extra=POISON_PROBE)
    chk = "true" if (pz["a"], pz["t"], pz["r"]) == ("1", "1", "1") else "false"
    m = re.search(r"max\s*<=\s*(\d+)\s*\*\s*1024", src("src/microhttpd/memorypool.c"))
    thr = str(int(m.group(1)) * 1024) if m else prev_value("Pool.lean", "mmapThreshold", "32768")
    out = HEADER % "src/microhttpd/memorypool.c" + "namespace Mhd.Gen.Pool\n" \
        + "def alignSize : Nat := %s\n" % v["align"] \
        + "/-- `_Alignof (max_align_t)` of the configured build -/\n" \
        + "def maxAlign : Nat := %s\n" % v["maxalign"] \
        + "def redZone : Nat := %s\n" % v["rz"] \
        + "/-- `_MHD_RED_ZONE_SIZE` of the MHD_ASAN_POISON_ACTIVE build -/\n" \
        + "def redZoneAsan : Nat := %s\n" % pz["rz"] \
        + "/-- behaviour probe (red-zone build, 64-byte pool): allocate / try_alloc / reallocate refuse a size of SIZE_MAX,\n" \
        + "    i.e. the wrap test on the rounded size is sound also with the red zone added (`asize < size`) -/\n" \
        + "def sizeWrapByCompare : Bool := %s\n" % chk \
        + "def sizeofSizeT : Nat := %s\n" % v["szt"] \
        + "def pageSize : Nat := %s\n" % v["page"] \
        + "def mmapThreshold : Nat := %s\n" % thr \
        + "end Mhd.Gen.Pool\n"
    return vlib.write_if_changed(os.path.join(GEN, "Pool.lean"), out)


def gen_replybounds():
    """behaviour probe of add_user_headers(): an application-set `Connection:` header into which MHD merges its token —
    for every buffer size in which the plain line fits but the line with the token does not, the call must refuse
    and must not have stored a byte at an index >= buf_size (canary behind the buffer)"""
    from extract import c_eval, HEADER, GEN
    probe = r"""
static int probe_merge (int keep_alive)
{
  static char name[] = "Connection", val[] = "xxxxxxxx";
  size_t plain = 10 + 2 + 8 + 2, tok = keep_alive ? 12 : 7, bs;
  for (bs = plain; bs < plain + tok; bs++)
  {
    struct MHD_Response r; struct MHD_HTTP_Res_Header h; char buf[96]; size_t pos = 0, i; bool ok;
    memset (&r, 0, sizeof(r)); memset (&h, 0, sizeof(h)); memset (buf, 0x5a, sizeof(buf));
    h.header = name; h.header_size = 10; h.value = val; h.value_size = 8; h.kind = MHD_HEADER_KIND;
    r.first_header = &h; r.last_header = &h; r.flags_auto = MHD_RAF_HAS_CONNECTION_HDR;
    ok = add_user_headers (buf, &pos, bs, &r, false, false, ! keep_alive, 0 != keep_alive);
    if (ok) return 0;
    for (i = bs; i < sizeof(buf); i++) if (0x5a != buf[i]) return 0;
  }
  return 1;
}
"""
    v = c_eval('#include "MHD_config.h"\n#include "connection.c"\n#include "mhd_str.c"\n' + probe,
               [("close", "%d", "probe_merge (0)"), ("ka", "%d", "probe_merge (1)")],
               extra=["-O1", "-ffunction-sections", "-fdata-sections", "-Wl,--gc-sections"])
    flag = "true" if (v["close"], v["ka"]) == ("1", "1") else "false"
    out = HEADER % "src/microhttpd/connection.c" + "namespace Mhd.Gen.ReplyBounds\n" \
        + "/-- behaviour probe of `add_user_headers` (application-set `Connection: xxxxxxxx`, token `close, ` resp.\n" \
        + "    `Keep-Alive, ` merged in, every buffer size in which only the plain line fits): the call refuses and stores\n" \
        + "    nothing at an index >= buf_size, i.e. the check in front of the token covers the rest of the line -/\n" \
        + "def mergeTokenRechecksLine : Bool := %s\n" % flag \
        + "end Mhd.Gen.ReplyBounds\n"
    return vlib.write_if_changed(os.path.join(GEN, "ReplyBounds.lean"), out)


class Oracle:
    """Independent statement of C08 over what the real code returned:
    blocks in bounds, aligned, pairwise disjoint; contents preserved; refusal
    leaves the arena unchanged.  Knows nothing about the model."""

    def __init__(self, rz=0):
        self.rz = rz        # red zone of the build under test (0: ordinary build)
        self.size = None
        self.live = []      # [off, len, front, expected(list of int|None)]
        self.pos = self.end = None

    def _st(self, words):
        d = dict(w.split("=") for w in words if "=" in w)
        self.adr = d.get("adr")
        return int(d["pos"]), int(d["end"])

    def _check_poison(self):
        """red-zone build: exactly the bytes of the handed-out blocks are addressable, everything else in the
        arena is poisoned — and every block is followed by a red zone that belongs to nobody"""
        if self.adr is None:
            return None
        iv = sorted((b[0], b[0] + b[1]) for b in self.live if b[1])
        for (a0, a1), (b0, b1) in zip(iv, iv[1:]):
            if b0 < -(-a1 // 16) * 16 + self.rz:
                return "no red zone between blocks [%d,%d) and [%d,%d)" % (a0, a1, b0, b1)
        if iv and -(-iv[-1][1] // 16) * 16 > self.size:
            return "last block without room for its rounding"
        got = [] if self.adr == "-" else [tuple(int(x) for x in r.split("-")) for r in self.adr.split(",")]
        if got != iv:
            return "addressable ranges %s differ from the live blocks %s" % (self.adr, ",".join("%d-%d" % x for x in iv) or "-")
        return None

    def _check_new(self, off, ln, skip=None):
        if off % 16 != 0:
            return "block at %d not aligned" % off
        if off + ln > self.size:
            return "block [%d,+%d) outside arena of %d" % (off, ln, self.size)
        for j, b in enumerate(self.live):
            if j == skip or b[1] == 0 or ln == 0:
                continue
            if not (off + ln <= b[0] or b[0] + b[1] <= off):
                return "block [%d,+%d) overlaps live block [%d,+%d)" % (off, ln, b[0], b[1])
        return None

    def feed(self, op, out):
        """op: script words, out: harness output line. returns error string or None"""
        w = out.split()
        if not w:
            return "no output"
        if w[0] == "bad-op":
            return None
        if w[0] == "fault":
            return "harness: " + out
        k = op[0]
        if k == "create":
            d = dict(x.split("=") for x in w[1:])
            self.size = int(d["size"]); self.pos = 0; self.end = self.size; self.live = []
            if self.size < int(op[1]) or self.size % 16:
                return "arena smaller than requested or unaligned"
            return None
        if k in ("alloc", "try", "realloc", "reset"):
            if w[0] == "null":
                pos, end = self._st(w[1:])
                if (pos, end) != (self.pos, self.end):
                    return "refused request changed the arena: pos/end %d/%d -> %d/%d" % (self.pos, self.end, pos, end)
                return None
            off, ln = int(w[1]), int(w[2])
            pos, end = self._st(w[3:])
            err = None
            if k == "alloc":
                n = int(op[1])
                err = self._check_new(off, ln)
                if ln != n:
                    err = err or "length mismatch"
                self.live.append([off, ln, op[2] == "0", [None] * min(ln, 1 << 20)])
            elif k == "try":
                err = self._check_new(off, ln)
                self.live.append([off, ln, False, [None] * min(ln, 1 << 20)])
            elif k == "realloc":
                if op[1] == "-":
                    err = self._check_new(off, ln)
                    self.live.append([off, ln, True, [None] * min(ln, 1 << 20)])
                else:
                    i = int(op[1])
                    old = self.live[i]
                    err = self._check_new(off, ln, skip=i)
                    keep = min(old[1], ln)
                    exp = old[3][:keep] + [None] * (min(ln, 1 << 20) - keep)
                    del self.live[i]
                    self.live.append([off, ln, True, exp])
            elif k == "reset":
                if off != 0:
                    err = "reset did not return the arena start"
                if ln > self.size:
                    err = "reset block outside arena"
                if op[1] == "-":
                    exp = [None] * ln
                else:
                    old = self.live[int(op[1])]
                    c = int(op[2])
                    exp = old[3][:c] + [None] * (ln - c)
                self.live = [[0, ln, True, exp]]
            self.pos, self.end = pos, end
            if not (pos <= end <= self.size):
                err = err or "cursor out of order: pos=%d end=%d size=%d" % (pos, end, self.size)
            return err or self._check_poison()
        if k == "dealloc":
            del self.live[int(op[1])]
            self.pos, self.end = self._st(w[1:])
            if not (self.pos <= self.end <= self.size):
                return "cursor out of order after dealloc"
            for b in self.live:   # nothing live may lie in the free gap
                if b[1] and b[0] < self.end and b[0] + b[1] > self.pos:
                    return "dealloc returned live block [%d,+%d) to the pool" % (b[0], b[1])
            return self._check_poison()
        if k == "fill":
            b = self.live[int(op[1])]
            b[3] = pattern(int(op[2]), b[1])
            return None
        if k == "read":
            b = self.live[int(op[1])]
            data = [] if w[1] == "-" else list(bytes.fromhex(w[1]))
            if len(data) != b[1]:
                return "read length mismatch"
            for j, e in enumerate(b[3]):
                if e is not None and data[j] != e:
                    return "contents of block [%d,+%d) changed at byte %d" % (b[0], b[1], j)
            return None
        if k == "free?":
            if int(w[0].split("=")[1]) != max(self.end - self.pos - self.rz, 0):
                return "free-space query inconsistent"
            return None
        return None


def sizes_for(size):
    return [0, 1, 15, 16, 17, 32, 33, max(size - 16, 0), size, size + 1, 1 << 63, W - 16, W - 1, W - 16 + 40, W - 40]


def gen_random_seq(rng, big=False):
    size = rng.choice([64, 128, 256, 1024] + ([4096, 32768, 32769, 50000, 70000] if big else []))
    ops = [["create", str(size)]]
    n = rng.randint(3, 14)
    for _ in range(n):
        r = rng.random()
        sz = rng.choice(sizes_for(size)) if rng.random() < 0.25 else rng.randint(0, max(size // 3, 40))
        idx = str(rng.choice([0, 0, 0, 1, 1, 2]))
        if r < 0.22:
            ops.append(["alloc", str(sz), str(rng.randint(0, 1))])
        elif r < 0.30:
            ops.append(["try", str(sz)])
        elif r < 0.52:
            ops.append(["realloc", rng.choice([idx, idx, idx, "-"]), str(sz)])
        elif r < 0.64:
            ops.append(["dealloc", idx])
        elif r < 0.70:
            ops.append(["reset", rng.choice([idx, "-"]), str(rng.randint(0, 20)), str(rng.randint(0, size))])
        elif r < 0.85:
            ops.append(["fill", idx, str(rng.randint(0, 255))])
        else:
            ops.append(["read", idx])
        if rng.random() < 0.3:
            ops.append(["read", str(rng.randint(0, 3))])
        if rng.random() < 0.1:
            ops.append(["free?"])
    for i in range(4):
        ops.append(["read", str(i)])
    return ops


def gen_exhaustive(length, size=64):
    """all op sequences of `length` over a small alphabet on a `size`-byte arena, each
    followed by fill/read probes"""
    S = [0, 1, 16, 17, size - 16, size, size + 1, W - 16 + 40, W - 1]
    alpha = []
    for s in S:
        alpha.append(["alloc", str(s), "0"])
        alpha.append(["realloc", "0", str(s)])
    for s in [1, 16, size]:
        alpha.append(["alloc", str(s), "1"])
        alpha.append(["try", str(s)])
        alpha.append(["realloc", "1", str(s)])
    alpha += [["dealloc", "0"], ["dealloc", "1"], ["reset", "0", "1", "20"], ["realloc", "-", "8"]]
    global EXH_ALPHA
    EXH_ALPHA = len(alpha)
    for combo in itertools.product(alpha, repeat=length):
        ops = [["create", str(size)]]
        for j, o in enumerate(combo):
            ops.append(o)
            ops.append(["fill", "0", str(j + 1)])
        ops += [["read", "0"], ["read", "1"], ["read", "2"], ["free?"]]
        yield ops


def gen_oversize_cases(rng):
    """daemon level: requests that cannot fit the configured arena must be refused with
    413/414/431 or a close — never processed, never overflowing"""
    import dlog
    cases = []
    k = 0
    for mem in (256, 512, 1024, 2048, 4096, 8192):
        for shape in ("url", "hdrval", "hdrs", "method", "hdrname"):
            for extra in (1, 17, mem // 2, mem, 3 * mem):
                n = mem + extra
                if shape == "url":
                    req = b"GET /" + b"u" * n + b" HTTP/1.1\r\nHost: h\r\n\r\n"
                elif shape == "hdrval":
                    req = b"GET / HTTP/1.1\r\nHost: h\r\nX-Big: " + b"v" * n + b"\r\n\r\n"
                elif shape == "hdrname":
                    req = b"GET / HTTP/1.1\r\nHost: h\r\nX" + b"n" * n + b": v\r\n\r\n"
                elif shape == "method":
                    req = b"M" * n + b" / HTTP/1.1\r\nHost: h\r\n\r\n"
                else:
                    req = b"GET / HTTP/1.1\r\nHost: h\r\n" + b"".join(b"X-%d: %s\r\n" % (i, b"v" * 40) for i in range(n // 48 + 2)) + b"\r\n"
                how = rng.choice(["whole", "halves", "k"])
                if how == "whole":
                    pieces = [req]
                elif how == "halves":
                    pieces = [req[:len(req) // 2], req[len(req) // 2:]]
                else:
                    step = rng.choice([100, 333, 1000])
                    pieces = [req[i:i + step] for i in range(0, len(req), step)]
                L = ["case ov%d" % k, "cfg mode=%s mem=%d" % (rng.choice(["select", "epoll"]), mem), "start", "arrive 0 1", "arrive 1 2",
                     "send 1 " + dlog.hx(b"GET /ok HTTP/1.1\r\nHost: h\r\n\r\n"), "round"]
                for pc in pieces:
                    L += ["send 0 " + dlog.hx(pc), "round"]
                L += ["rounds 400", "stop"]
                cases.append((L, {"mem": mem, "shape": shape, "len": len(req)}))
                k += 1
    return cases


def judge_oversize(meta, out, err):
    import dlog
    if err:
        return "sanitizer", "daemon aborted on an oversized request: " + err[:200]
    conns, _ = dlog.view(out)
    v0, v1 = conns.get(0), conns.get(1)
    if v0 is None:
        return "oracle", "no trace of the connection"
    if v0.handler:
        return "oracle", "a request larger than the arena (%d > %d) reached the handler" % (meta["len"], meta["mem"])
    try:
        rs = dlog.parse_responses(v0.wire, at_eof=v0.eof or v0.rst)
    except dlog.RespError as ex:
        return "oracle", "malformed refusal: %s" % ex
    for r in rs:
        if r.get("complete") and r["status"] not in (413, 414, 431, 400, 501):
            return "oracle", "oversized request answered %d" % r["status"]
    if not rs and not (v0.eof or v0.rst):
        return "oracle", "oversized request neither refused nor closed"
    if meta["mem"] >= 512:
        try:
            r1 = dlog.parse_responses(v1.wire) if v1 else []
        except dlog.RespError as ex:
            return "oracle", "bystander reply malformed: %s" % ex
        if not (len(r1) == 1 and r1[0]["complete"] and r1[0]["status"] == 200):
            return "oracle", "bystander connection not served while an oversized request was refused"
    return None, None


# ---------------------------------------------------------------------------------------------------------------
# "refused rather than overflowing" for the REPLY head: build_header_response / add_user_headers / the chunked
# footer builder write into the write buffer — the last front block of the arena, directly followed (after its
# red zone in the pool-poisoning build) by the blocks allocated from the arena's end (the request's element list).
# Size sweeps: one length is moved byte by byte across the boundary between "the reply head fits" and "it is
# refused" — found by probing — so that every append of the builder is once the one that crosses the end of the
# buffer; under the pool-poisoning build any write outside the write-buffer block aborts.

PHRASE_CODES = [200, 410, 302, 423, 201, 202, 303, 204, 400, 401, 205, 406, 411, 300, 203]   # reason phrases of 2 … 29 bytes

CLIENTS = {  # how the client asks: request line version + Connection header -> what MHD adds to the reply
    "1.1-keep": (b"1.1", b""), "1.1-close": (b"1.1", b"Connection: close\r\n"),
    "1.0": (b"1.0", b""), "1.0-keepalive": (b"1.0", b"Connection: Keep-Alive\r\n"),
}


def reply_case(name, mem, client, url_len, code, kind, hdrs, size=5, mode="select"):
    """one daemon case: request `GET /<url_len x u>` from `client`, answered with response 2 = `kind`/`code`/`hdrs`
    (list of ('h'|'f', name, value)); connection 1 is the bystander"""
    import importlib
    from dlog import hx
    C01 = importlib.import_module("props.C01")
    ver, conn = CLIENTS[client]
    req = b"GET /" + b"u" * url_len + b" HTTP/" + ver + b"\r\nHost: h\r\n" + conn + b"\r\n"
    r2 = "resp 2 kind=%s code=%d size=%d" % (kind, code, size) + "".join(" %s=%s:%s" % (k, hx(n), hx(v)) for k, n, v in hdrs)
    if kind.startswith("cb"):
        r2 += " cbmax=0 cbnr=0"
    return C01.make_case(name, mem, 0, mode, req, [req], "l=r2", None, r2)


def reply_families():
    """(family, builder(L) -> (client, url_len, code, kind, hdrs)) — L is the swept length"""
    fams = []
    for cl in CLIENTS:
        fams.append(("user-value/" + cl, lambda L, cl=cl: (cl, 1, 200, "copy", [("h", b"X-A", b"v" * L)])))
        # the application's own Connection header: MHD merges "close, " / "Keep-Alive, " into it when it has to
        fams.append(("conn-merge/" + cl, lambda L, cl=cl: (cl, 1, 200, "copy", [("h", b"Connection", b"x" * max(L, 1))])))
        fams.append(("conn-merge+later/" + cl, lambda L, cl=cl: (cl, 1, 200, "copy", [("h", b"Connection", b"x" * max(L, 1)), ("h", b"X-B", b"bb")])))
        fams.append(("url-early/" + cl, lambda L, cl=cl: (cl, L, 200, "copy", [])))
    fams.append(("conn-has-close/1.1-keep", lambda L: ("1.1-keep", 1, 200, "copy", [("h", b"Connection", b"close, " + b"x" * max(L, 1))])))
    fams.append(("user-name/1.1-keep", lambda L: ("1.1-keep", 1, 200, "copy", [("h", b"X" * max(L, 1), b"v")])))
    fams.append(("two-hdrs/1.1-close", lambda L: ("1.1-close", 1, 200, "copy", [("h", b"X-A", b"v" * L), ("h", b"X-B", b"w" * 9)])))
    fams.append(("chunked-te/1.1-keep", lambda L: ("1.1-keep", 1, 200, "cb-unknown", [("h", b"X-A", b"v" * L)])))
    fams.append(("chunked-footer/1.1-keep", lambda L: ("1.1-keep", 1, 200, "cb-unknown", [("f", b"X-F", b"t" * L)])))
    fams.append(("chunked-footer2/1.1-keep", lambda L: ("1.1-keep", 1, 200, "cb-unknown", [("f", b"X-F", b"t" * L), ("f", b"X-G", b"gg")])))
    fams.append(("known-size/1.0", lambda L: ("1.0", 1, 200, "cb-known", [("h", b"X-A", b"v" * L)])))
    for code in PHRASE_CODES:
        fams.append(("phrase-%d/1.1-close" % code, lambda L, code=code: ("1.1-close", L, code, "copy", [])))
    return fams


def reply_outcome(out_lines):
    """'reply' (a complete reply reached client 0), 'refused' (closed without / with an error reply), 'other'"""
    import dlog
    conns, _ = dlog.view(out_lines)
    v0 = conns.get(0)
    if v0 is None:
        return "other"
    try:
        rs = dlog.parse_responses(v0.wire, at_eof=v0.eof or v0.rst)
    except dlog.RespError:
        return "other"
    if rs and rs[0].get("complete") and rs[0]["status"] < 500:
        return "reply"
    return "refused"


def explore_reply_head(ctx, h_plain, h_poison, failures, boost=False):
    import importlib
    C01 = importlib.import_module("props.C01")
    rng = ctx.rng
    quick = ctx.tier == "quick"
    mems = [256, 320, 512] if quick else [192, 256, 320, 400, 512, 768, 1024]
    fams = reply_families()
    if quick:   # every Connection-merge and early family, a sample of the rest
        keep = [x for x in fams if x[0].startswith(("conn-merge", "url-early/1.1-close", "chunked-footer/"))]
        rest = [x for x in fams if x not in keep]
        fams = keep + rng.sample(rest, 8 * (3 if boost else 1) if len(rest) > 8 * (3 if boost else 1) else len(rest))
    stats = {"probe_cases": 0, "sweep_cases": 0, "boundaries": 0, "no_boundary": 0, "replies": 0, "refused": 0, "by_family": {}}
    for hname, h in (("pool-poisoning build", h_poison), ("plain build", h_plain)):
        # phase 1: probe the fit/refuse boundary on this build (coarse steps; the red zones move it)
        probes = []
        for mem in mems:
            for fam, mk in fams:
                for L in range(0, mem + 17, 12):
                    probes.append((reply_case("rp", mem, *mk(L)), {"mem": mem, "fam": fam, "L": L}))
        res = C01.run_cases(h, probes)
        stats["probe_cases"] += len(probes)
        table = {}
        for i, (lines, meta) in enumerate(probes):
            out, err = res.get(i, ([], "not run"))
            if err:
                kind, det = C01.judge(lines, meta, out, err)
                import re as _re
                sig = "reply-head: " + meta["fam"].split("/")[0] + ": " + _re.sub(r"0x[0-9a-f]+|\d+", "N", det or "")[:90]
                if sum(1 for x in failures if x.signature == sig) < 2:
                    failures.append(vlib.Failure(kind or "sanitizer", sig, "[%s] %s | %s" % (hname, det, json.dumps(meta)), lines, "conn"))
                continue
            table.setdefault((meta["mem"], meta["fam"]), []).append((meta["L"], reply_outcome(out)))
        # phase 2: byte-wise sweep around every transition
        sweeps = []
        for (mem, fam), pts in sorted(table.items()):
            mk = dict(fams)[fam]
            pts.sort()
            trans = [(a[0], b[0]) for a, b in zip(pts, pts[1:]) if a[1] != b[1]]
            if not trans:
                stats["no_boundary"] += 1
                continue
            stats["boundaries"] += len(trans)
            for lo, hi in trans[:2]:
                for L in range(max(lo - 16, 0), hi + 17):
                    sweeps.append((reply_case("rs", mem, *mk(L)), {"mem": mem, "fam": fam, "L": L}))
        stats["sweep_cases"] += len(sweeps)
        res = C01.run_cases(h, sweeps)
        for i, (lines, meta) in enumerate(sweeps):
            out, err = res.get(i, ([], "not run"))
            kind, det = C01.judge(lines, meta, out, err)
            if kind:
                import re as _re
                sig = "reply-head: " + meta["fam"].split("/")[0] + ": " + _re.sub(r"0x[0-9a-f]+|\d+", "N", det)[:90]
                if sum(1 for x in failures if x.signature == sig) < 2:
                    failures.append(vlib.Failure(kind, sig, "[%s] %s | %s" % (hname, det, json.dumps(meta)), lines, "conn"))
                continue
            if h is h_poison:
                o = reply_outcome(out)
                stats["replies" if o == "reply" else "refused"] += 1
                d = stats["by_family"].setdefault(meta["fam"], {"reply": 0, "refused": 0, "other": 0})
                d[o] += 1
    return stats


def gen_refusal_cases(ctx, n_random):
    """composed engine (crinit/crfeed): requests that do not fit the arena, by stage and by what fills the buffer —
    request line (standard / non-standard / no method end), one huge field line (also `Host:`), many small field
    lines (the element allocation fails), target vs. field lines of comparable size, long non-standard method,
    chunk-size line with / without extension, footers — on pools of 64 B … 8 KiB, whole / split / byte-wise"""
    import importlib
    C01 = importlib.import_module("props.C01")
    rd = importlib.import_module("props._c01read")
    rng = ctx.rng
    cases = []

    def add(ps, data, fam, lvl=None, pat=None):
        how = rng.choice(["whole", "rand", "rand"] + (["bytes"] if len(data) <= 160 else []))
        pieces = C01.splits_of(data, how, rng)
        cases.append((rd.mk_case(ps, rng.choice([0, 16, 64, 256, 1500, 8, 1, 7]), rng.randint(-3, 3) if lvl is None else lvl, pieces, pat),
                      {"fam": fam, "how": how, "ps": ps}))

    for ps in (64, 128, 256, 512, 1024, 2048, 4096, 8192):
        for rep in range(2 if ctx.tier == "quick" else 6):
            big = ps + rng.choice([1, 17, ps // 2, ps])
            half = max(ps // 2 + rng.choice([-3, -1, 0, 1, 5]), 8)
            host = rng.choice([b"", b"Host: h\r\n", b"Host: " + b"h" * rng.choice([1, 30, 100]) + b"\r\n", b"hOsT:x\r\n"])
            add(ps, b"GET /" + b"u" * big + b" HTTP/1.1\r\n" + host + b"\r\n", "line:std-target")
            add(ps, rng.choice([b"BREW", b"M" * 20, b"get"]) + b" /" + b"u" * big + b" HTTP/1.1\r\n\r\n", "line:nonstd-target")
            add(ps, b"G" * big, "line:no-method-end")
            add(ps, b"GET /" + b"u" * (half // 3) + b" " + b"H" * big, "line:version")
            add(ps, b"GET / HTTP/1.1\r\n" + host + b"X-Big: " + b"v" * big + b"\r\n\r\n", "hdr:one-huge")
            add(ps, b"GET / HTTP/1.1\r\nHost: " + b"h" * big + b"\r\n\r\n", "hdr:huge-host-first")
            add(ps, b"GET / HTTP/1.1\r\nA: b\r\nHost:" + b"h" * big + b"\r\n\r\n", "hdr:huge-host-later")
            add(ps, b"GET / HTTP/1.1\r\n" + host + b"".join(b"X%d: %s\r\n" % (i, b"v" * rng.choice([0, 1, 8])) for i in range(ps // 6 + 4)) + b"\r\n", "hdr:many-small")
            add(ps, b"GET /?" + b"&".join(b"a%d=1" % i for i in range(ps // 8 + 4)) + b" HTTP/1.1\r\n\r\n", "line:many-args")
            # lines the lenient levels skip (no colon / first line starting with whitespace), then field lines until the pool is full
            junk = rng.choice([b"no colon here " + b"j" * rng.choice([1, 30, half // 3]), b" leading-space: " + b"w" * rng.choice([1, 40])])
            add(ps, b"GET / HTTP/1.1\r\n" + junk + b"\r\n" + host + b"".join(b"X%d: %s\r\n" % (i, b"v" * rng.choice([0, 1, 8])) for i in range(ps // 6 + 4)) + b"\r\n",
                "hdr:skipped-line", lvl=rng.choice([-3, -2, -1]))
            add(ps, b"GET / HTTP/1.1\r\nHost: h\r\nA: b\r\n" + junk.strip() + b"\r\nX-Big: " + b"v" * big + b"\r\n\r\n", "hdr:skipped-line+huge", lvl=rng.choice([-3, -2]))
            u = rng.choice([half // 4, half // 2, half, 41, 300])
            add(ps, b"GET /" + b"u" * u + b" HTTP/1.1\r\n" + host + b"X: " + b"v" * (ps - u + rng.choice([-40, 0, 40, ps])) + b"\r\n\r\n", "hdr:target-vs-fields")
            add(ps, b"M" * rng.choice([17, 40, half // 2]) + b" /" + b"u" * rng.choice([1, 30, half // 4]) + b" HTTP/1.1\r\n" + host +
                b"X: " + b"v" * big + b"\r\n\r\n", "hdr:long-method")
            pre = b"POST /u HTTP/1.1\r\nHost: h\r\nTransfer-Encoding: chunked\r\n\r\n"
            add(ps, pre + b"0" * big + b"1\r\nx\r\n0\r\n\r\n", "body:chunk-line", pat=rng.choice([None, [1], [0, 5]]))
            add(ps, pre + b"1;" + b"e" * big + b"\r\nx\r\n0\r\n\r\n", "body:chunk-ext", pat=rng.choice([None, [1], [0, 5]]))
            add(ps, pre + b"3\r\nabc\r\n0\r\nT: " + b"t" * big + b"\r\n\r\n", "foot:one-huge")
            add(ps, pre + b"0\r\n" + b"".join(b"T%d: v\r\n" % i for i in range(ps // 6 + 4)) + b"\r\n", "foot:many-small")
            if ps <= 512:   # (the model moves the window once per byte taken: keep the byte-wise bodies small)
                add(ps, b"POST /u HTTP/1.1\r\nHost: h\r\nContent-Length: %d\r\n\r\n" % (2 * ps) + b"d" * (2 * ps), "body:identity", pat=rng.choice([[0], [0, 0, 1], [1]]))
    # C01's own families (bodies, pipelines, mutations): mostly requests that fit — the refusal must then not appear
    more = [(c, dict(m, fam="c01:" + m["fam"], ps=0)) for c, m in rd.gen_cases(ctx, n_random) if sum(len(l) for l in c) < 40000]
    if ctx.tier == "quick" and len(more) > 160:
        more = rng.sample(more, 160)
    return cases + more


def run_refusal(h_mem, driver, cases, failures):
    """real get_request_line / get_req_headers / process_request_body / check_and_grow (+ the real
    transmit_error_response: the status really put into the reply) vs `Mhd.ArenaBound.runT`: state class after every
    chunk, and the refusal status when the request does not fit"""
    import re
    stats = {"chunks": 0}
    kvs = lambda ln: dict(w.split("=", 1) for w in ln.split() if "=" in w)
    for i in range(0, len(cases), 300):
        batch = cases[i:i + 300]
        lines = [l for c, _ in batch for l in c]
        hout, hrc, herr = vlib.run_lines(h_mem, lines)
        mout, mrc, merr = vlib.run_lines(driver, lines)
        if hrc != 0:
            pos, k = len(hout), 0
            for c, meta in batch:
                if k + len(c) > pos:
                    failures.append(vlib.Failure("sanitizer", "refusal: harness aborted (rc=%d)" % hrc, herr[-1500:], c, "mem"))
                    break
                k += len(c)
            continue
        k = 0
        for c, meta in batch:
            last = None
            for j, l in enumerate(c):
                h = kvs(hout[k + j]) if k + j < len(hout) else {}
                m = kvs(mout[k + j]) if k + j < len(mout) else {}
                if l.startswith("crfill"):
                    continue
                stats["chunks"] += 1
                bad = None
                if m.get("ph") in ("fault", "refused", None) or m.get("code") == "ns?":
                    failures.append(vlib.Failure("model", "refusal: model " + str(m.get("ph")) + " " + str(m.get("code")), mout[k + j][:200] if k + j < len(mout) else "", c[:j + 1], "mem"))
                    break
                if h.get("ph") != m.get("ph"):
                    bad = "state class: code %s model %s" % (h.get("ph"), m.get("ph"))
                elif h.get("ph") != "err" and any(h.get(k) != m.get(k) for k in ("rb", "rbs", "rbo", "pos", "end")):
                    # the windows and the pool cursors (offsets relative to the arena base)
                    bad = "buffer geometry: code %s model %s" % (" ".join("%s=%s" % (k, h.get(k)) for k in ("rb", "rbs", "rbo", "pos", "end")),
                                                                  " ".join("%s=%s" % (k, m.get(k)) for k in ("rb", "rbs", "rbo", "pos", "end")))
                elif h.get("ph") == "err":
                    hc, mc, why = h.get("code"), m.get("code"), m.get("why")
                    if why == "nospace" and hc not in ("413", "414", "431", "501", "0"):
                        failures.append(vlib.Failure("oracle", "refusal: a request that does not fit answered " + str(hc), hout[k + j] + " | " + json.dumps(meta), c[:j + 1], "mem"))
                        break
                    if hc == mc:
                        key = "refused:%s:%s" % (why, hc)
                    elif hc == "0":
                        key = "refused:%s:reply-not-built(closed)" % why   # no room for the error reply in a tiny pool
                    else:
                        bad = "refusal status: code %s model %s (%s)" % (hc, mc, why)
                        key = None
                    if key and last != "err":
                        stats[key] = stats.get(key, 0) + 1
                        if why == "nospace":
                            fk = "nospace:%s->%s" % (meta["fam"], hc)
                            stats[fk] = stats.get(fk, 0) + 1
                if bad:
                    failures.append(vlib.Failure("diff", "refusal: model/code differ: " + re.sub(r"\d+", "N", bad), bad + " | " + json.dumps(meta), c[:j + 1], "mem"))
                    break
                last = h.get("ph")
            k += len(c)
    return stats


class Spec:
    props_module = "Mhd.Props.C08"
    lean_targets = ["Mhd.Props.C08", "drv_pool", "drv_mem"]
    required_theorems = ["Mhd.C08.step_wf", "Mhd.C08.run_wf", "Mhd.C08.block_in_bounds_disjoint",
                         "Mhd.C08.refused_unchanged", "Mhd.C08.others_untouched",
                         "Mhd.C08.realloc_preserves", "Mhd.C08.reset_keeps", "Mhd.C08.reset_zeroes_rest",
                         "Mhd.C08.realloc_move_no_overlap", "Mhd.C08.alignment_covers_max_align",
                         "Mhd.C08.no_space_status_is_too_large", "Mhd.C08.no_space_501_only_for_nonstandard_method", "Mhd.C08.no_space_codes",
                         "Mhd.C08.no_space_status_by_what_fills", "Mhd.C08.no_space_413_iff", "Mhd.C08.arena_hard_bound", "Mhd.C08.refusal_by_stage",
                         "Mhd.C08.rz_step_wf", "Mhd.C08.rz_run_wf", "Mhd.C08.rz_wf_weak", "Mhd.C08.rz_step_no_fault",
                         "Mhd.C08.rz_block_in_bounds_disjoint", "Mhd.C08.rz_refused_unchanged", "Mhd.C08.rz_others_untouched",
                         "Mhd.C08.rz_realloc_preserves", "Mhd.C08.rz_reset_keeps", "Mhd.C08.rz_alloc_red_zone", "Mhd.C08.rz_live_red_zone",
                         "Mhd.C08.rz_agrees_with_ordinary_model", "Mhd.C08.rz_code_variants", "Mhd.C08.rz_wrap_witness",
                         "Mhd.C08.rz_extracted", "Mhd.C08.pool_step_wf", "Mhd.C08.pool_run_wf", "Mhd.C08.pool_step_no_fault",
                         "Mhd.C08.pool_block_in_bounds_disjoint", "Mhd.C08.pool_refused_unchanged", "Mhd.C08.pool_others_untouched",
                         "Mhd.C08.pool_realloc_preserves", "Mhd.C08.pool_reset_keeps", "Mhd.C08.pool_alloc_red_zone",
                         "Mhd.C08.header_build_in_bounds", "Mhd.C08.header_build_refines_c04", "Mhd.C08.footer_build_in_bounds",
                         "Mhd.C08.header_build_unchecked_merge_overflows"]
    trusted_base = ["Lean 4 kernel", "axioms: propext, Classical.choice, Quot.sound at most (audited per theorem)",
                    "hand-written model lean/Mhd/Model/Pool.lean tied to memorypool.c by this run's correspondence",
                    "hand-written model lean/Mhd/Model/PoolRz.lean (both build variants, red zone as parameter, user-poison map) tied to both "
                    "white-box builds of harness/h_pool.c (ordinary; -DMHD_ASAN_POISON_ACTIVE) by this run's correspondence",
                    "lean/Mhd/Model/ReplyBounds.lean (checks and writes of build_header_response / add_user_headers one by one, over C04's "
                    "Mhd.Reply model: header_build_refines_c04) tied by the regenerated behaviour probe mergeTokenRechecksLine and the daemon-level "
                    "reply-head size sweeps under the pool-poisoning build",
                    "lean/Mhd/Model/NoSpaceConn.lean (observer over C01's Mhd.ConnRead: which refusal is decided) tied to the real parsers + "
                    "check_and_grow + transmit_error_response by the crinit/crfeed lines of harness/h_mem.c",
                    "tools/extract.py (ALIGN_SIZE, red zone, page size regenerated)", "harness/h_pool.c, gcc, ASan/UBSan"]
    assumptions = ["pool: both build variants (red zone 0 as configured; red zone ALIGN_SIZE = MHD_ASAN_POISON_ACTIVE), unconditional for the "
                   "extracted variants (pool_*: Var.Extracted; soundness of the wrap test is decided from the regenerated probe sizeWrapByCompare)",
                   "header_build_in_bounds: status code 100..999 (MHD_queue_response asserts it), Date string of at most 30 bytes",
                   "reset is asked for a block that fits the arena together with its red zone (callers: pool_size/2 or the read-ahead)",
                   "arena_hard_bound: external-polling mode of check_and_grow_read_buffer_space (as Mhd.ConnRead); the reply is taken as sent",
                   "API used as documented: realloc/dealloc/reset are given live blocks with their current size",
                   "arena size < 2^62"]

    def gen(self, ctx):
        gen_pool()
        gen_replybounds()
        import importlib
        importlib.import_module("props.C01").gen_connmem()

    def build(self, ctx):
        self.h_daemon = vlib.build_daemon_harness()
        import importlib
        self.C01 = importlib.import_module("props.C01")
        c01 = self.C01.Spec()
        c01.build(ctx)                      # buffer-layer harness + pool-poisoning daemon build (shared with C01)
        self.h_mem, self.drv_mem, self.h_poison = c01.h_mem, c01.driver, c01.h_poison
        self.harness = vlib.cc("h_pool", [os.path.join(vlib.VERIF, "harness/h_pool.c")])
        # the same white-box harness on the pool's second build variant (red zones + user poisoning)
        self.harness_rz = vlib.cc("h_pool_rz", [os.path.join(vlib.VERIF, "harness/h_pool.c")], extra=POISON)
        self.rz, self.chk = gen_values()
        self.driver = vlib.driver_path("drv_pool")

    def run_batch(self, seqs, failures, stats, harness=None, model="model old", rz=0, tag="pool"):
        """`harness`: which build of the white-box pool harness; `model`: which Lean model the driver runs
        (first line of the batch, echoed by both sides); `rz`: red zone of that build (for the oracle)"""
        harness = harness or self.harness
        lines = [model] + [" ".join(o) for s in seqs for o in s]
        hout, hrc, herr = vlib.run_lines(harness, lines)
        mout, mrc, merr = vlib.run_lines(self.driver, lines)
        hout, mout = hout[1:], mout[1:]
        if hrc != 0:
            # sanitizer abort / crash: the output seen so far gives a lower bound for the position (stdout is block
            # buffered and lost on abort); from there on run the sequences one by one until one aborts
            pos = len(hout)
            k = 0
            for si, s in enumerate(seqs):
                if k + len(s) > pos:
                    o1, rc1, e1 = vlib.run_lines(harness, [model] + [" ".join(o) for o in s])
                    if rc1 != 0:
                        failures.append(vlib.Failure("sanitizer", "%s: harness aborted (rc=%d)" % (tag, rc1),
                                                     e1[-1500:], [model] + [" ".join(o) for o in s], "pool"))
                        break
                k += len(s)
            else:
                failures.append(vlib.Failure("sanitizer", "%s: harness aborted (rc=%d), not reproduced by a single sequence" % (tag, hrc),
                                             herr[-1500:], lines[:50], "pool"))
            return
        k = 0
        for s in seqs:
            orc = Oracle(rz)
            bad = None
            for j, o in enumerate(s):
                h = hout[k + j] if k + j < len(hout) else ""
                m = mout[k + j] if k + j < len(mout) else ""
                e = None
                try:
                    e = orc.feed(o, h)
                except (IndexError, KeyError, ValueError):
                    e = None if h == "bad-op" else "oracle cannot follow: %s -> %s" % (o, h)
                if e:
                    bad = ("oracle", e, j)
                    break
                if h != m:
                    bad = ("diff", "op %s: code says '%s', model says '%s'" % (" ".join(o), h[:300], m[:300]), j)
                    break
                if h.startswith("blk"):
                    stats["blocks"] += 1
                elif h.startswith("null"):
                    stats["refused"] += 1
                elif h == "bad-op":
                    stats["badop"] += 1
            if bad:
                kind, det, j = bad
                sig = tag + ": " + (det if kind == "oracle" else "model/code differ on " + s[j][0])
                # shrink the signature: drop numbers so that different sizes map to one shape
                import re
                sig = re.sub(r"\d+", "N", sig)[:160]
                if sum(1 for x in failures if x.signature == sig) < 3:   # a few inputs per shape are enough
                    failures.append(vlib.Failure(kind, sig, det, [model] + [" ".join(o) for o in s[:j + 1]], "pool"))
            k += len(s)

    def explore(self, ctx, boost):
        failures = []
        stats = {"blocks": 0, "refused": 0, "badop": 0}
        seqs = []
        # corpus first
        cdir = os.path.join(vlib.VERIF, "corpus", "pool")
        ncorp = 0
        if os.path.isdir(cdir):
            for f in sorted(os.listdir(cdir)):
                seqs.append([l.split() for l in open(os.path.join(cdir, f)).read().splitlines() if l.strip()])
                ncorp += 1
        exh_len = 4 if ctx.tier == "thorough" else 3
        exh = list(gen_exhaustive(exh_len))
        nrand = (200000 if ctx.tier == "thorough" else 20000) * (3 if boost else 1)
        rnd = [gen_random_seq(ctx.rng, big=(i % 50 == 0)) for i in range(nrand)]
        allseqs = seqs + exh + rnd
        B = 2000
        stats_rz = {"blocks": 0, "refused": 0, "badop": 0}
        stats_rz0 = {"blocks": 0, "refused": 0, "badop": 0}
        model_rz = "model rz %d %d" % (self.rz, 1 if self.chk else 0)
        for i in range(0, len(allseqs), B):
            self.run_batch(allseqs[i:i + B], failures, stats)
            # the red-zone build against `Mhd.PoolRz` with its red zone (incl. the poison map after every operation)
            self.run_batch(allseqs[i:i + B], failures, stats_rz, harness=self.harness_rz, model=model_rz, rz=self.rz, tag="pool-rz")
            # the ordinary build against `Mhd.PoolRz` at red zone 0 (the two models of the ordinary build agree): every 4th batch
            if (i // B) % 4 == 0:
                self.run_batch(allseqs[i:i + B], failures, stats_rz0, model="model rz 0 %d" % (1 if self.chk else 0), tag="pool-rz0")
            if len({x.signature for x in failures}) > 8:
                break
        # daemon level: hard size bound
        import importlib
        C01 = importlib.import_module("props.C01")
        ov = gen_oversize_cases(ctx.rng)
        res = C01.run_cases(self.h_daemon, ov)
        ov_stats = {}
        for i, (lines, meta) in enumerate(ov):
            out, err = res.get(i, ([], "not run"))
            kind, det = judge_oversize(meta, out, err)
            conns, _ = __import__("dlog").view(out)
            w = conns.get(0).wire[:12] if conns.get(0) else b""
            key = w[9:12].decode("latin-1") if w.startswith(b"HTTP/") else "closed"
            ov_stats[key] = ov_stats.get(key, 0) + 1
            if kind:
                import re as _re
                failures.append(vlib.Failure(kind, "arena-bound: " + _re.sub(r"\d+", "N", det)[:100], det + " | " + json.dumps(meta), lines, "conn"))
        # buffer sizing functions of connection.c anchored in this property (alloc_memory_, try_grow_read_buffer,
        # maximize_write_buffer, reset): same white-box engine as C01, model = Mhd.Model.ConnMem
        memx = importlib.import_module("props._c01mem")
        fm, cov_mem = memx.explore(ctx, self.h_mem, self.drv_mem, boost)
        failures += fm
        # replies and pipelined uploads on the daemon built with the pool's red zones: a block used beyond its size
        # (still inside the arena) is reported by ASan there
        pc = [c for c in self.C01.gen_cases(ctx, 150 if ctx.tier == "quick" else 1500) if c[1].get("kind") in ("lazy-upload+pipeline", "body", "hdrs") or "last" in c[1]]
        resp = self.C01.run_cases(self.h_poison, pc)
        for i, (lines, meta) in enumerate(pc):
            out, err = resp.get(i, ([], "not run"))
            kind, det = self.C01.judge(lines, meta, out, err)
            if kind:
                import re as _re
                failures.append(vlib.Failure(kind, "arena-blocks: " + _re.sub(r"\d+", "N", det)[:100], "[pool-poisoning build] " + det, lines, "conn"))
        # status selection for a request that does not fit (get_no_space_err_status_code): boundary-exhaustive + random,
        # real function on a fabricated connection vs Mhd.Model.NoSpace; oracle: always one of 413/414/431 (501 only for
        # a non-standard method token)
        ns_lines = []
        opts = [0, 1, 2, 26, 27, 100, 6144, 6145, 20000]
        uris = [0, 1, 2, 40, 41, 300, 8000, 8001, 100000]
        for st in (4, 6, 7, 8):
            for (asz, ak) in ((0, 0), (3, 0), (5, 0), (30, 0), (30, 1), (30, 2), (7000, 1), (5, 2)):
                for opt in opts:
                    for uri in uris:
                        for hv in ("-", "1", "100"):
                            for (mo, ml) in ((0, 0), (1, 1), (1, 16), (1, 17), (1, max(opt // 2, 1)), (1, opt // 2 + 1),
                                             (1, max(uri // 16, 1)), (1, uri // 16 + 1), (1, uri // 4 + 1), (1, opt + 1)):
                                if ak == 1 and opt < asz:
                                    continue
                                ns_lines.append("nospace %d %d %d %d %s %d %d %d" % (st, asz, ak, opt, hv, uri, mo, ml))
        if ctx.tier == "quick":
            ns_lines = ctx.rng.sample(ns_lines, 12000)
        for _ in range(3000 if ctx.tier == "quick" else 60000):
            r = ctx.rng
            asz, ak = r.choice([(0, 0), (r.randint(1, 9000), 0), (r.randint(5, 9000), 1), (r.randint(5, 9000), 2)])
            opt = r.choice([r.randint(0, 60), r.randint(0, 20000)])
            if ak == 1:
                opt = max(opt, asz)
            ns_lines.append("nospace %d %d %d %d %s %d %d %d" % (r.choice([4, 6, 7, 8]), asz, ak, opt, r.choice(["-", str(r.randint(0, 300))]),
                                                                  r.choice([r.randint(0, 100), r.randint(0, 200000)]), r.randint(0, 1),
                                                                  r.choice([0, r.randint(0, 40), r.randint(0, 20000)])))
        hout, hrc, herr = vlib.run_lines(self.h_mem, ns_lines)
        mout, mrc, merr = vlib.run_lines(self.drv_mem, ns_lines)
        ns_dist = {}
        if hrc != 0:
            failures.append(vlib.Failure("sanitizer", "nospace: harness aborted", herr[-1500:], ns_lines[max(len(hout) - 1, 0):len(hout) + 1], "mem"))
        else:
            for ln, h, m in zip(ns_lines, hout, mout):
                ns_dist[h] = ns_dist.get(h, 0) + 1
                w = ln.split()
                code = int(h.split("=")[1]) if h.startswith("status=") else -1
                if code not in (413, 414, 431, 501) or (code == 501 and w[7] == "0"):
                    failures.append(vlib.Failure("oracle", "nospace: refusal status outside 413/414/431 (or 501 for a standard method)", "%s -> %s" % (ln, h), [ln], "mem"))
                    break
                if h != m:
                    failures.append(vlib.Failure("diff", "nospace: model/code differ", "%s: code %s model %s" % (ln, h, m), [ln], "mem"))
                    break
        # which refusal, by stage and by what fills the buffer: composed engine of C01's harness (real request
        # parsers + check_and_grow + transmit_error_response) vs the traced composed model `Mhd.ArenaBound.runT`
        rcases = gen_refusal_cases(ctx, (40 if ctx.tier == "quick" else 500) * (3 if boost else 1))
        ref_stats = run_refusal(self.h_mem, self.driver, rcases, failures)
        # the reply head against the end of the write buffer (size sweeps across the fit/refuse boundary, both builds)
        rh_stats = explore_reply_head(ctx, self.h_daemon, self.h_poison, failures, boost)
        distinct = len({json.dumps(s) for s in allseqs if len(s) > 2})
        cov = {"evaluations": len(allseqs), "distinct_nontrivial": distinct,
               "rule": "op sequences on the real pool and the Lean model; distinct = different scripts with >=2 ops; "
                       "bounded-exhaustive: all sequences of length %d over %d-op alphabet on a 64-byte arena; "
                       "random: sizes incl. 0 and near SIZE_MAX" % (exh_len, EXH_ALPHA),
               "samples": [[" ".join(o) for o in rnd[0]], [" ".join(o) for o in exh[len(exh) // 2]]],
               "exhaustive_sequences": len(exh), "exhaustive_alphabet": EXH_ALPHA, "random_sequences": len(rnd), "corpus": ncorp,
               "outcomes": stats, "outcomes_redzone_build": stats_rz, "outcomes_redzone_model_at_0": stats_rz0,
               "redzone_build": {"red_zone": self.rz, "size_wrap_by_compare": self.chk}, "oversized_requests": len(ov), "oversized_outcomes": ov_stats, "buffer_layer": cov_mem,
               "poisoned_pool_daemon_cases": len(pc), "no_space_status_cases": len(ns_lines), "no_space_status_outcomes": ns_dist,
               "refusal_cases": len(rcases), "refusal_outcomes": ref_stats, "reply_head_sweeps": rh_stats, "exhaustive": False}
        cov["evaluations"] += len(ov) + len(pc) + cov_mem.get("evaluations", 0) + len(rcases) + rh_stats["probe_cases"] + rh_stats["sweep_cases"]
        return failures, cov


def replay(ctx, path):
    r = json.load(open(path))
    sp = Spec(); sp.gen(ctx); vlib.lake_build(sp.lean_targets); sp.build(ctx)
    fl, st = [], {"blocks": 0, "refused": 0, "badop": 0}
    inp = list(r["input"])
    model = inp.pop(0) if inp and inp[0].startswith("model") else "model old"
    rzb = model.startswith("model rz") and model.split()[2] != "0"
    sp.run_batch([[l.split() for l in inp]], fl, st, harness=sp.harness_rz if rzb else sp.harness, model=model,
                 rz=sp.rz if rzb else 0, tag="pool-rz" if rzb else "pool")
    for f in fl:
        print(f.kind, f.signature, f.detail)
    return 1 if fl else 0
