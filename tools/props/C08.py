"""C08 — connection arena (memorypool.c).  Engine `pool`."""
import itertools, os, json
import vlib, extract

W = 1 << 64
EXH_ALPHA = 0


def pattern(seed, n):
    return [(seed * 31 + j * 7 + 1) % 256 for j in range(n)]


def gen_pool():
    from extract import c_eval, src, prev_value, HEADER, GEN
    import re
    v = c_eval('#include "MHD_config.h"\n#include "memorypool.c"\n',
               [("align", "%zu", "(size_t) ALIGN_SIZE"), ("rz", "%zu", "(size_t) _MHD_RED_ZONE_SIZE"),
                ("szt", "%zu", "sizeof(size_t)"),
                ("page", "%zu", "(MHD_init_mem_pools_ (), MHD_sys_page_size_)")])
    m = re.search(r"max\s*<=\s*(\d+)\s*\*\s*1024", src("src/microhttpd/memorypool.c"))
    thr = str(int(m.group(1)) * 1024) if m else prev_value("Pool.lean", "mmapThreshold", "32768")
    out = HEADER % "src/microhttpd/memorypool.c" + "namespace Mhd.Gen.Pool\n" \
        + "def alignSize : Nat := %s\n" % v["align"] \
        + "def redZone : Nat := %s\n" % v["rz"] \
        + "def sizeofSizeT : Nat := %s\n" % v["szt"] \
        + "def pageSize : Nat := %s\n" % v["page"] \
        + "def mmapThreshold : Nat := %s\n" % thr \
        + "end Mhd.Gen.Pool\n"
    return vlib.write_if_changed(os.path.join(GEN, "Pool.lean"), out)


class Oracle:
    """Independent statement of C08 over what the real code returned:
    blocks in bounds, aligned, pairwise disjoint; contents preserved; refusal
    leaves the arena unchanged.  Knows nothing about the model."""

    def __init__(self):
        self.size = None
        self.live = []      # [off, len, front, expected(list of int|None)]
        self.pos = self.end = None

    def _st(self, words):
        d = dict(w.split("=") for w in words if "=" in w)
        return int(d["pos"]), int(d["end"])

    def _check_new(self, off, ln, skip=None):
        if off % 16 != 0:
            return "block at %d not aligned" % off
        if off + ln > self.size:
            return "block [%d,+%d) outside arena of %d" % (off, ln, self.size)
        for j, b in enumerate(self.live):
            if j == skip or b[1] == 0 or ln == 0:
                continue
            if not (off + ln <= b[0] or b[0] + b[1] <= off):
                return "block [%d,+%d) overlaps live block [%d,+%d)" % (off, ln, b[0], b[1])
        return None

    def feed(self, op, out):
        """op: script words, out: harness output line. returns error string or None"""
        w = out.split()
        if not w:
            return "no output"
        if w[0] == "bad-op":
            return None
        if w[0] == "fault":
            return "harness: " + out
        k = op[0]
        if k == "create":
            d = dict(x.split("=") for x in w[1:])
            self.size = int(d["size"]); self.pos = 0; self.end = self.size; self.live = []
            if self.size < int(op[1]) or self.size % 16:
                return "arena smaller than requested or unaligned"
            return None
        if k in ("alloc", "try", "realloc", "reset"):
            if w[0] == "null":
                pos, end = self._st(w[1:])
                if (pos, end) != (self.pos, self.end):
                    return "refused request changed the arena: pos/end %d/%d -> %d/%d" % (self.pos, self.end, pos, end)
                return None
            off, ln = int(w[1]), int(w[2])
            pos, end = self._st(w[3:])
            err = None
            if k == "alloc":
                n = int(op[1])
                err = self._check_new(off, ln)
                if ln != n:
                    err = err or "length mismatch"
                self.live.append([off, ln, op[2] == "0", [None] * min(ln, 1 << 20)])
            elif k == "try":
                err = self._check_new(off, ln)
                self.live.append([off, ln, False, [None] * min(ln, 1 << 20)])
            elif k == "realloc":
                if op[1] == "-":
                    err = self._check_new(off, ln)
                    self.live.append([off, ln, True, [None] * min(ln, 1 << 20)])
                else:
                    i = int(op[1])
                    old = self.live[i]
                    err = self._check_new(off, ln, skip=i)
                    keep = min(old[1], ln)
                    exp = old[3][:keep] + [None] * (min(ln, 1 << 20) - keep)
                    del self.live[i]
                    self.live.append([off, ln, True, exp])
            elif k == "reset":
                if off != 0:
                    err = "reset did not return the arena start"
                if ln > self.size:
                    err = "reset block outside arena"
                if op[1] == "-":
                    exp = [None] * ln
                else:
                    old = self.live[int(op[1])]
                    c = int(op[2])
                    exp = old[3][:c] + [None] * (ln - c)
                self.live = [[0, ln, True, exp]]
            self.pos, self.end = pos, end
            if not (pos <= end <= self.size):
                err = err or "cursor out of order: pos=%d end=%d size=%d" % (pos, end, self.size)
            return err
        if k == "dealloc":
            del self.live[int(op[1])]
            self.pos, self.end = self._st(w[1:])
            if not (self.pos <= self.end <= self.size):
                return "cursor out of order after dealloc"
            for b in self.live:   # nothing live may lie in the free gap
                if b[1] and b[0] < self.end and b[0] + b[1] > self.pos:
                    return "dealloc returned live block [%d,+%d) to the pool" % (b[0], b[1])
            return None
        if k == "fill":
            b = self.live[int(op[1])]
            b[3] = pattern(int(op[2]), b[1])
            return None
        if k == "read":
            b = self.live[int(op[1])]
            data = [] if w[1] == "-" else list(bytes.fromhex(w[1]))
            if len(data) != b[1]:
                return "read length mismatch"
            for j, e in enumerate(b[3]):
                if e is not None and data[j] != e:
                    return "contents of block [%d,+%d) changed at byte %d" % (b[0], b[1], j)
            return None
        if k == "free?":
            if int(w[0].split("=")[1]) != self.end - self.pos:
                return "free-space query inconsistent"
            return None
        return None


def sizes_for(size):
    return [0, 1, 15, 16, 17, 32, 33, max(size - 16, 0), size, size + 1, 1 << 63, W - 16, W - 1, W - 16 + 40, W - 40]


def gen_random_seq(rng, big=False):
    size = rng.choice([64, 128, 256, 1024] + ([4096, 32768, 32769, 50000, 70000] if big else []))
    ops = [["create", str(size)]]
    n = rng.randint(3, 14)
    for _ in range(n):
        r = rng.random()
        sz = rng.choice(sizes_for(size)) if rng.random() < 0.25 else rng.randint(0, max(size // 3, 40))
        idx = str(rng.choice([0, 0, 0, 1, 1, 2]))
        if r < 0.22:
            ops.append(["alloc", str(sz), str(rng.randint(0, 1))])
        elif r < 0.30:
            ops.append(["try", str(sz)])
        elif r < 0.52:
            ops.append(["realloc", rng.choice([idx, idx, idx, "-"]), str(sz)])
        elif r < 0.64:
            ops.append(["dealloc", idx])
        elif r < 0.70:
            ops.append(["reset", rng.choice([idx, "-"]), str(rng.randint(0, 20)), str(rng.randint(0, size))])
        elif r < 0.85:
            ops.append(["fill", idx, str(rng.randint(0, 255))])
        else:
            ops.append(["read", idx])
        if rng.random() < 0.3:
            ops.append(["read", str(rng.randint(0, 3))])
        if rng.random() < 0.1:
            ops.append(["free?"])
    for i in range(4):
        ops.append(["read", str(i)])
    return ops


def gen_exhaustive(length, size=64):
    """all op sequences of `length` over a small alphabet on a `size`-byte arena, each
    followed by fill/read probes"""
    S = [0, 1, 16, 17, size - 16, size, size + 1, W - 16 + 40, W - 1]
    alpha = []
    for s in S:
        alpha.append(["alloc", str(s), "0"])
        alpha.append(["realloc", "0", str(s)])
    for s in [1, 16, size]:
        alpha.append(["alloc", str(s), "1"])
        alpha.append(["try", str(s)])
        alpha.append(["realloc", "1", str(s)])
    alpha += [["dealloc", "0"], ["dealloc", "1"], ["reset", "0", "1", "20"], ["realloc", "-", "8"]]
    global EXH_ALPHA
    EXH_ALPHA = len(alpha)
    for combo in itertools.product(alpha, repeat=length):
        ops = [["create", str(size)]]
        for j, o in enumerate(combo):
            ops.append(o)
            ops.append(["fill", "0", str(j + 1)])
        ops += [["read", "0"], ["read", "1"], ["read", "2"], ["free?"]]
        yield ops


def gen_oversize_cases(rng):
    """daemon level: requests that cannot fit the configured arena must be refused with
    413/414/431 or a close — never processed, never overflowing"""
    import dlog
    cases = []
    k = 0
    for mem in (256, 512, 1024, 2048, 4096, 8192):
        for shape in ("url", "hdrval", "hdrs", "method", "hdrname"):
            for extra in (1, 17, mem // 2, mem, 3 * mem):
                n = mem + extra
                if shape == "url":
                    req = b"GET /" + b"u" * n + b" HTTP/1.1\r\nHost: h\r\n\r\n"
                elif shape == "hdrval":
                    req = b"GET / HTTP/1.1\r\nHost: h\r\nX-Big: " + b"v" * n + b"\r\n\r\n"
                elif shape == "hdrname":
                    req = b"GET / HTTP/1.1\r\nHost: h\r\nX" + b"n" * n + b": v\r\n\r\n"
                elif shape == "method":
                    req = b"M" * n + b" / HTTP/1.1\r\nHost: h\r\n\r\n"
                else:
                    req = b"GET / HTTP/1.1\r\nHost: h\r\n" + b"".join(b"X-%d: %s\r\n" % (i, b"v" * 40) for i in range(n // 48 + 2)) + b"\r\n"
                how = rng.choice(["whole", "halves", "k"])
                if how == "whole":
                    pieces = [req]
                elif how == "halves":
                    pieces = [req[:len(req) // 2], req[len(req) // 2:]]
                else:
                    step = rng.choice([100, 333, 1000])
                    pieces = [req[i:i + step] for i in range(0, len(req), step)]
                L = ["case ov%d" % k, "cfg mode=%s mem=%d" % (rng.choice(["select", "epoll"]), mem), "start", "arrive 0 1", "arrive 1 2",
                     "send 1 " + dlog.hx(b"GET /ok HTTP/1.1\r\nHost: h\r\n\r\n"), "round"]
                for pc in pieces:
                    L += ["send 0 " + dlog.hx(pc), "round"]
                L += ["rounds 400", "stop"]
                cases.append((L, {"mem": mem, "shape": shape, "len": len(req)}))
                k += 1
    return cases


def judge_oversize(meta, out, err):
    import dlog
    if err:
        return "sanitizer", "daemon aborted on an oversized request: " + err[:200]
    conns, _ = dlog.view(out)
    v0, v1 = conns.get(0), conns.get(1)
    if v0 is None:
        return "oracle", "no trace of the connection"
    if v0.handler:
        return "oracle", "a request larger than the arena (%d > %d) reached the handler" % (meta["len"], meta["mem"])
    try:
        rs = dlog.parse_responses(v0.wire, at_eof=v0.eof or v0.rst)
    except dlog.RespError as ex:
        return "oracle", "malformed refusal: %s" % ex
    for r in rs:
        if r.get("complete") and r["status"] not in (413, 414, 431, 400, 501):
            return "oracle", "oversized request answered %d" % r["status"]
    if not rs and not (v0.eof or v0.rst):
        return "oracle", "oversized request neither refused nor closed"
    if meta["mem"] >= 512:
        try:
            r1 = dlog.parse_responses(v1.wire) if v1 else []
        except dlog.RespError as ex:
            return "oracle", "bystander reply malformed: %s" % ex
        if not (len(r1) == 1 and r1[0]["complete"] and r1[0]["status"] == 200):
            return "oracle", "bystander connection not served while an oversized request was refused"
    return None, None


class Spec:
    props_module = "Mhd.Props.C08"
    lean_targets = ["Mhd.Props.C08", "drv_pool", "drv_mem"]
    required_theorems = ["Mhd.C08.step_wf", "Mhd.C08.run_wf", "Mhd.C08.block_in_bounds_disjoint",
                         "Mhd.C08.refused_unchanged", "Mhd.C08.others_untouched",
                         "Mhd.C08.realloc_preserves", "Mhd.C08.reset_keeps",
                         "Mhd.C08.no_space_status_is_too_large", "Mhd.C08.no_space_501_only_for_nonstandard_method", "Mhd.C08.no_space_codes"]
    trusted_base = ["Lean 4 kernel", "axioms: propext, Classical.choice, Quot.sound at most (audited per theorem)",
                    "hand-written model lean/Mhd/Model/Pool.lean tied to memorypool.c by this run's correspondence",
                    "tools/extract.py (ALIGN_SIZE, red zone, page size regenerated)", "harness/h_pool.c, gcc, ASan/UBSan"]
    assumptions = ["non-ASan-poison build of the pool (red zone 0), as configured",
                   "API used as documented: realloc/dealloc/reset are given live blocks with their current size",
                   "arena size < 2^62"]

    def gen(self, ctx):
        gen_pool()
        import importlib
        importlib.import_module("props.C01").gen_connmem()

    def build(self, ctx):
        self.h_daemon = vlib.build_daemon_harness()
        import importlib
        self.C01 = importlib.import_module("props.C01")
        c01 = self.C01.Spec()
        c01.build(ctx)                      # buffer-layer harness + pool-poisoning daemon build (shared with C01)
        self.h_mem, self.drv_mem, self.h_poison = c01.h_mem, c01.driver, c01.h_poison
        self.harness = vlib.cc("h_pool", [os.path.join(vlib.VERIF, "harness/h_pool.c")])
        self.driver = vlib.driver_path("drv_pool")

    def run_batch(self, seqs, failures, stats):
        lines = [" ".join(o) for s in seqs for o in s]
        hout, hrc, herr = vlib.run_lines(self.harness, lines)
        mout, mrc, merr = vlib.run_lines(self.driver, lines)
        if hrc != 0:
            # sanitizer abort / crash: bisect to the sequence
            pos = len(hout)
            k = 0
            for si, s in enumerate(seqs):
                if k + len(s) > pos:
                    failures.append(vlib.Failure("sanitizer", "pool: harness aborted (rc=%d)" % hrc,
                                                 herr[-1500:], [" ".join(o) for o in s], "pool"))
                    break
                k += len(s)
            return
        k = 0
        for s in seqs:
            orc = Oracle()
            bad = None
            for j, o in enumerate(s):
                h = hout[k + j] if k + j < len(hout) else ""
                m = mout[k + j] if k + j < len(mout) else ""
                e = None
                try:
                    e = orc.feed(o, h)
                except (IndexError, KeyError, ValueError):
                    e = None if h == "bad-op" else "oracle cannot follow: %s -> %s" % (o, h)
                if e:
                    bad = ("oracle", e, j)
                    break
                if h != m:
                    bad = ("diff", "op %s: code says '%s', model says '%s'" % (" ".join(o), h, m), j)
                    break
                if h.startswith("blk"):
                    stats["blocks"] += 1
                elif h.startswith("null"):
                    stats["refused"] += 1
                elif h == "bad-op":
                    stats["badop"] += 1
            if bad:
                kind, det, j = bad
                sig = "pool: " + (det if kind == "oracle" else "model/code differ on " + s[j][0])
                # shrink the signature: drop numbers so that different sizes map to one shape
                import re
                sig = re.sub(r"\d+", "N", sig)
                failures.append(vlib.Failure(kind, sig, det, [" ".join(o) for o in s[:j + 1]], "pool"))
            k += len(s)

    def explore(self, ctx, boost):
        failures = []
        stats = {"blocks": 0, "refused": 0, "badop": 0}
        seqs = []
        # corpus first
        cdir = os.path.join(vlib.VERIF, "corpus", "pool")
        ncorp = 0
        if os.path.isdir(cdir):
            for f in sorted(os.listdir(cdir)):
                seqs.append([l.split() for l in open(os.path.join(cdir, f)).read().splitlines() if l.strip()])
                ncorp += 1
        exh_len = 4 if ctx.tier == "thorough" else 3
        exh = list(gen_exhaustive(exh_len))
        nrand = (200000 if ctx.tier == "thorough" else 20000) * (3 if boost else 1)
        rnd = [gen_random_seq(ctx.rng, big=(i % 50 == 0)) for i in range(nrand)]
        allseqs = seqs + exh + rnd
        B = 2000
        for i in range(0, len(allseqs), B):
            self.run_batch(allseqs[i:i + B], failures, stats)
            if len(failures) > 20:
                break
        # daemon level: hard size bound
        import importlib
        C01 = importlib.import_module("props.C01")
        ov = gen_oversize_cases(ctx.rng)
        res = C01.run_cases(self.h_daemon, ov)
        ov_stats = {}
        for i, (lines, meta) in enumerate(ov):
            out, err = res.get(i, ([], "not run"))
            kind, det = judge_oversize(meta, out, err)
            conns, _ = __import__("dlog").view(out)
            w = conns.get(0).wire[:12] if conns.get(0) else b""
            key = w[9:12].decode("latin-1") if w.startswith(b"HTTP/") else "closed"
            ov_stats[key] = ov_stats.get(key, 0) + 1
            if kind:
                import re as _re
                failures.append(vlib.Failure(kind, "arena-bound: " + _re.sub(r"\d+", "N", det)[:100], det + " | " + json.dumps(meta), lines, "conn"))
        # buffer sizing functions of connection.c anchored in this property (alloc_memory_, try_grow_read_buffer,
        # maximize_write_buffer, reset): same white-box engine as C01, model = Mhd.Model.ConnMem
        memx = importlib.import_module("props._c01mem")
        fm, cov_mem = memx.explore(ctx, self.h_mem, self.drv_mem, boost)
        failures += fm
        # replies and pipelined uploads on the daemon built with the pool's red zones: a block used beyond its size
        # (still inside the arena) is reported by ASan there
        pc = [c for c in self.C01.gen_cases(ctx, 150 if ctx.tier == "quick" else 1500) if c[1].get("kind") in ("lazy-upload+pipeline", "body", "hdrs") or "last" in c[1]]
        resp = self.C01.run_cases(self.h_poison, pc)
        for i, (lines, meta) in enumerate(pc):
            out, err = resp.get(i, ([], "not run"))
            kind, det = self.C01.judge(lines, meta, out, err)
            if kind:
                import re as _re
                failures.append(vlib.Failure(kind, "arena-blocks: " + _re.sub(r"\d+", "N", det)[:100], "[pool-poisoning build] " + det, lines, "conn"))
        # status selection for a request that does not fit (get_no_space_err_status_code): boundary-exhaustive + random,
        # real function on a fabricated connection vs Mhd.Model.NoSpace; oracle: always one of 413/414/431 (501 only for
        # a non-standard method token)
        ns_lines = []
        opts = [0, 1, 2, 26, 27, 100, 6144, 6145, 20000]
        uris = [0, 1, 2, 40, 41, 300, 8000, 8001, 100000]
        for st in (4, 6, 7, 8):
            for (asz, ak) in ((0, 0), (3, 0), (5, 0), (30, 0), (30, 1), (30, 2), (7000, 1), (5, 2)):
                for opt in opts:
                    for uri in uris:
                        for hv in ("-", "1", "100"):
                            for (mo, ml) in ((0, 0), (1, 1), (1, 16), (1, 17), (1, max(opt // 2, 1)), (1, opt // 2 + 1),
                                             (1, max(uri // 16, 1)), (1, uri // 16 + 1), (1, uri // 4 + 1), (1, opt + 1)):
                                if ak == 1 and opt < asz:
                                    continue
                                ns_lines.append("nospace %d %d %d %d %s %d %d %d" % (st, asz, ak, opt, hv, uri, mo, ml))
        if ctx.tier == "quick":
            ns_lines = ctx.rng.sample(ns_lines, 12000)
        for _ in range(3000 if ctx.tier == "quick" else 60000):
            r = ctx.rng
            asz, ak = r.choice([(0, 0), (r.randint(1, 9000), 0), (r.randint(5, 9000), 1), (r.randint(5, 9000), 2)])
            opt = r.choice([r.randint(0, 60), r.randint(0, 20000)])
            if ak == 1:
                opt = max(opt, asz)
            ns_lines.append("nospace %d %d %d %d %s %d %d %d" % (r.choice([4, 6, 7, 8]), asz, ak, opt, r.choice(["-", str(r.randint(0, 300))]),
                                                                  r.choice([r.randint(0, 100), r.randint(0, 200000)]), r.randint(0, 1),
                                                                  r.choice([0, r.randint(0, 40), r.randint(0, 20000)])))
        hout, hrc, herr = vlib.run_lines(self.h_mem, ns_lines)
        mout, mrc, merr = vlib.run_lines(self.drv_mem, ns_lines)
        ns_dist = {}
        if hrc != 0:
            failures.append(vlib.Failure("sanitizer", "nospace: harness aborted", herr[-1500:], ns_lines[max(len(hout) - 1, 0):len(hout) + 1], "mem"))
        else:
            for ln, h, m in zip(ns_lines, hout, mout):
                ns_dist[h] = ns_dist.get(h, 0) + 1
                w = ln.split()
                code = int(h.split("=")[1]) if h.startswith("status=") else -1
                if code not in (413, 414, 431, 501) or (code == 501 and w[7] == "0"):
                    failures.append(vlib.Failure("oracle", "nospace: refusal status outside 413/414/431 (or 501 for a standard method)", "%s -> %s" % (ln, h), [ln], "mem"))
                    break
                if h != m:
                    failures.append(vlib.Failure("diff", "nospace: model/code differ", "%s: code %s model %s" % (ln, h, m), [ln], "mem"))
                    break
        distinct = len({json.dumps(s) for s in allseqs if len(s) > 2})
        cov = {"evaluations": len(allseqs), "distinct_nontrivial": distinct,
               "rule": "op sequences on the real pool and the Lean model; distinct = different scripts with >=2 ops; "
                       "bounded-exhaustive: all sequences of length %d over %d-op alphabet on a 64-byte arena; "
                       "random: sizes incl. 0 and near SIZE_MAX" % (exh_len, EXH_ALPHA),
               "samples": [[" ".join(o) for o in rnd[0]], [" ".join(o) for o in exh[len(exh) // 2]]],
               "exhaustive_sequences": len(exh), "exhaustive_alphabet": EXH_ALPHA, "random_sequences": len(rnd), "corpus": ncorp,
               "outcomes": stats, "oversized_requests": len(ov), "oversized_outcomes": ov_stats, "buffer_layer": cov_mem,
               "poisoned_pool_daemon_cases": len(pc), "no_space_status_cases": len(ns_lines), "no_space_status_outcomes": ns_dist, "exhaustive": False}
        cov["evaluations"] += len(ov) + len(pc) + cov_mem.get("evaluations", 0)
        return failures, cov


def replay(ctx, path):
    r = json.load(open(path))
    sp = Spec(); sp.gen(ctx); vlib.lake_build(sp.lean_targets); sp.build(ctx)
    fl, st = [], {"blocks": 0, "refused": 0, "badop": 0}
    sp.run_batch([[l.split() for l in r["input"]]], fl, st)
    for f in fl:
        print(f.kind, f.signature, f.detail)
    return 1 if fl else 0
