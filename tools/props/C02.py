"""C02 — the application sees exactly the request the client sent.  Engine `conn`.

Translator (A): every strictness threshold of the request-head parsers (and the
constants they use) is regenerated from /repo into lean/Mhd/Gen/Discipline.lean and
lean/Mhd/Gen/Http.lean.
"""
import itertools, json, os, re, sys
import vlib, extract

GEN = extract.GEN

# ----------------------------------------------------------------------------
# (A) translator
# ----------------------------------------------------------------------------

LVL_ALIASES = ["connection->daemon->client_discipline", "c->daemon->client_discipline",
               "daemon->client_discipline"]


def c_function_body(text, name):
    """source text of the definition of `name` (GNU style: name at column 0)"""
    m = re.search(r"^%s \(" % re.escape(name), text, re.M)
    if not m:
        return None
    end = re.search(r"^}", text[m.start():], re.M)
    return text[m.start(): m.start() + end.end()] if end else None


class ExprErr(Exception):
    pass


def c_bool_to_lean(expr, known, prefix, macros):
    """translate a C boolean expression over discp_lvl / integer literals / earlier flags"""
    for a in LVL_ALIASES:
        expr = expr.replace(a, "discp_lvl")
    for mname, (marg, mbody) in macros.items():
        expr = re.sub(r"%s\s*\(\s*([^()]*?)\s*\)" % re.escape(mname),
                      lambda m: "(" + re.sub(r"\b%s\b" % re.escape(marg), m.group(1), mbody) + ")", expr)
    toks = re.findall(r"-?\d+|[A-Za-z_]\w*|>=|<=|==|!=|&&|\|\||[()!<>]", expr)
    if "".join(toks) != re.sub(r"\s+", "", expr):
        raise ExprErr("untranslatable expression: " + expr)
    pos = [0]

    def peek():
        return toks[pos[0]] if pos[0] < len(toks) else None

    def take(t=None):
        x = peek()
        if x is None or (t is not None and x != t):
            raise ExprErr("parse error in: " + expr)
        pos[0] += 1
        return x

    def p_or():
        l = p_and()
        while peek() == "||":
            take(); l = "(%s || %s)" % (l, p_and())
        return l

    def p_and():
        l = p_not()
        while peek() == "&&":
            take(); l = "(%s && %s)" % (l, p_not())
        return l

    def p_not():
        if peek() == "!":
            take(); return "(!%s)" % p_not()
        return p_cmp()

    def arith():
        t = take()
        if re.fullmatch(r"-?\d+", t):
            return ("int", "(%s : Int)" % t)
        if t == "discp_lvl":
            return ("int", "lvl")
        if t == "(":
            inner = p_or(); take(")")
            return ("bool", inner)
        if t in known:
            return ("bool", "%s%s lvl" % (prefix, t))
        raise ExprErr("unknown identifier %s in: %s" % (t, expr))

    def p_cmp():
        k, l = arith()
        if peek() in (">=", "<=", "<", ">", "==", "!="):
            op = take()
            k2, r = arith()
            if k != "int" or k2 != "int":
                raise ExprErr("comparison of non-integers in: " + expr)
            lop = {">=": "≥", "<=": "≤", "<": "<", ">": ">", "==": "=", "!=": "≠"}[op]
            return "decide (%s %s %s)" % (l, lop, r)
        if k != "bool":
            raise ExprErr("integer used as boolean in: " + expr)
        return l if l.startswith("(") else "(%s)" % l

    out = p_or()
    if peek() is not None:
        raise ExprErr("trailing tokens in: " + expr)
    return out


# function -> (prefix, flags the model needs)
FLAG_SOURCES = [
    ("src/microhttpd/connection.c", "get_request_line_inner", "rl_",
     ["skip_empty_lines", "skip_several_empty_lines", "skip_unlimited_empty_lines", "bare_lf_as_crlf",
      "tab_as_wsp", "other_wsp_as_wsp", "wsp_blocks", "wsp_in_uri", "wsp_in_uri_keep", "bare_cr_keep",
      "bare_cr_as_sp"]),
    ("src/microhttpd/connection.c", "get_request_line", "rlo_", ["wsp_in_uri", "wsp_in_uri_keep"]),
    ("src/microhttpd/connection.c", "get_req_header", "fl_",
     ["bare_lf_as_crlf", "bare_cr_keep", "bare_cr_as_sp", "nul_as_sp", "allow_folded", "allow_wsp_at_start",
      "allow_wsp_in_name", "allow_empty_name", "allow_wsp_before_colon", "allow_line_without_colon"]),
    ("src/microhttpd/connection.c", "parse_cookies_string", "ck_",
     ["allow_wsp_empty", "wsp_around_eq", "wsp_in_quoted", "tab_as_sp", "allow_no_space"]),
    ("src/microhttpd/connection.c", "parse_cookie_header", "ckh_", ["allow_partially_correct_cookie"]),
    ("src/microhttpd/connection.c", "process_request_body", "body_", ["bare_lf_as_crlf", "allow_bws"]),
]
# thresholds that are `if` conditions rather than `const bool` lines: (file, function, name, regex with one group = the condition)
COND_SOURCES = [
    ("src/microhttpd/connection.c", "parse_connection_headers", "pch_host_required",
     r"if\s*\(\s*\((-?\d+\s*[<>=!]+\s*connection->daemon->client_discipline)\)\s*&&\s*\(MHD_IS_HTTP_VER_1_1_COMPAT"),
    ("src/microhttpd/connection.c", "parse_connection_headers", "pch_te_cl_reject",
     r"if\s*\((-?\d+\s*[<>=!]+\s*connection->daemon->client_discipline)\)\s*\{\s*transmit_error_response_static\s*\(connection,\s*MHD_HTTP_BAD_REQUEST,\s*REQUEST_LENGTH_WITH_TR_ENCODING"),
    ("src/microhttpd/daemon.c", "unescape_wrapper", "unesc_strict",
     r"if\s*\((-?\d+\s*[<>=!]+\s*connection->daemon->client_discipline)\)\s*return\s+MHD_str_pct_decode_in_place_strict_"),
]


def prev_defs(modfile):
    """name -> full `def` line of the previously generated file (fallback when a source pattern disappears)"""
    out = {}
    try:
        for line in open(os.path.join(GEN, modfile)):
            m = re.match(r"def (\w+) ", line)
            if m:
                out[m.group(1)] = line.rstrip("\n")
    except OSError:
        pass
    return out


def gen_discipline(notes=None):
    notes = notes if notes is not None else []
    prev = prev_defs("Discipline.lean")
    lines = [extract.HEADER % "src/microhttpd/connection.c, daemon.c, internal.h",
             "/- Every strictness threshold of the request parsers as a function of the level.\n"
             "   One `def` per `const bool x = (...)` line (or `if` condition) of the C source. -/",
             "namespace Mhd.Gen.Discipline"]
    texts = {}
    all_found = {}
    for path, fn, prefix, needed in FLAG_SOURCES:
        text = texts.setdefault(path, extract.src(path))
        macros = {}
        for m in re.finditer(r"^#define\s+(MHD_ALLOW_\w+)\s*\(\s*(\w+)\s*\)\s*(.+)$", text, re.M):
            macros[m.group(1)] = (m.group(2), m.group(3).strip())
        body = c_function_body(text, fn)
        found = {}
        if body is not None:
            known = []
            for m in re.finditer(r"const\s+bool\s+(\w+)\s*=\s*([^;]+);", body):
                name, ex = m.group(1), " ".join(m.group(2).split())
                if "discp_lvl" not in ex and "client_discipline" not in ex and not any(re.search(r"\b%s\b" % k, ex) for k in known) \
                        and not any(mm in ex for mm in macros):
                    continue
                try:
                    found[name] = (c_bool_to_lean(ex, known, prefix, macros), ex)
                    known.append(name)
                except ExprErr as e:
                    notes.append("%s: %s" % (fn, e))
        lines.append("-- %s (%s)" % (fn, path))
        for name in sorted(set(list(found.keys()) + needed), key=lambda n: (list(found.keys()) + needed).index(n)):
            dn = prefix + name
            if name in found:
                lines.append("/-- `%s = %s` -/" % (name, found[name][1]))
                lines.append("def %s (lvl : Int) : Bool := %s" % (dn, found[name][0]))
            elif dn in prev:
                notes.append("flag %s of %s not found in the source any more: kept the last generated value "
                             "(the per-level differential decides)" % (name, fn))
                lines.append("/-- NOT FOUND in the source on this run; last generated value kept -/")
                lines.append(prev[dn])
            else:
                raise RuntimeError("flag %s of %s not found and no previous value" % (name, fn))
        all_found[fn] = sorted(found)
    for path, fn, dn, rx in COND_SOURCES:
        text = texts.setdefault(path, extract.src(path))
        body = c_function_body(text, fn)
        m = re.search(rx, " ".join(body.split())) if body else None
        if not m and body:
            m = re.search(rx, body, re.S)
        lines.append("-- %s (%s)" % (fn, path))
        if m:
            lines.append("/-- `%s` -/" % " ".join(m.group(1).split()))
            lines.append("def %s (lvl : Int) : Bool := %s" % (dn, c_bool_to_lean(m.group(1), [], "", {})))
        elif dn in prev:
            notes.append("condition %s of %s not found any more: kept last generated value" % (dn, fn))
            lines.append(prev[dn])
        else:
            raise RuntimeError("condition %s of %s not found and no previous value" % (dn, fn))
    # numeric constants through the real headers / the real translation unit
    v = extract.c_eval('#include "MHD_config.h"\n#include "connection.c"\n',
                       [("maxskip", "%d", "(int) MHD_MAX_EMPTY_LINES_SKIP"),
                        ("verlen", "%zu", "(size_t) HTTP_VER_LEN"),
                        ("bufinc", "%zu", "(size_t) MHD_BUF_INC_SIZE"),
                        ("maxfixed", "%zu", "(size_t) MHD_MAX_FIXED_URI_LEN")],
                       extra=["-I" + os.path.join(vlib.REPO, "src/microhttpd"), "-O1", "-ffunction-sections", "-fdata-sections", "-Wl,--gc-sections"])
    lines += ["-- constants (evaluated by compiling connection.c)",
              "def maxEmptyLinesSkip : Nat := %s" % v["maxskip"],
              "def httpVerLen : Nat := %s" % v["verlen"],
              "def bufIncSize : Nat := %s" % v["bufinc"],
              "def maxFixedUriLen : Nat := %s" % v["maxfixed"],
              "end Mhd.Gen.Discipline", ""]
    vlib.write_if_changed(os.path.join(GEN, "Discipline.lean"), "\n".join(lines))
    return all_found


METHODS = ["GET", "HEAD", "POST", "PUT", "DELETE", "CONNECT", "OPTIONS", "TRACE"]


def gen_http():
    prints = []
    for m in METHODS:
        prints.append(("s_" + m, "%s", "MHD_HTTP_METHOD_" + m))
        prints.append(("e_" + m, "%d", "(int) MHD_HTTP_MTHD_" + m))
    prints += [("e_NO", "%d", "(int) MHD_HTTP_MTHD_NO_METHOD"), ("e_OTHER", "%d", "(int) MHD_HTTP_MTHD_OTHER"),
               ("v_INVALID", "%d", "(int) MHD_HTTP_VER_INVALID"), ("v_UNKNOWN", "%d", "(int) MHD_HTTP_VER_UNKNOWN"),
               ("v_TOO_OLD", "%d", "(int) MHD_HTTP_VER_TOO_OLD"), ("v_1_0", "%d", "(int) MHD_HTTP_VER_1_0"),
               ("v_1_1", "%d", "(int) MHD_HTTP_VER_1_1"), ("v_1_2", "%d", "(int) MHD_HTTP_VER_1_2__1_9"),
               ("v_FUTURE", "%d", "(int) MHD_HTTP_VER_FUTURE"),
               ("h_cookie", "%s", "MHD_HTTP_HEADER_COOKIE"), ("h_host", "%s", "MHD_HTTP_HEADER_HOST"),
               ("h_te", "%s", "MHD_HTTP_HEADER_TRANSFER_ENCODING"), ("h_cl", "%s", "MHD_HTTP_HEADER_CONTENT_LENGTH"),
               ("k_header", "%d", "(int) MHD_HEADER_KIND"), ("k_cookie", "%d", "(int) MHD_COOKIE_KIND"),
               ("k_get", "%d", "(int) MHD_GET_ARGUMENT_KIND"), ("k_footer", "%d", "(int) MHD_FOOTER_KIND"),
               ("sz_req", "%zu", "sizeof (struct MHD_HTTP_Req_Header)"), ("sz_res", "%zu", "sizeof (struct MHD_HTTP_Res_Header)"),
               ("c_bad", "%d", "(int) MHD_HTTP_BAD_REQUEST"), ("c_ver", "%d", "(int) MHD_HTTP_HTTP_VERSION_NOT_SUPPORTED"),
               ("c_moved", "%d", "(int) MHD_HTTP_MOVED_PERMANENTLY"), ("c_hdr_large", "%d", "(int) MHD_HTTP_REQUEST_HEADER_FIELDS_TOO_LARGE"),
               ("c_uri_long", "%d", "(int) MHD_HTTP_URI_TOO_LONG"), ("c_content_large", "%d", "(int) MHD_HTTP_CONTENT_TOO_LARGE")]
    v = extract.c_eval('#include "MHD_config.h"\n#include "connection.c"\n', prints,
                       extra=["-I" + os.path.join(vlib.REPO, "src/microhttpd"), "-O1", "-ffunction-sections", "-fdata-sections", "-Wl,--gc-sections"])
    if v["sz_req"] != v["sz_res"]:
        raise RuntimeError("sizeof(MHD_HTTP_Req_Header)=%s but the element is allocated with sizeof(MHD_HTTP_Res_Header)=%s"
                           % (v["sz_req"], v["sz_res"]))

    def lstr(s):
        return '"' + s.replace("\\", "\\\\").replace('"', '\\"') + '"'

    def lbytes(x):
        return "[" + ", ".join(str(c) for c in x.encode("latin1")) + "]"
    out = [extract.HEADER % "src/include/microhttpd.h, src/microhttpd/internal.h (evaluated by compiling connection.c)",
           "namespace Mhd.Gen.Http",
           "/-- standard methods recognised by `parse_http_std_method`, with their `enum MHD_HTTP_Method` value -/",
           "def stdMethods : List (String × Nat) := [" + ", ".join("(%s, %s)" % (lstr(v["s_" + m]), v["e_" + m]) for m in METHODS) + "]",
           "/-- the same with the method strings as bytes (what the model compares; no `String` at run time) -/",
           "def stdMethodBytes : List (List UInt8 × Nat) := [" + ", ".join("(%s, %s)" % (lbytes(v["s_" + m]), v["e_" + m]) for m in METHODS) + "]",
           "def mthdNoMethod : Nat := %s" % v["e_NO"], "def mthdOther : Nat := %s" % v["e_OTHER"],
           "def mthdGet : Nat := %s" % v["e_GET"], "def mthdDelete : Nat := %s" % v["e_DELETE"],
           "def verInvalid : Int := %s" % v["v_INVALID"], "def verUnknown : Int := %s" % v["v_UNKNOWN"],
           "def verTooOld : Int := %s" % v["v_TOO_OLD"], "def ver10 : Int := %s" % v["v_1_0"],
           "def ver11 : Int := %s" % v["v_1_1"], "def ver12_19 : Int := %s" % v["v_1_2"], "def verFuture : Int := %s" % v["v_FUTURE"],
           "def hdrCookie : String := %s" % lstr(v["h_cookie"]), "def hdrHost : String := %s" % lstr(v["h_host"]),
           "def hdrCookieBytes : List UInt8 := %s" % lbytes(v["h_cookie"]), "def hdrHostBytes : List UInt8 := %s" % lbytes(v["h_host"]),
           "def hdrTransferEncodingBytes : List UInt8 := %s" % lbytes(v["h_te"]), "def hdrContentLengthBytes : List UInt8 := %s" % lbytes(v["h_cl"]),
           "def hdrTransferEncoding : String := %s" % lstr(v["h_te"]), "def hdrContentLength : String := %s" % lstr(v["h_cl"]),
           "def kindHeader : Nat := %s" % v["k_header"], "def kindCookie : Nat := %s" % v["k_cookie"],
           "def kindGetArgument : Nat := %s" % v["k_get"], "def kindFooter : Nat := %s" % v["k_footer"],
           "def elemStructSize : Nat := %s" % v["sz_req"],
           "def codeBadRequest : Nat := %s" % v["c_bad"], "def codeVersionNotSupported : Nat := %s" % v["c_ver"],
           "def codeMovedPermanently : Nat := %s" % v["c_moved"], "def codeHeaderFieldsTooLarge : Nat := %s" % v["c_hdr_large"],
           "def codeUriTooLong : Nat := %s" % v["c_uri_long"], "def codeContentTooLarge : Nat := %s" % v["c_content_large"],
           "end Mhd.Gen.Http", ""]
    vlib.write_if_changed(os.path.join(GEN, "Http.lean"), "\n".join(out))
    return v



# ----------------------------------------------------------------------------
# helpers
# ----------------------------------------------------------------------------
from concurrent.futures import ThreadPoolExecutor

ALPHA = bytes([ord('G'), ord('/'), ord('?'), ord('='), ord('&'), ord('%'), 32, 9, 13, 10, 11, 0, ord(':'), ord('a'), ord('1'), ord(';')])
LEVELS = [-3, -2, -1, 0, 1, 2, 3]
WRAP = ["-Wl,--wrap=MHD_pool_deallocate,--wrap=MHD_pool_reallocate,--wrap=MHD_pool_reset,--wrap=MHD_pool_destroy"]
NOSPACE = (413, 414, 431)


def hx(b):
    return b.hex() if b else "-"


def unhx(s):
    if s == "-":
        return b""
    if s == "~":
        return None
    return bytes.fromhex(s)


def build_reqparse():
    srcp = os.path.join(vlib.VERIF, "harness/h_reqparse.c")
    keys = vlib.repo_sources() + [srcp, os.path.join(vlib.VERIF, "harness/common/lp.h")]

    def b():
        objs = vlib.cc_lib_objects("lib_san_h_reqparse", exclude=("connection.c",))
        vlib.cc("h_reqparse", [srcp], libs=["-lgnutls", "-lpthread"] + WRAP, objs=objs)
    return vlib.build_cached("h_reqparse", keys, b)


# ----------------------------------------------------------------------------
# independent reference (oracle side): knows nothing about the Lean model
# ----------------------------------------------------------------------------

HEXD = b"0123456789abcdefABCDEF"


def ref_pct_decode(b, lenient):
    """RFC 3986 percent-decoding.  returns None for a broken encoding (strict)."""
    out = bytearray()
    i = 0
    while i < len(b):
        c = b[i]
        if c == 0x25:
            if i + 2 < len(b) and b[i + 1] in HEXD and b[i + 2] in HEXD:
                out.append(int(b[i + 1:i + 3], 16)); i += 3; continue
            # a '%' that does not start a valid triplet: not a valid encoding at any level (how a
            # lenient decoder passes it through is not specified; outside the oracle's domain)
            return None
        out.append(c); i += 1
    return bytes(out)


def ref_form_decode(b, lenient):
    return ref_pct_decode(b.replace(b"+", b" "), lenient)


def ref_args(q, lenient):
    """application/x-www-form-urlencoded query: list of (key, value|None); None if outside the
    domain of the oracle (empty segment, NUL, broken encoding at a strict level)"""
    if q == b"":
        return []
    if b"\x00" in q:
        return None
    res = []
    segs = q.split(b"&")
    if segs and segs[-1] == b"":
        segs = segs[:-1]          # a trailing '&' adds nothing
    for seg in segs:
        if seg == b"":
            return None
        k, eq, v = seg.partition(b"=")
        dk = ref_form_decode(k, lenient)
        dv = ref_form_decode(v, lenient) if eq else None
        if dk is None or (eq and dv is None):
            return None
        if b"\x00" in dk:
            pass
        res.append((dk, dv))
    return res


TOKEN = set(b"!#$%&'*+-.^_`|~0123456789abcdefghijklmnopqrstuvwxyzABCDEFGHIJKLMNOPQRSTUVWXYZ")
COOKIE_OCTET = set([0x21] + list(range(0x23, 0x2c)) + list(range(0x2d, 0x3b)) + list(range(0x3c, 0x5c)) + list(range(0x5d, 0x7f)))


def ref_lookup(elems, mask, key):
    """the documented look-up: the first element of one of the kinds in `mask` whose name equals `key`
    ignoring ASCII case (same length, never a prefix); elems = [(kind, name, value-or-None)] -> (found, value)"""
    for kind, name, value in elems:
        if (kind & mask) and len(name) == len(key) and name.lower() == key.lower():
            return True, value
    return False, None


def parse_lk(s):
    """'[1:6162>=6364,2:6162>-,8:6162>~!z]' -> [(kind, key, res, zbad)]; res: '-' | '~' | bytes"""
    out = []
    s = s.strip("[]")
    for ent in s.split(",") if s else []:
        zbad = ent.endswith("!z")
        if zbad:
            ent = ent[:-2]
        lhs, rhs = ent.split(">", 1)
        k, keyhex = lhs.split(":", 1)
        res = rhs if rhs in ("-", "~") else bytes.fromhex(rhs[1:])
        out.append((int(k), bytes.fromhex(keyhex) if keyhex not in ("", "-") else b"", res, zbad))
    return out


def ref_cookie_strict(v):
    """RFC 6265 section 4.2.1 cookie-string; list of (name, value) or None when not strictly valid"""
    res = []
    if v == b"":
        return None
    for pair in v.split(b"; "):
        n, eq, val = pair.partition(b"=")
        if not eq or not n or any(c not in TOKEN for c in n):
            return None
        if len(val) >= 2 and val[:1] == b'"' and val[-1:] == b'"':
            val = val[1:-1]
        if any(c not in COOKIE_OCTET for c in val):
            return None
        res.append((n, val))
    return res


# ----------------------------------------------------------------------------
# semantic request model and renderings
# ----------------------------------------------------------------------------

class SemReq:
    def __init__(self, method, path, args, version, fields, cookies, body):
        self.method, self.path, self.args, self.version = method, path, args, version
        self.fields, self.cookies, self.body = fields, cookies, body   # cookies: (index among fields, [(n, v)]) or None

    def describe(self):
        return {"method": self.method.decode("latin1"), "path": self.path.hex(), "args": [(k.hex(), None if v is None else v.hex()) for k, v in self.args],
                "version": self.version.decode(), "fields": [(n.decode("latin1"), v.hex()) for n, v in self.fields],
                "cookies": None if self.cookies is None else [(n.decode("latin1"), v.decode("latin1")) for n, v in self.cookies[1]],
                "body": None if self.body is None else len(self.body)}


FIELD_NAMES = [b"Accept", b"User-Agent", b"X-A", b"x-b", b"X-Long-Header-Name", b"Referer", b"Accept-Language", b"X", b"If-None-Match", b"x_y.z"]
METHODS_GEN = [b"GET", b"GET", b"GET", b"HEAD", b"POST", b"PUT", b"DELETE", b"OPTIONS", b"TRACE", b"PATCH", b"FOO", b"get", b"M-SEARCH"]
VCHARS = bytes(range(0x21, 0x7f))


def rnd_bytes(rng, n, alphabet):
    return bytes(rng.choice(alphabet) for _ in range(n))


def gen_semreq(rng, lvl, small=False, want_body=None):
    method = rng.choice(METHODS_GEN)
    # decoded path: any byte except NUL (the handler gets a C string)
    kind = rng.random()
    if kind < 0.25:
        path = b"/"
    elif kind < 0.7:
        path = b"/" + rnd_bytes(rng, rng.randint(1, 12 if small else 40), b"abcXYZ019/-._~")
    else:
        path = b"/" + rnd_bytes(rng, rng.randint(1, 10), bytes(range(1, 256)))
    args = []
    if rng.random() < 0.6:
        for _ in range(rng.randint(1, 4)):
            kk = rng.random()
            k = rnd_bytes(rng, rng.randint(1, 6), b"abck" if kk < 0.7 else bytes(range(0, 256)))
            r = rng.random()
            if r < 0.25:
                v = None
            elif r < 0.4:
                v = b""
            elif r < 0.8:
                v = rnd_bytes(rng, rng.randint(1, 8), b"xyz0189 +")
            else:
                v = rnd_bytes(rng, rng.randint(1, 6), bytes(range(0, 256)))
            args.append((k, v))
    # names related by prefix / extension / case, in both orders: the look-up API must match a name exactly
    # (caselessly), never by prefix, and return the FIRST such element
    if rng.random() < 0.35:
        base = rnd_bytes(rng, rng.randint(1, 3), b"abk")
        fam = [base, base + rng.choice([b"x", b"2", b"-"]), base.upper(), base[:-1] + base[-1:].upper() + b"x", base[:-1]]
        rng.shuffle(fam)
        for k in fam[:rng.randint(2, 4)]:
            # (an argument with empty name and no value is only representable before another '&': not generated here)
            args.insert(rng.randint(0, len(args)), (k, rng.choice(([None] if k else []) + [b"", rnd_bytes(rng, 2, b"xyz019")])))
    version = rng.choice([b"HTTP/1.1", b"HTTP/1.1", b"HTTP/1.1", b"HTTP/1.0", b"HTTP/1.7"])
    fields = []
    for _ in range(rng.choice([0, 1, 2, 3, 5]) if not small else rng.choice([0, 1, 2])):
        n = rng.choice(FIELD_NAMES)
        r = rng.random()
        if r < 0.1:
            v = b""
        elif r < 0.8:
            v = rnd_bytes(rng, rng.randint(1, 20), b"abcdefgh ,;=/0123456789")
        else:
            v = rnd_bytes(rng, rng.randint(1, 12), VCHARS + b" \t" + bytes(range(0x80, 0x100)))
        fields.append((n, v.strip(b" \t")))
    if rng.random() < 0.3:
        fam = list(rng.choice([[b"Accept-Encoding", b"Accept"], [b"X-Ab", b"X-A", b"x-a"], [b"x-bc", b"x-b", b"X-B"],
                               [b"Refererx", b"Referer", b"Refere"], [b"X-", b"X", b"x"]]))
        rng.shuffle(fam)
        for n in fam[:rng.randint(2, 3)]:
            fields.insert(rng.randint(0, len(fields)), (n, rnd_bytes(rng, rng.randint(0, 5), b"abc019")))
    cookies = None
    if rng.random() < 0.35:
        cl = []
        for _ in range(rng.randint(1, 3)):
            n = rnd_bytes(rng, rng.randint(1, 5), b"abcSID_-")
            v = rnd_bytes(rng, rng.randint(0, 6), b"xyz012345%/:") if rng.random() < 0.85 else b""
            cl.append((n, v))
        if rng.random() < 0.4:
            base = rnd_bytes(rng, rng.randint(1, 3), b"sid")
            fam = [base + b"id", base, base.upper()]
            rng.shuffle(fam)
            for n in fam[:2]:
                cl.insert(rng.randint(0, len(cl)), (n, rnd_bytes(rng, rng.randint(0, 3), b"xyz012")))
        cookies = (rng.randint(0, len(fields)), cl)
        if rng.random() < 0.3:
            # a field whose name merely starts with "Cookie", sent BEFORE the Cookie field: not a cookie source
            fields.insert(0, (rng.choice([b"Cookie2", b"cookiex"]), b"$Version=1"))
            cookies = (cookies[0] + 1, cl)
    need_host = version != b"HTTP/1.0" and (lvl > -3 or rng.random() < 0.7)
    if need_host:
        hpos = rng.randint(0, len(fields))
        fields.insert(hpos, (b"Host", rng.choice([b"h", b"example.org:8080", b"[::1]"])))
        if cookies is not None and hpos < cookies[0]:
            cookies = (cookies[0] + 1, cookies[1])
    body = None
    wb = want_body if want_body is not None else (rng.random() < 0.2)
    if wb and method not in (b"HEAD",):
        body = rnd_bytes(rng, rng.randint(0, 30), bytes(range(256)))
    return SemReq(method, path, args, version, fields, cookies, body)


PATH_SAFE = set(b"abcdefghijklmnopqrstuvwxyzABCDEFGHIJKLMNOPQRSTUVWXYZ0123456789/-._~!$'()*,;:@+=&")
ARG_SAFE = set(b"abcdefghijklmnopqrstuvwxyzABCDEFGHIJKLMNOPQRSTUVWXYZ0123456789/-._~!$'()*,;:@?")


def pct(b, rng, upper=None):
    up = rng.random() < 0.5 if upper is None else upper
    return (b"%%%02X" if up else b"%%%02x") % b


def enc_path(path, rng, canonical):
    out = bytearray()
    for c in path:
        if c in PATH_SAFE and (canonical or rng.random() < 0.9):
            out.append(c)
        else:
            out += pct(c, rng, True if canonical else None)
    return bytes(out)


def enc_arg(b, rng, canonical):
    out = bytearray()
    for c in b:
        if c == 0x20 and (canonical or rng.random() < 0.6):
            out.append(0x2b)
        elif c in ARG_SAFE and (canonical or rng.random() < 0.9):
            out.append(c)
        else:
            out += pct(c, rng, True if canonical else None)
    return bytes(out)


def collapse_ws(b):
    return re.sub(rb"[ \t]+", b" ", b)


def render(req, lvl, rng, canonical=False):
    """wire bytes of one request in a rendering admissible at `lvl` + what the application must observe"""
    CRLF = b"\r\n"

    def eol():
        if canonical or lvl > 0:
            return CRLF
        return CRLF if rng.random() < 0.7 else b"\n"

    def sep():
        if canonical or lvl > 0:
            return b" "
        if lvl == 0:
            return b" " if rng.random() < 0.8 else b"\t"
        r = rng.random()
        if r < 0.6:
            return b" "
        return rnd_bytes(rng, rng.randint(1, 3), b" \t\x0b\x0c")
    lead = b""
    if not canonical and lvl <= 1 and rng.random() < 0.2:
        for _ in range(1 if lvl == 1 else rng.randint(1, 3)):
            lead += eol()
    target = enc_path(req.path, rng, canonical)
    if req.args:
        target += b"?" + b"&".join(enc_arg(k, rng, canonical) + (b"" if v is None else b"=" + enc_arg(v, rng, canonical)) for k, v in req.args)
    head = req.method + sep() + target + sep() + req.version + eol()
    kv = [(8, k, v) for k, v in req.args]
    flds = list(req.fields)
    cookie_kv = []
    if req.cookies is not None:
        idx, cl = req.cookies
        parts = []
        for n, v in cl:
            q = (not canonical) and rng.random() < 0.25
            eqs = b"="
            if not canonical and lvl <= -3 and rng.random() < 0.2:
                eqs = rng.choice([b" =", b"= ", b" = "]) if v or True else b"="
                if v == b"" and eqs != b" =":
                    eqs = b"="
            parts.append(n + eqs + (b'"' + v + b'"' if q else v))
            cookie_kv.append((2, n, v))
        if canonical or lvl > 0:
            cv = b"; ".join(parts)
        else:
            cv = parts[0]
            for p in parts[1:]:
                cv += rng.choice([b"; ", b"; ", b";", b";\t"]) + p
        flds.insert(min(idx, len(flds)), (b"Cookie", cv))
    if req.body is not None:
        flds.insert(rng.randint(0, len(flds)), (b"Content-Length", b"%d" % len(req.body)))
    folded = set()
    for i, (n, v) in enumerate(flds):
        ows1 = b" " if canonical else rng.choice([b" ", b" ", b"", b"  ", b"\t"])
        ows2 = b"" if canonical else rng.choice([b"", b"", b" ", b"\t "])
        vv = v
        if not canonical and lvl <= 0 and n != b"Cookie" and n != b"Content-Length" and b" " in v.strip(b" ") and rng.random() < 0.3:
            j = v.index(b" ", 1) if b" " in v[1:] else -1
            if 0 < j < len(v) - 1:
                vv = v[:j] + eol() + rng.choice([b" ", b"\t"]) + v[j + 1:]
                folded.add(i)
        # whitespace between field name and colon is admitted (and removed from the name) at the most lenient level only
        pre = rng.choice([b"", b"", b" ", b"\t "]) if (not canonical and lvl <= -3) else b""
        head += n + pre + b":" + ows1 + vv + ows2 + eol()
        kv.append((1, n, v))
    head += eol()
    kv += cookie_kv
    expect = {"method": req.method, "url": req.path, "ver": req.version, "kv": kv, "hdrsize": len(head),
              "folded": sorted(folded), "nargs": len(req.args), "body": req.body if req.body is not None else b""}
    return lead + head, (req.body or b""), expect


# ----------------------------------------------------------------------------
# the check
# ----------------------------------------------------------------------------

def sig_strip(s):
    return re.sub(r"[0-9a-f]{6,}", "H", re.sub(r"\d+", "N", s))


class Spec:
    props_module = "Mhd.Props.C02"
    lean_targets = ["Mhd.Props.C02", "drv_conn"]
    required_theorems = ["Mhd.C02.reqline_no_fault", "Mhd.C02.reqline_no_fault_flags", "Mhd.C02.field_no_fault",
                         "Mhd.C02.field_inv_start", "Mhd.C02.field_inv2_start",
                         "Mhd.C02.reqline_split_independent", "Mhd.C02.reqline_any_two_segmentations",
                         "Mhd.C02.field_split_independent", "Mhd.C02.field_any_two_segmentations",
                         "Mhd.C02.strings_stable", "Mhd.C02.reqline_roundtrip_partial", "Mhd.C02.fields_roundtrip_partial",
                         "Mhd.C02.args_no_fault", "Mhd.C02.target_no_fault", "Mhd.C02.target_decoding_exact",
                         "Mhd.C02.target_render_decode", "Mhd.C02.reqline_target_roundtrip_partial",
                         "Mhd.C02.reqline_roundtrip_nc_partial", "Mhd.C02.reqline_post", "Mhd.C02.get_request_line_no_fault",
                         "Mhd.C02.cookie_string_no_fault", "Mhd.C02.cookie_no_fault", "Mhd.C02.every_target_has_rendering",
                         "Mhd.C02.cookies_roundtrip_partial", "Mhd.C02.cookie_header_roundtrip_partial",
                         "Mhd.C02.reqline_target_roundtrip_all_levels_partial", "Mhd.C02.lookup_exact",
                         "Mhd.C02.cookies_only_from_cookie_field", "Mhd.C02.target_buffer_extension", "Mhd.C02.fields_roundtrip_nc_partial"]
    trusted_base = ["Lean 4 kernel", "axioms: propext, Classical.choice, Quot.sound at most (audited per theorem)",
                    "hand-written model lean/Mhd/Model/Req*.lean tied to connection.c/internal.c/mhd_str.c by this run's correspondence",
                    "tools/props/C02.py translator (strictness thresholds, constants regenerated)",
                    "harness/h_reqparse.c, harness/h_conn02.c, gcc, ASan/UBSan"]
    assumptions = ["the request fits the configured memory limit (element allocation succeeds); no-space refusals 413/414/431 are one class",
                   "default unescape callback; configured build (MHD_FAVOR_FAST_CODE, cookies enabled, NDEBUG)",
                   "body decoding (chunked) is C03's; only identity bodies appear in the daemon engine here"]

    def gen(self, ctx):
        notes = []
        gen_discipline(notes)
        gen_http()
        for n in notes:
            ctx.note("translator: " + n)

    def build(self, ctx):
        self.h_white = build_reqparse()
        self.h_daemon = vlib.build_daemon_harness(name="h_conn02", src="harness/h_conn02.c")
        self.driver = vlib.driver_path("drv_conn")

    # ------------------------------------------------------------ white-box
    def run_pair(self, lines, timeout=1200):
        """same script through harness and driver -> (hout, hrc, herr, mout)"""
        hout, hrc, herr = vlib.run_lines(self.h_white, lines, timeout=timeout)
        mout, mrc, merr = vlib.run_lines(self.driver, lines, timeout=timeout)
        return hout, hrc, herr, mout

    def drill(self, op, fixed, pre, maxlen, suf, failures, depth=0):
        """a whole `enum*` line disagreed (or aborted): descend to a single input"""
        single = {"enum": "head", "enumargs": "args", "enumck": "cookie"}[op]
        whole = pre + suf

        def single_lines(data):
            if single == "head":
                lvl, pool, rbsize = fixed
                one = "head %s %s %s %s" % (lvl, pool, rbsize, hx(data))
                bw = "head %s %s %s %s" % (lvl, pool, rbsize, " ".join(hx(bytes([c])) for c in data))
                return [one, bw] if data and len(data) < 60 else [one]
            return ["%s %s %s" % (single, fixed[0], hx(data))]
        for line in single_lines(whole):
            hout, hrc, herr, mout = self.run_pair([line])
            if hrc != 0:
                failures.append(vlib.Failure("sanitizer", "conn/white-box: harness aborted in %s" % single, herr[-2000:], [line], "conn"))
                return True
            if hout != mout:
                failures.append(vlib.Failure("diff", "conn/white-box: model/code differ on %s" % single,
                                             "code: %s | model: %s" % (hout, mout), [line], "conn"))
                return True
        if single == "head" and whole and len(whole) < 60:
            hout, hrc, herr, mout = self.run_pair(single_lines(whole))
            if len(hout) == 2 and not (hout[0] == hout[1] or (hout[0].startswith("err") and hout[1].startswith("err"))):
                failures.append(vlib.Failure("oracle", "conn/white-box: result depends on segmentation",
                                             "one piece: %s | byte by byte: %s" % (hout[0], hout[1]), single_lines(whole), "conn"))
                return True
        if maxlen == 0:
            return False
        for a in ALPHA:
            p2 = pre + bytes([a])
            line = " ".join([op] + [str(x) for x in fixed] + [str(maxlen - 1), hx(p2), hx(suf)])
            hout, hrc, herr, mout = self.run_pair([line])
            bad = hrc != 0 or hout != mout or (hout and "splitdiff=0" not in hout[0])
            if bad and self.drill(op, fixed, p2, maxlen - 1, suf, failures, depth + 1):
                return True
        return False

    def whitebox_enum(self, ctx, failures, stats):
        thorough = ctx.tier == "thorough"
        raw_len = 6 if thorough else 5
        tl = 5 if thorough else 4
        G = b"GET "
        jobs = []   # (op, fixed, pre, maxlen, suf)
        for lvl in LEVELS:
            # levels 2 and 3 differ only in a body flag (chunk extensions): level 3 gets the short bound here
            rl_ = raw_len if lvl != 3 else 3
            t_ = tl if lvl != 3 else 3
            # request line + first field lines, raw strings
            jobs.append(("enum", (lvl, 32768, 64), b"", rl_, b""))
            # the request target position
            jobs.append(("enum", (lvl, 32768, 64), G, t_, b" HTTP/1.1\r\n\r\n"))
            jobs.append(("enum", (lvl, 32768, 64), b"GET", t_, b"HTTP/1.0\n\n"))
            # line end of the request line and what follows
            jobs.append(("enum", (lvl, 32768, 64), b"G /?a HTTP/1.0", t_, b""))
            jobs.append(("enum", (lvl, 32768, 4096), b"G /?a=1 HTTP/1.0", t_, b"\n"))
            # field lines (small read buffer: header tail re-used; large: not)
            jobs.append(("enum", (lvl, 32768, 64), b"G / HTTP/1.0\r\n", t_ + (1 if lvl != 3 else 0), b""))
            jobs.append(("enum", (lvl, 32768, 4096), b"GET / HTTP/1.1\r\n", t_, b"\r\n\r\nGE"))
            jobs.append(("enum", (lvl, 32768, 96), b"G /?a HTTP/1.1\r\nx:1", t_, b"\na:1\n\nZ"))
            jobs.append(("enum", (lvl, 32768, 64), b"G / HTTP/1.0\r\nCookie:", t_, b"\r\n\r\n"))
            # arguments: two behaviours (strict / lenient decoding); cookies: thresholds at -3, -2, 0, 1
            jobs.append(("enumargs", (lvl,), b"", raw_len if lvl in (-1, 0) else 3, b""))
            jobs.append(("enumck", (lvl,), b"", raw_len if lvl in (-3, -2, 0, 1, 2) else 3, b""))
            jobs.append(("enumck", (lvl,), b"a=1", t_, b"a=1"))
        # split every job by first symbol so that the 16 cores are used
        units = []
        for (op, fixed, pre, maxlen, suf) in jobs:
            units.append((op, fixed, pre, 0, suf))
            if maxlen > 0:
                for a in ALPHA:
                    units.append((op, fixed, pre + bytes([a]), maxlen - 1, suf))
        ctx.rng.shuffle(units)   # load balance; results do not depend on the order

        def mk(u):
            op, fixed, pre, maxlen, suf = u
            return " ".join([op] + [str(x) for x in fixed] + [str(maxlen), hx(pre), hx(suf)])
        nbatch = max(1, min(4 * vlib.NCPU, len(units)))
        batches = [units[i::nbatch] for i in range(nbatch)]

        def work(batch):
            lines = [mk(u) for u in batch]
            return batch, self.run_pair(lines)
        with ThreadPoolExecutor(max_workers=vlib.NCPU) as ex:
            results = list(ex.map(work, batches))
        for batch, (hout, hrc, herr, mout) in results:
            for i, u in enumerate(batch):
                h = hout[i] if i < len(hout) else None
                m = mout[i] if i < len(mout) else None
                if h is None:
                    if i == len(hout):   # the op the harness died in
                        if not self.drill(u[0], u[1], u[2], u[3], u[4], failures):
                            failures.append(vlib.Failure("sanitizer", "conn/white-box: harness aborted in %s" % u[0], herr[-2000:], [mk(u)], "conn"))
                    continue
                d = dict(w.split("=", 1) for w in h.split() if "=" in w)
                if h.startswith("digest"):
                    stats["wb_cases"] += int(d["n"]); stats["wb_ok"] += int(d["ok"]); stats["wb_err"] += int(d["err"]); stats["wb_more"] += int(d["more"])
                if h != m or (h.startswith("digest") and d.get("splitdiff") != "0") or h == "bad-op":
                    if not self.drill(u[0], u[1], u[2], u[3], u[4], failures):
                        failures.append(vlib.Failure("diff", "conn/white-box: %s digest differs" % u[0], "code: %s | model: %s" % (h, m), [mk(u)], "conn"))
            if len(failures) > 10:
                break
        stats["wb_enum_ops"] = len(units)
        stats["wb_templates"] = len(jobs) // len(LEVELS)
        stats["wb_maxlen"] = raw_len

    def whitebox_valid(self, ctx, failures, stats):
        """inputs inside the domain of the independent reference: every string of the domain up to a bound
        for arguments; strict cookie strings; evaluated by the oracle AND diffed with the model"""
        lines, expect = [], []
        argalpha = [b"a", b"1", b"=", b"&", b"+", b"%41", b"%2b", b"%zz", b"%"]
        n = 5 if ctx.tier == "thorough" else 4
        for k in range(0, n + 1):
            for combo in itertools.product(argalpha, repeat=k):
                q = b"".join(combo)
                for lvl in (0, -1):
                    ref = ref_args(q, lenient=(lvl < 0))
                    if ref is None:
                        continue
                    lines.append("args %d %s" % (lvl, hx(q)))
                    expect.append(("args", q, lvl, [(8, kk, vv) for kk, vv in ref]))
        ckalpha = [b"a", b"B1", b"=", b"; ", b'"', b"x"]
        for k in range(1, n + 2):
            for combo in itertools.product(ckalpha, repeat=k):
                v = b"".join(combo)
                ref = ref_cookie_strict(v)
                if ref is None:
                    continue
                for lvl in (-3, 0, 2):
                    lines.append("cookie %d %s" % (lvl, hx(v)))
                    expect.append(("cookie", v, lvl, [(2, a, b) for a, b in ref]))
        hout, hrc, herr, mout = self.run_pair(lines)
        if hrc != 0:
            bad = lines[len(hout)] if len(hout) < len(lines) else lines[-1]
            failures.append(vlib.Failure("sanitizer", "conn/white-box: harness aborted in %s" % bad.split()[0], herr[-2000:], [bad], "conn"))
            return
        for line, ex, h, m in zip(lines, expect, hout, mout):
            kind, data, lvl, want = ex
            got = parse_kv(h[h.index("["):]) if "[" in h else None
            stats["wb_valid"] += 1
            if got != want:
                failures.append(vlib.Failure("oracle", "conn/white-box: %s differs from the reference" % kind,
                                             "input %r lvl %d: application would see %r, sent %r" % (data, lvl, got, want), [line], "conn"))
            elif h != m:
                failures.append(vlib.Failure("diff", "conn/white-box: model/code differ on %s" % kind, "code: %s | model: %s" % (h, m), [line], "conn"))
            if len(failures) > 10:
                return

    def whitebox_lookup(self, ctx, failures, stats):
        """MHD_lookup_connection_value_n / MHD_lookup_connection_value on fabricated element lists: every list of up to
        2 (thorough: 3) elements over a pool of names related by prefix / extension / case / NUL, every key of the pool,
        several kind masks; plus random longer lists.  Reference `ref_lookup` + model diff."""
        pool = [b"", b"a", b"A", b"ab", b"aB", b"abc", b"a\x00", b"a\x00b", b"\xe9", b"\xc9"]
        kinds = [1, 8]
        vals = [None, b"", b"v"]
        cases = []
        ents = [(k, n) for k in kinds for n in pool]
        maxn = 3 if ctx.tier == "thorough" else 2
        for n in range(0, maxn + 1):
            for combo in itertools.product(ents, repeat=n):
                els = [(k, nm, vals[(i + len(nm)) % 3]) for i, (k, nm) in enumerate(combo)]
                for key in pool:
                    for mask in (1, 8, 9):
                        cases.append((mask, key, els))
        rng = ctx.rng
        big = pool + [b"Cookie", b"cookie", b"Cookie2", b"COOKIE", b"Cooki", b"Accept", b"Accept-Encoding", b"id", b"idx", b"ID", b"Host", b"Hos", b"hostx"]
        for _ in range(20000 if ctx.tier == "thorough" else 4000):
            els = [(rng.choice([1, 2, 4, 8]), rng.choice(big), rng.choice([None, b"", b"v", b"w\x00w"])) for _ in range(rng.randint(1, 7))]
            key = rng.choice(big) if rng.random() < 0.8 else rng.choice(els)[1] + rng.choice([b"", b"x", b"\x00"])
            cases.append((rng.choice([1, 2, 4, 8, 3, 11, 15]), key, els))
        lines = ["lookup %d %s%s" % (mask, hx(key), "".join(" %d %s %s" % (k, hx(n), "~" if v is None else hx(v)) for k, n, v in els))
                 for mask, key, els in cases]
        hout, hrc, herr, mout = self.run_pair(lines)
        if hrc != 0:
            bad = lines[len(hout)] if len(hout) < len(lines) else lines[-1]
            failures.append(vlib.Failure("sanitizer", "conn/white-box: harness aborted in lookup", herr[-2000:], [bad], "conn"))
            return
        for line, (mask, key, els), h, m in zip(lines, cases, hout, mout):
            found, val = ref_lookup(els, mask, key)
            want = "no" if not found else "yes " + ("~" if val is None else hx(val))
            if b"\x00" not in key:
                z = None if (not found or val is None) else val.split(b"\x00")[0]
                want += " z=" + ("~" if z is None else hx(z))
            stats["wb_lookup"] += 1
            stats["wb_lookup_found"] += 1 if found else 0
            first = next((j for j, e in enumerate(els) if (e[0] & mask) and len(e[1]) == len(key) and e[1].lower() == key.lower()), len(els))
            if any((e[0] & mask) and len(e[1]) > len(key) and e[1][:len(key)].lower() == key.lower() for e in els[:first]):
                stats["wb_lookup_prefix_hazard"] += 1
            if h != want:
                failures.append(vlib.Failure("oracle", "conn/white-box: look-up differs from the reference",
                                             "elements %r mask %d key %r: code answers %r, reference %r" % (els, mask, key, h, want), [line], "conn"))
            elif h != m:
                failures.append(vlib.Failure("diff", "conn/white-box: model/code differ on lookup", "code: %s | model: %s" % (h, m), [line], "conn"))
            if len(failures) > 10:
                return

    # ------------------------------------------------------------ daemon engine
    def daemon_cases(self, ctx, boost):
        rng = ctx.rng
        thorough = ctx.tier == "thorough"
        n = (40000 if thorough else 8000) * (2 if boost else 1)
        arenas = [256, 512, 1024, 1536, 4096, 32768]
        cases = []
        for i in range(n):
            lvl = rng.choice(LEVELS)
            arena = rng.choice(arenas)
            npipe = rng.choice([1, 1, 2, 3])
            mode = rng.random()
            canonical = mode < 0.25
            small = arena <= 1536 or rng.random() < 0.5
            reqs, stream, expects = [], b"", []
            for j in range(npipe):
                r = gen_semreq(rng, lvl, small=small)
                if j < npipe - 1 and r.version == b"HTTP/1.0":
                    r.version = b"HTTP/1.1"      # an HTTP/1.0 exchange ends the connection: only in last position
                    if not any(n == b"Host" for n, _ in r.fields):
                        r.fields.append((b"Host", b"h"))
                w, body, ex = render(r, lvl, rng, canonical=canonical)
                stream += w + body
                expects.append(ex)
                reqs.append(r.describe())
            # size-directed tail shapes (F1 class): last element = argument with / without value, no field lines
            if rng.random() < 0.15:
                tgt = rng.choice([b"/?a=1", b"/p?k", b"/?x=1&y", b"/q?abc=defgh"])
                q = tgt.split(b"?")[1]
                kv = [(8, a.partition(b"=")[0], (a.partition(b"=")[2] if b"=" in a else None)) for a in q.split(b"&")]
                if lvl == -3 and rng.random() < 0.6:
                    # no Host needed at this level: HTTP/1.1 keeps the connection, so it can come first
                    w = b"GET " + tgt + b" HTTP/1.1\r\n\r\n"
                    ex = {"method": b"GET", "url": tgt.split(b"?")[0], "ver": b"HTTP/1.1", "kv": kv, "hdrsize": len(w), "folded": [], "nargs": len(kv), "body": b""}
                    stream = w + stream; expects.insert(0, ex); reqs.insert(0, {"tail-arg": tgt.decode()})
                elif expects[-1]["ver"] != b"HTTP/1.0":
                    w = b"GET " + tgt + b" HTTP/1.0\r\n\r\n"
                    ex = {"method": b"GET", "url": tgt.split(b"?")[0], "ver": b"HTTP/1.0", "kv": kv, "hdrsize": len(w), "folded": [], "nargs": len(kv), "body": b""}
                    # followed by bytes that must never be parsed as a request: they would overwrite a re-used header tail
                    stream = stream + w + b"ZZZZZZZZZZZZZZZZ"; expects.append(ex); reqs.append({"tail-arg": tgt.decode()})
            L = len(stream)
            segk = rng.random()
            if segk < 0.25 or L < 2:
                cuts = []
            elif segk < 0.45 and L <= 400:
                cuts = list(range(1, L))            # byte by byte
            elif segk < 0.75:
                cuts = [rng.randint(1, L - 1)]      # one 2-way split
            else:
                cuts = sorted(set(rng.randint(1, L - 1) for _ in range(rng.randint(2, 6))))
            cases.append({"lvl": lvl, "arena": arena, "stream": stream, "cuts": cuts, "expects": expects, "reqs": reqs, "canonical": canonical})
        # all 2-way splits of a few short pipelines (quick: 6, thorough: 40), per level
        for lvl in LEVELS:
            for _ in range(6 if thorough else 1):
                r1 = gen_semreq(rng, lvl, small=True, want_body=False)
                if r1.version == b"HTTP/1.0":
                    r1.version = b"HTTP/1.1"
                    if not any(n == b"Host" for n, _ in r1.fields):
                        r1.fields.append((b"Host", b"h"))
                w1, b1, e1 = render(r1, lvl, rng)
                w2 = b"GET /?z HTTP/1.0\r\n\r\n"
                e2 = {"method": b"GET", "url": b"/", "ver": b"HTTP/1.0", "kv": [(8, b"z", None)], "hdrsize": len(w2), "folded": [], "nargs": 1, "body": b""}
                stream = w1 + w2
                if len(stream) > 220:
                    continue
                for arena in (1024, 32768):
                    for c in range(1, len(stream)):
                        cases.append({"lvl": lvl, "arena": arena, "stream": stream, "cuts": [c], "expects": [e1, e2],
                                      "reqs": [r1.describe(), {"tail-arg": "/?z"}], "canonical": False})
        return cases

    def daemon_script(self, idx, case):
        s, cuts = case["stream"], case["cuts"]
        lines = ["case %d" % idx, "cfg mode=select mem=%d lvl=%d" % (case["arena"], case["lvl"]), "start", "arrive 0 1"]
        prev = 0
        for c in cuts + [len(s)]:
            if c > prev:
                lines.append("send 0 " + hx(s[prev:c]))
                lines.append("round")
            prev = c
        lines += ["rounds 8", "cclose 0", "rounds 2", "stop"]
        return lines

    def run_daemon_batch(self, batch):
        """batch: list of (idx, case) -> per case list of output lines, rc, stderr"""
        lines = []
        for idx, case in batch:
            lines += self.daemon_script(idx, case)
        hout, hrc, herr = vlib.run_lines(self.h_daemon, lines, timeout=1200)
        per, cur = {}, None
        for l in hout:
            if l.startswith("case "):
                cur = int(l.split()[1]); per[cur] = []
            elif cur is not None:
                per[cur].append(l)
        mlines = ["stream %d %d %s" % (case["lvl"], case["arena"], hx(case["stream"])) for idx, case in batch]
        mout, mrc, merr = vlib.run_lines(self.driver, mlines, timeout=1200)
        return per, hrc, herr, mout

    def judge_daemon(self, idx, case, out, model_line, failures, stats):
        """oracle (semantic expectation) + model diff for one exchange"""
        script = self.daemon_script(idx, case)
        inp = {"script": script, "lvl": case["lvl"], "arena": case["arena"], "requests": case["reqs"]}
        seen, bodies, statuses, completed = [], {}, [], []
        wire = b""
        for l in out:
            if l.startswith("unstable"):
                # a request that does not fit is answered from a reset pool (413/414/431): its strings are gone by
                # the time of the completion callback — outside the property ("as long as the request fits")
                at_completed = " at=completed " in l
                nospace_reply = any(re.search(rb"HTTP/1\.[01] (413|414|431) ", bytes.fromhex(x.split()[2])) for x in out if x.startswith("wire c=0 "))
                if not (at_completed and nospace_reply):
                    failures.append(vlib.Failure("oracle", "conn/daemon: a string shown to the handler changed before completion", l, inp, "conn"))
                    return
            if l.startswith("handler c=0"):
                d = dict(w.split("=", 1) for w in l.split()[1:] if "=" in w)
                if d["phase"] == "first":
                    seen.append(d)
                elif d["phase"] == "upload":
                    bodies[int(d["r"])] = bodies.get(int(d["r"]), b"") + (unhx(d["up"]) or b"")
            elif l.startswith("wire c=0 "):
                wire += bytes.fromhex(l.split()[2])
            elif l.startswith("completed c=0"):
                completed.append(int(l.split("code=")[1].split()[0]))
        statuses = [int(x) for x in re.findall(rb"HTTP/1\.[01] (\d\d\d) ", wire)]
        exps = case["expects"]
        model = model_line.split(" | ") if model_line is not None else []
        # ---- oracle: the application sees exactly what was sent, for every request that was presented
        for i, d in enumerate(seen):
            if i >= len(exps):
                failures.append(vlib.Failure("oracle", "conn/daemon: handler called for a request that was not sent", str(d), inp, "conn"))
                return
            ex = exps[i]
            got_kv = parse_kv(d["kv"])
            want_kv = list(ex["kv"])
            ok = (unhx(d["method"]) == ex["method"] and unhx(d["url"]) == ex["url"] and unhx(d["ver"]) == ex["ver"]
                  and int(d["hdrsize"]) == ex["hdrsize"] and len(got_kv) == len(want_kv))
            if ok:
                for j, (g, w) in enumerate(zip(got_kv, want_kv)):
                    fj = j - ex["nargs"]
                    if g != w and not (fj in ex["folded"] and g[0] == w[0] and g[1] == w[1] and collapse_ws(g[2] or b"") == collapse_ws(w[2] or b"")):
                        ok = False
            if ok and bodies.get(i, b"") != ex["body"] and (i < len(seen) - 1 or statuses[i:i + 1] == [200]):
                ok = False
            if ok:
                # the look-up API: every probe the harness made must give the FIRST element of that kind whose name
                # equals the key caselessly (NULL value / empty value / not found told apart); never a prefix match
                probes = parse_lk(d.get("lk", "[]"))
                if want_kv and not probes:
                    failures.append(vlib.Failure("oracle", "conn/daemon: no look-up probes in the handler log", str(d), inp, "conn"))
                    return
                for k, key, res, zbad in probes:
                    found, _ = ref_lookup(want_kv, k, key)
                    idxs = [j for j, w in enumerate(want_kv) if (w[0] & k) and len(w[1]) == len(key) and w[1].lower() == key.lower()]
                    exp = "-" if not found else ("~" if got_kv[idxs[0]][2] is None else got_kv[idxs[0]][2])
                    stats["lk_probes"] += 1
                    stats["lk_found"] += 1 if found else 0
                    hazard = any((w[0] & k) and len(w[1]) > len(key) and w[1][:len(key)].lower() == key.lower()
                                 for w in (want_kv[:idxs[0]] if idxs else want_kv))
                    stats["lk_prefix_hazard"] += 1 if hazard else 0
                    if res != exp or zbad:
                        failures.append(vlib.Failure("oracle", "conn/daemon: look-up API result differs from the request sent (lvl=%d)" % case["lvl"],
                                                     "request %d: look-up kind=%d key=%r gives %r%s, the request has %r ; elements sent: %r"
                                                     % (i, k, key, res, " (and MHD_lookup_connection_value disagrees with _n)" if zbad else "", exp, want_kv),
                                                     inp, "conn"))
                        return
            stats["dm_requests"] += 1
            if not ok:
                failures.append(vlib.Failure("oracle", "conn/daemon: handler view differs from the request sent (lvl=%d)" % case["lvl"],
                                             "request %d: sent %r ; handler line: %s ; body seen %r" % (i, {k: ex[k] for k in ("method", "url", "ver", "kv", "hdrsize", "body")}, d, bodies.get(i)),
                                             inp, "conn"))
                return
        # every valid request must be presented unless it did not fit (one class for 413/414/431) or the connection was closed by a no-space error
        if len(seen) < len(exps):
            nospace = [c for c in statuses if c in NOSPACE]
            total = len(case["stream"])
            small_total = total + 80 * sum(len(e["kv"]) + 1 for e in exps) < case["arena"] // 4
            died_on_reply = bool(completed) and completed[-1] != 0 and case["arena"] <= 1536   # the reply did not fit the arena either
            if (case["arena"] >= 4096 and small_total) or not (nospace or died_on_reply):
                failures.append(vlib.Failure("oracle", "conn/daemon: a valid request was not presented to the handler (lvl=%d)" % case["lvl"],
                                             "sent %d requests, handler saw %d, reply statuses %s" % (len(exps), len(seen), statuses), inp, "conn"))
                return
            stats["dm_nospace"] += 1
        # ---- model diff (canonical tier)
        mi = 0
        for i, d in enumerate(seen):
            m = model[i] if i < len(model) else None
            want = "req m=%s u=%s v=%s kv=%s hs=%s" % (d["method"], d["url"], d["ver"], d["kv"], d["hdrsize"])
            if m is None or not m.startswith(want + " "):
                failures.append(vlib.Failure("diff", "conn/daemon: model prediction differs from the handler log",
                                             "request %d: code: %s | model: %s" % (i, want, m), inp, "conn"))
                return
        if len(seen) == len(exps) and len(model) > len(seen) and not all(x.startswith("more") for x in model[len(seen):]):
            failures.append(vlib.Failure("diff", "conn/daemon: model predicts more requests than the handler saw",
                                         "model: %s" % model[len(seen):], inp, "conn"))
        stats["dm_cases"] += 1
        stats["dm_by_level"][str(case["lvl"])] = stats["dm_by_level"].get(str(case["lvl"]), 0) + 1
        stats["dm_by_arena"][str(case["arena"])] = stats["dm_by_arena"].get(str(case["arena"]), 0) + 1

    def daemon_engine(self, ctx, boost, failures, stats, extra_cases=()):
        cases = list(extra_cases) + self.daemon_cases(ctx, boost)
        indexed = list(enumerate(cases))
        nb = max(1, min(2 * vlib.NCPU, len(indexed) // 20 + 1))
        batches = [indexed[i::nb] for i in range(nb)]
        with ThreadPoolExecutor(max_workers=vlib.NCPU) as ex:
            results = list(ex.map(self.run_daemon_batch, batches))
        for batch, (per, hrc, herr, mout) in zip(batches, results):
            if hrc != 0:
                # the case after the last complete one aborted the harness
                done = set(per.keys())
                culprit = None
                for idx, case in batch:
                    if idx not in done or not any(l == "stopped" for l in per.get(idx, [])):
                        culprit = (idx, case); break
                if culprit:
                    idx, case = culprit
                    failures.append(vlib.Failure("sanitizer", "conn/daemon: harness aborted (sanitizer/crash) lvl=%d" % case["lvl"], herr[-2500:],
                                                 {"script": self.daemon_script(idx, case), "lvl": case["lvl"], "arena": case["arena"], "requests": case["reqs"]}, "conn"))
            for k, (idx, case) in enumerate(batch):
                if idx in per and any(l == "stopped" for l in per[idx]):
                    self.judge_daemon(idx, case, per[idx], mout[k] if k < len(mout) else None, failures, stats)
                if len(failures) > 20:
                    return cases
        return cases

    # ------------------------------------------------------------ explore
    def explore(self, ctx, boost):
        failures = []
        stats = {"wb_cases": 0, "wb_ok": 0, "wb_err": 0, "wb_more": 0, "wb_valid": 0, "wb_lookup": 0, "wb_lookup_found": 0,
                 "wb_lookup_prefix_hazard": 0, "lk_probes": 0, "lk_found": 0, "lk_prefix_hazard": 0,
                 "dm_cases": 0, "dm_requests": 0, "dm_nospace": 0,
                 "dm_by_level": {}, "dm_by_arena": {}}
        # corpus first
        corpus_cases = []
        cdir = os.path.join(vlib.VERIF, "corpus", "conn")
        ncorp = 0
        if os.path.isdir(cdir):
            for f in sorted(os.listdir(cdir)):
                if f.startswith("C02") and f.endswith(".json"):
                    c = json.load(open(os.path.join(cdir, f)))
                    if c.get("kind") == "daemon":
                        corpus_cases.append(case_from_json(c)); ncorp += 1
                    elif c.get("kind") == "white":
                        hout, hrc, herr, mout = self.run_pair(c["lines"]); ncorp += 1
                        if hrc != 0:
                            failures.append(vlib.Failure("sanitizer", "conn/white-box: harness aborted on corpus " + f, herr[-2000:], c["lines"], "conn"))
                        elif hout != mout:
                            failures.append(vlib.Failure("diff", "conn/white-box: model/code differ on corpus " + f, "code %s | model %s" % (hout, mout), c["lines"], "conn"))
        t0 = ctx.elapsed()
        self.whitebox_enum(ctx, failures, stats)
        ctx.note("white-box enumeration: %d cases (x2 feeding modes) in %.1fs, %d failures" % (stats["wb_cases"], ctx.elapsed() - t0, len(failures)))
        t0 = ctx.elapsed()
        self.whitebox_valid(ctx, failures, stats)
        ctx.note("white-box reference-domain cases: %d in %.1fs" % (stats["wb_valid"], ctx.elapsed() - t0))
        t0 = ctx.elapsed()
        self.whitebox_lookup(ctx, failures, stats)
        ctx.note("white-box look-up cases: %d (%d found, %d with an earlier element that has the key as a proper prefix) in %.1fs"
                 % (stats["wb_lookup"], stats["wb_lookup_found"], stats["wb_lookup_prefix_hazard"], ctx.elapsed() - t0))
        t0 = ctx.elapsed()
        cases = self.daemon_engine(ctx, boost, failures, stats, corpus_cases)
        ctx.note("daemon engine: %d exchanges, %d requests in %.1fs, %d failures; look-up probes %d (%d found, %d prefix-hazard)"
                 % (stats["dm_cases"], stats["dm_requests"], ctx.elapsed() - t0, len(failures), stats["lk_probes"], stats["lk_found"], stats["lk_prefix_hazard"]))
        for f in failures:
            f.signature = sig_strip(f.signature)
        sample = cases[len(cases) // 2] if cases else None
        cov = {"evaluations": stats["wb_cases"] * 2 + stats["wb_valid"] + stats["wb_lookup"] + stats["dm_cases"],
               "distinct_nontrivial": stats["wb_ok"] + stats["wb_valid"] + stats["wb_lookup_found"] + stats["dm_requests"],
               "rule": "white-box: every string over the 16-symbol alphabet up to the stated length inside each template, fed in one piece and byte by byte "
                       "(model/code digest + in-harness split-independence oracle + ASan poison beyond received bytes); distinct_nontrivial counts "
                       "inputs on which a parser completed successfully + reference-domain cases + requests presented to the handler of the real daemon",
               "samples": [{"white-box": "enum <lvl> 32768 64 %d - -" % stats.get("wb_maxlen", 0)},
                           {"daemon": None if sample is None else {"lvl": sample["lvl"], "arena": sample["arena"], "stream": sample["stream"].hex()[:400], "cuts": sample["cuts"][:20]}}],
               "exhaustive": False,
               "bounded_exhaustive": {"alphabet": ALPHA.hex(), "max_len_raw": stats.get("wb_maxlen"), "templates_per_level": stats.get("wb_templates"),
                                      "levels": LEVELS, "enum_ops": stats.get("wb_enum_ops")},
               "outcomes": {k: v for k, v in stats.items() if not isinstance(v, dict)},
               "daemon_by_level": stats["dm_by_level"], "daemon_by_arena": stats["dm_by_arena"], "corpus": ncorp}
        return failures, cov


def parse_kv(s):
    """'[8:78=31,1:41=~]' -> [(8, b'x', b'1'), (1, b'A', None)]"""
    s = s.strip()
    if s.endswith("]"):
        s = s[:s.rindex("]")]
    s = s.lstrip("[")
    out = []
    if not s:
        return out
    for item in s.split(","):
        k, _, rest = item.partition(":")
        key, _, val = rest.partition("=")
        out.append((int(k), unhx(key), unhx(val)))
    return out


def case_from_json(c):
    def ub(x):
        return bytes.fromhex(x)
    exps = []
    for e in c["expects"]:
        exps.append({"method": ub(e["method"]), "url": ub(e["url"]), "ver": ub(e["ver"]),
                     "kv": [(k, ub(a), None if b is None else ub(b)) for k, a, b in e["kv"]], "hdrsize": e["hdrsize"],
                     "folded": e.get("folded", []), "nargs": e["nargs"], "body": ub(e["body"])})
    return {"lvl": c["lvl"], "arena": c["arena"], "stream": ub(c["stream"]), "cuts": c["cuts"], "expects": exps, "reqs": c.get("reqs", []),
            "canonical": False}


def case_to_json(case):
    return {"kind": "daemon", "lvl": case["lvl"], "arena": case["arena"], "stream": case["stream"].hex(), "cuts": case["cuts"],
            "reqs": case["reqs"],
            "expects": [{"method": e["method"].hex(), "url": e["url"].hex(), "ver": e["ver"].hex(),
                         "kv": [(k, a.hex(), None if b is None else b.hex()) for k, a, b in e["kv"]], "hdrsize": e["hdrsize"],
                         "folded": e["folded"], "nargs": e["nargs"], "body": e["body"].hex()} for e in case["expects"]]}


def replay(ctx, path):
    """re-run one stored failing input through harness, driver and oracle; print the three verdicts"""
    r = json.load(open(path))
    sp = Spec(); sp.gen(ctx); vlib.lake_build(sp.lean_targets); sp.build(ctx)
    inp = r.get("input")
    rc = 0
    if isinstance(inp, dict) and "script" in inp:
        hout, hrc, herr = vlib.run_lines(sp.h_daemon, inp["script"])
        print("harness rc=%d" % hrc)
        for l in hout:
            if l.startswith(("handler", "unstable", "wire", "protocol")):
                print("  " + l[:400])
        if hrc != 0:
            print("sanitizer/abort:\n" + herr[-3000:]); rc = 1
        if any(l.startswith("unstable") for l in hout):
            print("oracle: a string shown to the handler changed before completion"); rc = 1
        print("detail recorded: " + str(r.get("detail"))[:1500])
        stream = "".join(l.split()[2] for l in inp["script"] if l.startswith("send 0 ") and l.split()[2] != "-")
        mout, _, _ = vlib.run_lines(sp.driver, ["stream %d %d %s" % (inp["lvl"], inp["arena"], stream)])
        print("model: " + " ".join(mout)[:2000])
        if r.get("kind") in ("oracle", "diff"):
            rc = 1 if r.get("kind") == "oracle" else rc
    elif isinstance(inp, list):
        hout, hrc, herr, mout = sp.run_pair(inp)
        for a, b, c in zip(inp, hout + ["<aborted>"] * len(inp), mout):
            print("op:    %s\n code:  %s\n model: %s" % (a, b, c))
        if hrc != 0:
            print("sanitizer/abort:\n" + herr[-3000:]); rc = 1
        if hout != mout:
            rc = 1
        if len(hout) == 2 and inp[0].startswith("head") and hout[0] != hout[1] and not (hout[0].startswith("err") and hout[1].startswith("err")):
            print("oracle: result depends on segmentation"); rc = 1
    print("replay verdict: %s" % ("VIOLATION reproduced" if rc else "not reproduced"))
    return rc
