"""C18 — threaded modes: no harmful data race, no deadlock, clean stop under load.  Engine `locks`.

PARTIAL by design (DESIGN.md §3 C18).  Three parts, kept apart in the evidence:

 (A) translator  tools/locktable.py: clang-14 JSON AST of daemon.c, connection.c, response.c,
     digestauth.c -> lean/Mhd/Gen/Locks.lean (lock / shared-field / role table + certificates).
 (B) proof       lean/Mhd/Props/C18.lean: `decide +kernel` over the WHOLE regenerated table (lock order
     ranked => no cycle of waiting threads in the abstract thread model; no lock held while blocking;
     lockset discipline; callbacks; stop sequencing) + the shutdown state machine theorems.
 (C) dynamic validation — NOT a proof —: ThreadSanitizer build of the library + harness/h_thr.c,
     M client threads x {select,poll,epoll} x {1 thread, pool of 4, thread-per-connection}, concurrent
     MHD_add_connection (from every client thread), cross-thread resume, responses shared by all connections
     (static buffer, content-reader callback, file descriptor), digest auth on an 8-slot nonce table (wrong and
     right answers), per-IP accounting with up to 32 client addresses, MHD_stop_daemon under load with a
     watchdog; deterministic scenarios "pinadd", "quietresume" and "stagger" (thread-per-connection stop with
     busy handlers released in all 6 orders: every thread joined, one closed notification each, no library panic).  Every TSan report is classified against the table:
     a data race whose two racing locations are accesses to a field of the *benign set* (the very list
     `benignFields` of lean/Mhd/Model/Locks.lean, parsed from that file) is counted and tolerated;
     anything else (race on another field, race at a location the table does not know, lock-order
     inversion, leak, crash) fails the check with the report as replay; a watchdog expiry fails it as a
     deadlock; inconsistent notification accounting fails it as an unclean stop.
"""
import collections, json, os, re, subprocess, sys, time
from concurrent.futures import ThreadPoolExecutor

import vlib
sys.path.insert(0, os.path.dirname(os.path.dirname(os.path.abspath(__file__))))
import locktable

TSAN_FLAGS = ["-fsanitize=thread", "-fno-omit-frame-pointer"]
HARNESS = "h_thr"
COMBOS = [("select", "1"), ("select", "4"), ("poll", "1"), ("poll", "4"), ("epoll", "1"), ("epoll", "4"),
          ("select", "tpc"), ("poll", "tpc")]
FEATURES = "listen,add,susp,auth,cb,post,opt,abort,fd,ips"
TSAN_OPTIONS = "halt_on_error=0 exitcode=66 second_deadlock_stack=1 report_signal_unsafe=0 history_size=7"

# mirror of lean/Mhd/Model/Locks.lean (diagnostics only; the Lean theorems are the authority)
DESIGNATED = {
    "conn_list": ["cleanup_connection_mutex"], "susp_list": ["cleanup_connection_mutex"],
    "cleanup_list": ["cleanup_connection_mutex"], "tmo_list": ["cleanup_connection_mutex"],
    "tmo_links": ["cleanup_connection_mutex"], "conn_links": ["cleanup_connection_mutex", "new_connections_mutex"],
    "new_list": ["new_connections_mutex"], "per_ip_count": ["per_ip_connection_mutex"], "nnc": ["nnc_lock"],
    "reference_count": ["response_mutex"], "c_resuming": ["cleanup_connection_mutex"],
    "c_suspended": ["cleanup_connection_mutex"], "c_thread_joined": ["cleanup_connection_mutex"],
    "urh_was_closed": ["cleanup_connection_mutex"], "urh_clean_ready": ["cleanup_connection_mutex"],
    "conn_count": ["cleanup_connection_mutex"], "d_resuming": ["cleanup_connection_mutex"],
    "have_new": ["new_connections_mutex"]}
FRESH = {("reference_count", n) for n in
         ("MHD_create_response_from_callback", "MHD_create_response_from_buffer_with_free_callback_cls",
          "MHD_create_response_from_iovec", "MHD_create_response_empty", "MHD_create_response_for_upgrade")} \
        | {("resp_block", n) for n in ("MHD_create_response_from_buffer_with_free_callback_cls",
                                       "MHD_create_response_from_iovec", "MHD_create_response_from_callback")} \
        | {("urh_clean_ready", "MHD_response_execute_upgrade_"), ("urh_clean_ready", "thread_main_handle_connection")}
KNOWN_UNPROTECTED = lambda f, w: (f == "c_suspended" and not w) or f == "urh_was_closed"


def benign_fields():
    """the benign set, read from the Lean model so that both sides use one list"""
    src = open(os.path.join(vlib.LEAN, "Mhd/Model/Locks.lean")).read()
    m = re.search(r"def benignFields : List Field :=\s*\[([^\]]*)\]", src)
    if not m:
        raise RuntimeError("benignFields not found in Mhd/Model/Locks.lean")
    return [x.strip().lstrip(".") for x in m.group(1).split(",") if x.strip()]


class Table:
    """python view of the regenerated table, for classification and diagnostics"""

    def __init__(self, world, data):
        self.world = world
        self.names, self.ev, self.eMust, self.eMay, _ = data
        self.eG = world.entry_guard
        self.benign = set(benign_fields())
        self.at = collections.defaultdict(list)       # (file, line) -> [(field, write, must, fn)]
        for n in self.names:
            fi = world.defs[n]
            for e in self.ev[n]:
                if e["kind"] == "acc":
                    self.at[(fi.file, e["line"])].append((e["field"], e["write"], self.eff_must(n, e), n))

    def eff_must(self, n, e):
        return (set(self.eMust[n]) - set(e["rel"])) | set(e["must"])

    def eff_may(self, n, e):
        return (set(self.eMay[n]) - set(e["relm"])) | set(e["may"])

    def eff_g(self, n, e):
        return e["g"] if e["g"] != "any" else self.eG[n]

    def protected(self, n, e):
        f, fi = e["field"], self.world.defs[n]
        if f in self.benign:
            return "benign"
        if set(DESIGNATED.get(f, [])) & self.eff_must(n, e):
            return "mutex"
        if fi.role in ("daemonThread", "startup"):
            return "daemon-thread"
        if fi.role in ("connThread", "daemonOrTpcAny") and (self.eff_g(n, e) == "nonTpcOnly" or f in ("eready_list", "eready_links")):
            return "daemon-thread"
        if (f, n) in FRESH:
            return "fresh-object"
        if f == "resp_block_nocrc" or (f == "resp_block" and "response_mutex" in self.eff_may(n, e)):
            return "response-mutex(guarded)"
        return None

    def static_report(self):
        """independent re-statement of the table checks (lock-order cycle by DFS, blocking with a lock
        held, unprotected accesses) with file:line — for the evidence and for replays"""
        edges = collections.defaultdict(set)
        edge_sites = {}
        for n in self.names:
            fi = self.world.defs[n]
            for e in self.ev[n]:
                if e["kind"] == "lock":
                    for h in self.eff_may(n, e):
                        edges[h].add(e["lock"])
                        edge_sites.setdefault((h, e["lock"]), "%s:%d %s" % (fi.file, e["line"], n))
        cyc = []
        color = {}

        def dfs(u, path):
            color[u] = 1
            for v in sorted(edges.get(u, ())):
                if color.get(v) == 1:
                    cyc.append(path[path.index(v):] + [v] if v in path else [u, v])
                elif v not in color:
                    dfs(v, path + [v])
            color[u] = 2
        for u in sorted(edges):
            if u not in color:
                dfs(u, [u])
        blocking, unprot, known_unprot, cls = [], [], [], collections.Counter()
        per_field = collections.defaultdict(collections.Counter)
        for n in self.names:
            fi = self.world.defs[n]
            for e in self.ev[n]:
                if e["kind"] in ("join", "wait") and self.eff_may(n, e):
                    blocking.append("%s:%d %s %s with %s possibly held" % (fi.file, e["line"], n, e["kind"], sorted(self.eff_may(n, e))))
                if e["kind"] == "acc":
                    p = self.protected(n, e)
                    per_field[e["field"]][p or "UNPROTECTED"] += 1
                    cls[p or "UNPROTECTED"] += 1
                    if p is None:
                        s = "%s:%d %s %s %s role=%s guard=%s held=%s" % (
                            fi.file, e["line"], n, "write" if e["write"] else "read", e["field"], fi.role,
                            self.eff_g(n, e), sorted(self.eff_must(n, e)))
                        (known_unprot if KNOWN_UNPROTECTED(e["field"], e["write"]) else unprot).append(s)
        flag_unpaired = []
        for n in self.names:
            fi = self.world.defs[n]
            for e in self.ev[n]:
                if e["kind"] == "acc" and e["field"] == "have_new" and e["write"] and \
                        "new_connections_mutex" not in self.eff_must(n, e) and fi.role != "startup":
                    flag_unpaired.append("%s:%d %s writes daemon->have_new without new_connections_mutex" % (fi.file, e["line"], n))
        resume_bad = ["%s:%d result of resume_suspended_connections() does not reach the wait timeout" % (self.world.defs[a].file, b)
                      for a, b, tpc, feeds in self.world.resume_sites if not tpc and not feeds]
        PINNED = {("close_all_connections", "susp_list")}
        loops = getattr(self.world, "unlock_loops", [])
        cursor_bad = ["%s:%d %s: loop over %s releases %s in its body and continues from %s" % (
            self.world.defs[fn].file, line, fn, lst, lk_, {"carriedValue": "a list position read before the unlock",
                                                           "freshLinkOfCarriedNode": "a link of a node pointer carried across the unlock"}[kind])
            for fn, line, lk_, lst, kind in loops
            if kind != "rereadHead" and not (kind == "freshLinkOfCarriedNode" and (fn, lst) in PINNED)]
        for need in (("close_all_connections", "conn_list"), ("MHD_cleanup_connections", "cleanup_list")):
            if not any((fn, lst) == need for fn, _l, _k, lst, _kind in loops):
                cursor_bad.append("%s: the loop over %s that releases the mutex around the join was not found" % need)
        wr = set(getattr(self.world, "lock_wrappers", []))
        exits_bad = ["%s:%d %s can return with %s %s held%s" % (
            self.world.defs[fn].file, ln, fn, lk_, "certainly" if must else "possibly",
            "" if any(e["kind"] == "lock" and e["lock"] == lk_ for e in self.world.defs[fn].events) else " (left held by a callee)")
            for fn, lk_, ln, must in getattr(self.world, "exits_holding", []) if (fn, lk_) not in wr]
        # the function that takes the lock itself first: that is where the unlock is missing
        exits_bad.sort(key=lambda x: "(left held by a callee)" in x)
        return {"exits_holding_lock": exits_bad, "lock_wrappers": sorted("%s %s" % x for x in wr),
                "unlock_loops": ["%s:%d %s %s %s" % x for x in loops], "cursor_carried": cursor_bad,
                "have_new_unpaired": flag_unpaired, "resume_result_discarded": resume_bad,
                "resume_wait_sites": ["%s:%d tpcOnly=%s feeds=%s" % x for x in self.world.resume_sites],
                "lock_order_edges": sorted("%s -> %s  (%s)" % (a, b, edge_sites[(a, b)]) for a in edges for b in edges[a]),
                "lock_order_cycles": [" -> ".join(c) for c in cyc],
                "blocking_with_lock": blocking, "unprotected_accesses": unprot,
                "known_unprotected_accesses": known_unprot, "access_classes": dict(cls),
                "access_classes_by_field": {f: dict(c) for f, c in per_field.items()}}


# ------------------------------------------------------------------ TSan report parsing

REPORT_RE = re.compile(r"^WARNING: ThreadSanitizer: ([^\(\n]+?)\s*\(pid=\d+\)\s*$", re.M)


def split_reports(stderr):
    out = []
    pos = [m.start() for m in REPORT_RE.finditer(stderr)]
    for i, p in enumerate(pos):
        end = stderr.find("\n==================", p)
        nxt = pos[i + 1] if i + 1 < len(pos) else len(stderr)
        out.append(stderr[p:min(end if end >= 0 else nxt, nxt)])
    return out


def lib_frame(block):
    """first frame of a stack block that lies in the library sources -> (file basename, line, function)"""
    for m in re.finditer(r"#\d+ (\S+) (\S+?):(\d+)(?::\d+)? \(", block):
        fn, path, line = m.group(1), m.group(2), int(m.group(3))
        if "/src/microhttpd/" in path:
            return os.path.basename(path), line, fn
    return None


def classify(report, table):
    """-> (class, signature, info).  class: 'benign' | 'fail'"""
    kind = REPORT_RE.search(report).group(1).strip()
    if kind != "data race":
        return "fail", "tsan: " + kind, {"kind": kind}
    blocks = re.split(r"\n(?=  (?:Previous )?(?:[Aa]tomic )?(?:[Rr]ead|[Ww]rite) of size )", report)
    acc = [b for b in blocks if re.match(r"  (?:Previous )?(?:[Aa]tomic )?(?:[Rr]ead|[Ww]rite) of size ", b)]
    sides = []
    lost = 0
    for b in acc[:2]:
        b = re.split(r"\n  (?:Location is|Mutex M|Thread T|As if synchronized)", b)[0]
        fr = lib_frame(b)
        held = "(mutexes:" in b.splitlines()[0]
        if fr is None and "failed to restore the stack" in b:
            lost += 1
        sides.append((fr, held, b.splitlines()[0].strip()))
    if len(sides) == 2 and lost == 1:
        # TSan lost the history of one access: judge by the side it still knows
        known = sides[0] if sides[0][0] is not None else sides[1]
        sides = [known, (known[0], True, known[2] + " [other side: stack not restored]")]
    if len(sides) < 2 or any(s[0] is None for s in sides):
        return "fail", "tsan: data race outside the library sources or unparsable", {"sides": [s[2] for s in sides]}
    f1 = {x[0] for x in table.at.get((sides[0][0][0], sides[0][0][1]), [])}
    f2 = {x[0] for x in table.at.get((sides[1][0][0], sides[1][0][1]), [])}
    common = f1 & f2
    where = "%s:%d(%s) / %s:%d(%s)" % (sides[0][0][0], sides[0][0][1], sides[0][0][2], sides[1][0][0], sides[1][0][1], sides[1][0][2])
    info = {"where": where, "fields": sorted(common), "fields_side1": sorted(f1), "fields_side2": sorted(f2)}
    if not common:
        fns = sorted({sides[0][0][2], sides[1][0][2]})
        return "fail", "tsan: data race at a location outside the shared-field table: " + " / ".join(fns), info
    bad = sorted(common - table.benign)
    if bad:
        return "fail", "tsan: data race field=" + ",".join(bad), info
    # held-locks observation vs the table: the table must not claim a lock where TSan saw none
    contradiction = []
    for (fr, held, _l) in sides:
        musts = [x[2] for x in table.at[(fr[0], fr[1])] if x[0] in common]
        if musts and all(musts) and not held:
            contradiction.append("%s:%d table says %s held, TSan saw no mutex" % (fr[0], fr[1], sorted(set.intersection(*musts))))
    info["contradiction"] = contradiction
    return "benign", "benign: " + ",".join(sorted(common)), info


# --------------------------------------------------------------------------------- Spec

class Spec:
    props_module = "Mhd.Props.C18"
    lean_targets = ["Mhd.Props.C18"]
    required_theorems = ["Mhd.C18.context_certificate", "Mhd.C18.lock_order_ranked", "Mhd.C18.no_deadlock_by_lock_order",
                         "Mhd.C18.some_blocked_thread_can_proceed", "Mhd.C18.no_lock_held_while_blocking",
                         "Mhd.C18.lockset_partial", "Mhd.C18.lockset_witness", "Mhd.C18.writes_under_mutex",
                         "Mhd.C18.callbacks_unlocked", "Mhd.C18.have_new_paired", "Mhd.C18.resume_forces_zero_timeout", "Mhd.C18.stop_sequence", "Mhd.C18.stop_invariant",
                         "Mhd.C18.stop_progress", "Mhd.C18.stop_bounded", "Mhd.C18.stop_final",
                         "Mhd.C18.notified_at_most_once", "Mhd.C18.tpc_stop_terminates",
                         "Mhd.C18.tpc_stop_unfixed_witness", "Mhd.C18.per_ip_and_nonce_under_mutex", "Mhd.C18.locks_released_on_every_path",
                         "Mhd.C18.cursor_not_carried_across_unlock", "Mhd.C18.tpc_join_every_thread",
                         "Mhd.C18.tpc_join_carried_cursor_witness"]
    trusted_base = ["Lean 4 kernel; axioms propext / Classical.choice / Quot.sound at most (audited per theorem)",
                    "tools/locktable.py: that the table (held-lock sets along structured paths, guarded lock/unlock "
                    "pairs matched by condition text, a guarded unlock of a caller's lock taken to release it whenever held, return-value-sensitive callee summaries, thread roles from @remark / "
                    "mhd_assert / thread mains / external-loop API list) is a sound abstraction of the C code — validated "
                    "dynamically by TSan, not proved",
                    "hand-written sets in lean/Mhd/Model/Locks.lean: designated mutex per field, benign set, "
                    "fresh-object exceptions, hand-over functions; lean/Mhd/Model/LocksJoin.lean: pinnedNodeLoop (the walk over "
                    "the suspended list of upgraded TLS connections may keep its node across the join: those threads never unlink "
                    "their connection)",
                    "join-loop model lean/Mhd/Model/LocksJoin.lean (hand-written; its iteration discipline is the regenerated "
                    "`unlockLoops` fact — cursor data flow over the loop body in the AST; tied to the code by the 'stagger' scenario); "
                    "assumption: every connection thread ends after the shutdown was signalled (join returns)",
                    "shutdown state machine lean/Mhd/Model/LocksStop.lean (hand-written; tied to the source by "
                    "stop_sequence over the regenerated table and by the watchdog / notification accounting of the stress run)",
                    "clang-14 AST, gcc -fsanitize=thread, harness/h_thr.c"]
    assumptions = ["configured build: POSIX threads, epoll+poll+select, NDEBUG",
                   "API used as documented: MHD_stop_daemon only after every suspended connection was resumed; no "
                   "MHD_add_connection / MHD_get_daemon_info concurrent with MHD_stop_daemon; responses handed to "
                   "MHD_queue_auth_required_response3 are private to the reply; external-loop API (MHD_run*, MHD_get_fdset*, "
                   "MHD_get_timeout*) called from the one thread that drives the loop",
                   "mutexes are the only blocking primitive between library threads besides join/select/poll/epoll_wait",
                   "memory-order effects on the benign flags, races inside libc/GnuTLS and scheduler-dependent liveness are "
                   "outside the model (stated partial)"]

    _seq = 0
    _lock = __import__("threading").Lock()

    # (A)
    def gen(self, ctx):
        t0 = time.time()
        world, info, data = locktable.generate()
        self.table = Table(world, data)
        self.gen_info = info
        self.gen_info["seconds"] = round(time.time() - t0, 1)
        ctx.note("table regenerated: %d functions, %d events, lock-order edges %s (%.1fs)%s" % (
            info["functions"], info["events"], info["edges"], self.gen_info["seconds"], " CHANGED" if info["changed"] else ""))
        blist = sorted("%s:%d %s" % (k[0], k[1], x[0]) for k, v in self.table.at.items() for x in v if x[0] in self.table.benign)
        vlib.write_if_changed(os.path.join(vlib.BUILD, "c18_benign.json"),
                              json.dumps({"benign_fields": sorted(self.table.benign), "locations": sorted(set(blist))}, indent=1))

    # (C) build
    def build(self, ctx):
        src = os.path.join(vlib.VERIF, "harness", HARNESS + ".c")
        keys = vlib.repo_sources() + [src]

        def b():
            objs = vlib.cc_lib_objects("lib_tsan_c18", extra=TSAN_FLAGS, san=False)
            vlib.cc(HARNESS, [src], extra=TSAN_FLAGS, san=False, objs=objs, libs=["-lgnutls", "-lpthread"])
        self.harness = vlib.build_cached(HARNESS, keys, b)

    def run_one(self, mode, pool, clients, dur_ms, seed, features=FEATURES, watchdog_ms=10000):
        env = dict(os.environ)
        logdir = os.path.join(vlib.BUILD, "c18_tsan")
        os.makedirs(logdir, exist_ok=True)
        with self._lock:
            self._seq += 1
            logbase = os.path.join(logdir, "r%d_%d" % (os.getpid(), self._seq))
        env["TSAN_OPTIONS"] = TSAN_OPTIONS + " log_path=" + logbase      # reports go to <logbase>.<pid>, not mixed with stderr
        env["H_THR_WATCHDOG_MS"] = str(watchdog_ms)
        argv = [self.harness, mode, pool, str(clients), str(dur_ms), str(seed), features]
        t0 = time.time()
        try:
            r = subprocess.run(argv, stdout=subprocess.PIPE, stderr=subprocess.PIPE, text=True, errors="replace",
                               env=env, timeout=dur_ms / 1000.0 + watchdog_ms / 1000.0 + 60)
            rc, out, err = r.returncode, r.stdout, r.stderr
        except subprocess.TimeoutExpired as ex:
            rc, out, err = -999, (ex.stdout or b"").decode(errors="replace") if isinstance(ex.stdout, bytes) else (ex.stdout or ""), "TIMEOUT (harness itself hung)"
        for f in sorted(os.listdir(logdir)):
            if f.startswith(os.path.basename(logbase) + "."):
                fp = os.path.join(logdir, f)
                err += "\n" + open(fp, errors="replace").read()
                os.unlink(fp)
        res = {}
        for line in out.splitlines():
            if line.startswith("result "):
                res.update(dict(w.split("=", 1) for w in line.split()[1:] if "=" in w))
        return {"argv": argv[1:], "rc": rc, "res": res, "stderr": err, "wall": round(time.time() - t0, 2)}

    def judge(self, run, failures, stats):
        mode, pool = run["argv"][0], run["argv"][1]
        key = "%s/%s" % (mode, pool)
        st = stats["modes"].setdefault(key, collections.Counter())
        res, rc = run["res"], run["rc"]
        inp = {"argv": run["argv"], "tsan_options": TSAN_OPTIONS}
        st["runs"] += 1
        if res.get("skipped"):
            st["skipped"] += 1
            return
        for k in ("req_ok", "conn_add", "conn_tcp", "susp", "resume", "auth_chk", "cb_blocks", "post", "opt", "abort",
                  "handler", "completed", "conn_started", "conn_closed", "fd", "auth_ok", "auth_stale", "auth_respwrong",
                  "auth_noncewrong", "auth_ok_sent", "ip_bind_fail", "body_mismatch", "quietresume_retry", "mixed_len", "auth_md5_sent", "auth_sha256_sent", "stagger_runs", "stagger_conns", "stagger_closed_once"):
            st[k] += int(res.get(k, 0) or 0)
        if "stop_ms" in res:
            st["stop_ms_max"] = max(st["stop_ms_max"], int(res["stop_ms"]))
            if not res.get("watchdog") and not res.get("panic") == "1":
                st["stops_returned"] += 1
        if res.get("nnc_size") and int(res.get("auth_chk", 0) or 0) > 0:
            st["nnc%s_runs" % res["nnc_size"]] += 1
            stats.setdefault("auth_by_nnc", {}).setdefault(res["nnc_size"], collections.Counter()).update(
                {k: int(res.get(k, 0) or 0) for k in ("auth_chk", "auth_ok", "auth_stale", "auth_respwrong", "auth_noncewrong", "mixed_len")})
        if "ip_addrs" in res:
            st["ip_addrs_max"] = max(st["ip_addrs_max"], int(res["ip_addrs"]))
        if "stagger_stop_ms_max" in res:
            st["stagger_stop_ms_max"] = max(st["stagger_stop_ms_max"], int(res["stagger_stop_ms_max"]))
        stag = res.get("scenario") == "stagger" or (res.get("stagger") or "-") != "-"
        if res.get("panic") == "1" or rc == 5:
            st["panic"] += 1
            failures.append(vlib.Failure("oracle", "stop: library panic %s%s pool=%s" % (
                re.sub(r"[_.]+$", "", res.get("panic_reason", "?")), " during MHD_stop_daemon" if res.get("stop_begin") == "1" else "", pool),
                "MHD_PANIC (daemon.c:%s %s) %s: the process would abort, MHD_stop_daemon() does not return and the remaining connections get no "
                "closed notification.  mode=%s pool=%s scenario=%s %s\n%s" % (
                    res.get("panic_line"), res.get("panic_reason"),
                    "while stopping a thread-per-connection daemon whose busy handlers finish at staggered times" if stag else "",
                    mode, pool, res.get("stagger"), json.dumps(res), run["stderr"][-800:]), inp, "locks"))
            return
        if res.get("pinadd") in ("0", "1"):
            st["pinadd_runs"] += 1
        if res.get("pinadd") == "1":
            failures.append(vlib.Failure("oracle", "add: connection added from another thread during the take-over of an earlier one is not served pool=%s" % pool,
                                         "deterministic scenario (second MHD_add_connection issued from inside the NOTIFY_STARTED callback of the first, "
                                         "i.e. while the daemon thread is in new_connections_list_process_): no reply on one of the two connections within "
                                         "2 s.  mode=%s pool=%s %s" % (mode, pool, json.dumps(res)), inp, "locks"))
        if res.get("mixnonce") in ("0", "1"):
            st["mixnonce_runs"] += 1
        if res.get("mixnonce") == "1":
            failures.append(vlib.Failure("oracle", "digest: no (or a wrong) reply after a mixed-length nonce slot collision pool=%s" % pool,
                                         "deterministic scenario (one daemon, MD5 and SHA-256 digest auth on a ONE-slot nonce table: MD5 nonce accepted with nc=1, a "
                                         "SHA-256 challenge takes over the slot, the MD5 nonce is presented again with nc=2 -> must be answered 401 stale; then "
                                         "a new challenge must be issued and accepted): failed at step %s of 6 (1 MD5 challenge, 2 nc=1, 3 SHA-256 challenge, "
                                         "4 old nonce nc=2, 5 new challenge, 6 nc=1 on it); no reply within 2.5 s = a digest operation blocks on nnc_lock.  "
                                         "mode=%s pool=%s %s" % (res.get("mixnonce_step"), mode, pool, json.dumps(res)), inp, "locks"))
        if res.get("quietresume") in ("0", "1"):
            st["quietresume_runs"] += 1
            st["quietresume_ms_max"] = max(st["quietresume_ms_max"], int(res.get("quietresume_ms", 0) or 0))
        if res.get("quietresume") == "1":
            failures.append(vlib.Failure("oracle", "resume: connection resumed from another thread on an otherwise idle daemon gets no reply mode=%s pool=%s" % (mode, pool),
                                         "deterministic scenario (one connection, handler suspends, another thread resumes 150 ms later, no other "
                                         "traffic): no reply within 2 s.  %s" % json.dumps(res), inp, "locks"))
        if rc == 3 or res.get("watchdog"):
            st["watchdog"] += 1
            failures.append(vlib.Failure("oracle", "stop: MHD_stop_daemon did not return (watchdog) pool=%s" % pool,
                                         "MHD_stop_daemon() under load did not return within the watchdog limit: deadlock / "
                                         "livelock in the stop sequence.  mode=%s pool=%s\n%s" % (mode, pool, run["stderr"][-1500:]),
                                         inp, "locks"))
        elif (rc == 4 or res.get("bad") == "1") and stag:
            failures.append(vlib.Failure("oracle", "stop: staggered thread exits: a connection was not closed / notified exactly once pool=%s" % pool,
                                         "scenario stagger (3 busy handlers released in every order after MHD_stop_daemon started): " + json.dumps(res) +
                                         "\n" + run["stderr"][-800:], inp, "locks"))
        elif rc == 4 or res.get("bad") == "1":
            failures.append(vlib.Failure("oracle", "stop: notification accounting inconsistent pool=%s" % pool,
                                         "after MHD_stop_daemon: " + json.dumps(res), inp, "locks"))
        elif rc not in (0, 66):
            failures.append(vlib.Failure("sanitizer", "locks: harness ended abnormally rc=%s pool=%s" % ("N" if rc < 0 or rc > 100 else rc, pool),
                                         "rc=%d\n%s" % (rc, run["stderr"][-2500:]), inp, "locks"))
        reports = split_reports(run["stderr"])
        st["tsan_reports"] += len(reports)
        for rep in reports:
            kind = REPORT_RE.search(rep).group(1).strip()
            if kind == "thread leak" and (rc == 3 or res.get("watchdog")):
                continue                                      # consequence of the watchdog's _exit
            c, sig, info = classify(rep, self.table)
            if c == "benign":
                stats["benign"][sig] += 1
                stats["benign_where"].setdefault(sig, set()).add(info["where"])
                for x in info.get("contradiction", []):
                    failures.append(vlib.Failure("diff", "locks: held-locks observation contradicts the table",
                                                 x + "\n" + rep[:3000], dict(inp, report=rep[:6000]), "locks"))
            else:
                stats["failing"][sig] += 1
                failures.append(vlib.Failure("sanitizer", sig, json.dumps(info) + "\n" + rep[:6000],
                                             dict(inp, report=rep[:8000]), "locks"))

    def explore(self, ctx, boost):
        thorough = ctx.tier == "thorough"
        stats = {"modes": {}, "benign": collections.Counter(), "benign_where": {}, "failing": collections.Counter()}
        failures = []
        static = self.table.static_report()
        # static re-statement (diagnostics for the replay when a `decide` breaks)
        for c in static["lock_order_cycles"]:
            failures.append(vlib.Failure("diff", "locks: lock-order cycle in the regenerated table", c + "\n" + "\n".join(static["lock_order_edges"]),
                                         {"table": "lean/Mhd/Gen/Locks.lean", "cycle": c}, "locks"))
        for b in static["blocking_with_lock"][:5]:
            failures.append(vlib.Failure("diff", "locks: blocking call with a mutex possibly held", b, {"table": "lean/Mhd/Gen/Locks.lean", "site": b}, "locks"))
        for x in static["exits_holding_lock"][:4]:
            failures.append(vlib.Failure("diff", "locks: function can return with a mutex held: " + re.sub(r":\d+", ":N", x.split(" ", 1)[1])[:90],
                                         x + "\n(the mutex stays owned for ever: the next operation that needs it blocks, MHD_stop_daemon() does not return)\n"
                                         "all such exits: " + "; ".join(static["exits_holding_lock"][:30]),
                                         {"table": "lean/Mhd/Gen/Locks.lean", "site": x}, "locks"))
        for x in static["cursor_carried"]:
            failures.append(vlib.Failure("diff", "locks: list cursor carried across an unlock window: " + re.sub(r":\d+", ":N", x.split(":", 2)[-1].strip())[:90], x +
                                         "\n(other threads move connections between the lists while the mutex is released; see "
                                         "Mhd.C18.tpc_join_carried_cursor_witness for the history that leaves a thread unjoined)",
                                         {"table": "lean/Mhd/Gen/Locks.lean", "site": x}, "locks"))
        for x in static["have_new_unpaired"]:
            failures.append(vlib.Failure("diff", "locks: have_new written outside the critical section of the hand-over list", x,
                                         {"table": "lean/Mhd/Gen/Locks.lean", "site": x}, "locks"))
        for x in static["resume_result_discarded"]:
            failures.append(vlib.Failure("diff", "locks: event loop ignores the result of resume_suspended_connections", x,
                                         {"table": "lean/Mhd/Gen/Locks.lean", "site": x}, "locks"))
        for u in static["unprotected_accesses"][:8]:
            failures.append(vlib.Failure("diff", "locks: shared field accessed without its mutex outside the benign set: " +
                                         re.sub(r":\d+", ":N", u.split(" held=")[0]), u, {"table": "lean/Mhd/Gen/Locks.lean", "site": u}, "locks"))
        # dynamic part
        if thorough:
            seeds = [ctx.rng.randrange(1, 10 ** 6) for _ in range(10)]
            dur, clients, par = 20000, 8, 4
        else:
            seeds = [ctx.rng.randrange(1, 10 ** 6)]
            dur, clients, par = 6000, 6, 4
        if boost:
            seeds = seeds + [ctx.rng.randrange(1, 10 ** 6) for _ in range(len(seeds) + 1)]
        jobs = []
        # deterministic: thread-per-connection stop with busy handlers released in all 6 orders x 2 list layouts
        for mode in ("select", "poll"):
            for k in range(3 if thorough else 1):
                jobs.append((mode, "tpc", 0, 0, k + 1, "stagger"))
        # deterministic: two digest algorithms on a one-slot nonce table (mixed-length slot collision), then the stop
        for (mode, pool) in (("select", "4"), ("poll", "1"), ("epoll", "4"), ("poll", "tpc")):
            jobs.append((mode, pool, 0, 0, 1, "add,auth,mixnonce"))
        # corpus first: configurations that exposed defects before
        cdir = os.path.join(vlib.VERIF, "corpus", "locks")
        ncorp = 0
        if os.path.isdir(cdir):
            for f in sorted(os.listdir(cdir)):
                if f.endswith(".json"):
                    c = json.load(open(os.path.join(cdir, f)))
                    a = c["argv"]
                    for k in range(int(c.get("repeat", 1))):
                        jobs.append((a[0], a[1], int(a[2]), int(a[3]), int(a[4]) + k, a[5]))
                        ncorp += 1
        for s in seeds:
            for (mode, pool) in COMBOS:
                jobs.append((mode, pool, clients, dur, s))
            # a second thread-per-connection pass focused on suspend/resume + stop (short, many stops)
            for mode in ("select", "poll"):
                jobs.append((mode, "tpc", clients, dur // 3, s + 1, "add,susp,abort"))
            # quiet stop: no traffic at the time of the stop, only the inter-thread channel wakes the threads
            for (mode, pool) in (("select", "4"), ("poll", "1"), ("epoll", "4"), ("poll", "tpc")):
                jobs.append((mode, pool, 3, 700, s + 2, FEATURES + ",quiet"))
        t0 = time.time()
        with ThreadPoolExecutor(max_workers=par) as ex:
            runs = list(ex.map(lambda j: self.run_one(*j), jobs))
        for r in runs:
            self.judge(r, failures, stats)
        nontrivial = sum(1 for r in runs if (int(r["res"].get("req_ok", 0) or 0) > 0 and "stop_ms" in r["res"]) or
                         int(r["res"].get("stagger_closed_once", 0) or 0) > 0)
        tot = collections.Counter()
        for v in stats["modes"].values():
            for k_, n_ in v.items():
                if not k_.endswith("_max"):
                    tot[k_] += n_
        scen = {
            "a_digest_auth_shared_nonce_table": {
                "what": "MHD_digest_auth_check3 + MHD_queue_auth_required_response3 from every worker / connection thread on ONE nonce table of 1, 8 or 64 slots, MD5 and SHA-256 clients mixed "
                        "nonce table (nnc_lock); wrong and right answers; stale = slot taken over by another nonce (collision) or nc replay",
                "checks": tot["auth_chk"], "ok": tot["auth_ok"], "stale_or_collision": tot["auth_stale"],
                "response_wrong": tot["auth_respwrong"], "nonce_wrong": tot["auth_noncewrong"],
                "by_nonce_table_size": {k: dict(v) for k, v in stats.get("auth_by_nnc", {}).items()},
                "algorithms": {"md5_answers_sent": tot["auth_md5_sent"], "sha256_answers_sent": tot["auth_sha256_sent"],
                               "mixed_length_collisions": tot["mixed_len"],
                               "mixed_length_rule": "an MD5 nonce (44 chars) presented while the nonce most recently handed out by the daemon was a SHA-256 "
                                                    "one (76 chars); exact for the 1-slot table, ~1/size otherwise; counted per table size below",
                               "mixnonce_scenario_runs": tot["mixnonce_runs"]},
                "outcomes": "ok / response_wrong = the nonce was found in its slot and the nonce-counter bitmap was updated; stale / nonce_wrong = the "
                            "slot holds another nonce (collision, taken over) or the nc was replayed",
                "threads": "pool of 4 workers / one thread per connection, %d client threads" % clients},
            "b_shared_response_objects": {"callback_response_blocks": tot["cb_blocks"], "fd_response_replies": tot["fd"],
                                          "static_response": "every other reply", "body_checksum_mismatches": tot["body_mismatch"]},
            "c_add_connection_from_app_threads": {"MHD_add_connection_ok": tot["conn_add"], "calling_threads": clients,
                                                  "accepted_tcp": tot["conn_tcp"], "pinadd_runs": tot["pinadd_runs"]},
            "quietresume": {"runs": tot["quietresume_runs"], "first_attempt_timed_out_second_ok": tot["quietresume_retry"],
                            "ms_max": max([v.get("quietresume_ms_max", 0) for v in stats["modes"].values()] or [0])},
            "d_per_ip_accounting": {"distinct_client_addresses_max_per_run": max([v.get("ip_addrs_max", 0) for v in stats["modes"].values()] or [0]),
                                    "connections_counted": tot["conn_started"], "bind_failures": tot["ip_bind_fail"]},
            "e_stop_under_load": {k: {"stops_returned": v.get("stops_returned", 0), "stop_ms_max": v.get("stop_ms_max", 0)}
                                  for k, v in stats["modes"].items()},
            "stagger_tpc_stop": {"daemon_stops": tot["stagger_runs"], "connections": tot["stagger_conns"],
                                 "closed_exactly_once": tot["stagger_closed_once"], "panics": tot["panic"],
                                 "orders": "all 6 finishing orders of 3 busy handlers x {3 connections, 5 with idle ones in between} x {select, poll}"},
            "tsan_reports_per_mode": {k: v.get("tsan_reports", 0) for k, v in stats["modes"].items()},
        }
        cov = {"evaluations": len(runs), "distinct_nontrivial": nontrivial,
               "rule": "one evaluation = one TSan stress run (mode x threading x seed, %d client threads, %d ms of load, then "
                       "MHD_stop_daemon under load with a 10 s watchdog); non-trivial = served >= 1 request and the stop returned" % (clients, dur),
               "samples": [" ".join(r["argv"]) + " -> " + " ".join("%s=%s" % (k, r["res"].get(k)) for k in ("stop_ms", "req_ok", "susp", "auth_chk", "conn_add", "conn_tcp", "fd", "ip_addrs", "stagger_runs", "stagger_closed_once")
                                                                    if r["res"].get(k) is not None)
                           for r in (runs[:1] + [r for r in runs if int(r["res"].get("req_ok", 0) or 0) > 0][:3])],
               "exhaustive": False, "corpus_runs": ncorp,
               "PROVED_by_lean_over_regenerated_table": {
                   "what": "context certificate; lock order ranked => no wait cycle / progress in the abstract thread model; no lock "
                           "held at join/select/poll/epoll_wait; every lock released on every path to a function exit (lock wrappers excepted); lockset discipline (partial, with witness); writes protected; per-IP tree "
                           "and nonce table under their mutex without exception; callbacks; stop sequencing; shutdown state machine "
                           "(invariant, progress, bound, clean end, notified once); no list cursor carried across an unlock window => "
                           "the thread-per-connection stop joins every thread under any interleaving of thread exits (+ witness)",
                   "table": {k: self.gen_info[k] for k in ("functions", "events", "edges", "rank", "seconds")},
                   "static_view": static},
               "OBSERVED_dynamically_not_proved": {
                   "scenarios": scen,
                   "tsan_options": TSAN_OPTIONS, "stress_wall_s": round(time.time() - t0, 1),
                   "per_mode": {k: dict(v) for k, v in stats["modes"].items()},
                   "benign_reports_tolerated": dict(stats["benign"]),
                   "benign_report_locations": {k: sorted(v)[:12] for k, v in stats["benign_where"].items()},
                   "failing_reports": dict(stats["failing"]),
                   "benign_set": sorted(self.table.benign),
                   "benign_location_list": "build/c18_benign.json (generated from the table and lean/Mhd/Model/Locks.lean:benignFields)"},
               }
        ctx.note("stress: %d runs, %d TSan reports tolerated as benign (%s), failing: %s" % (
            len(runs), sum(stats["benign"].values()), ", ".join(sorted(stats["benign"])), dict(stats["failing"]) or "none"))
        return failures, cov


def replay(ctx, path):
    r = json.load(open(path))
    sp = Spec()
    sp.gen(ctx)
    sp.build(ctx)
    inp = r.get("input") or {}
    if "argv" not in inp:
        print("static finding (no dynamic input):", r.get("signature") or r.get("no_longer_checks"))
        print(json.dumps(sp.table.static_report(), indent=1)[:6000])
        return 1
    a = inp["argv"]
    want = r.get("signature")
    seen, hit = [], False
    for k in range(6):                                  # schedules are not reproducible: several attempts
        run = sp.run_one(a[0], a[1], int(a[2]), int(a[3]), int(a[4]) + k, a[5] if len(a) > 5 else FEATURES)
        fl, st = [], {"modes": {}, "benign": collections.Counter(), "benign_where": {}, "failing": collections.Counter()}
        sp.judge(run, fl, st)
        for f in fl:
            if f.signature not in seen:
                seen.append(f.signature)
                print("attempt %d: %s %s" % (k, f.kind, f.signature))
                if f.signature == want or want is None:
                    print(f.detail[:3000])
            hit = hit or f.signature == want
        if hit:
            break
    print("replay: signature %s: %s" % (want, "REPRODUCED" if hit else "not reproduced in 6 attempts (other failures: %s)" % seen))
    return 1 if (hit or seen) else 0
